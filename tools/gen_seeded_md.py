#!/usr/bin/env python3
"""Regenerate the table between <!-- BEGIN SEEDED --> and <!-- END SEEDED --> in DESIGN.md from seeded/*/meta.json.
For every check that was run against a seeded change the LATEST recorded run counts."""
import glob
import json
import os
import re

rows = ["| seeded change | property | suite | demo | caught by (tier: signatures) | what it needs to manifest |", "|---|---|---|---|---|---|"]
for d in sorted(glob.glob("/verif/seeded/*/")):
    name = os.path.basename(d.rstrip("/"))
    try:
        m = json.load(open(d + "meta.json"))
    except Exception:  # noqa: BLE001
        continue
    latest = {}
    suite = demo = "?"
    for r in m.get("verif_runs", []):
        if r.get("applies") is False:
            continue
        suite = "passes" if r.get("suite_passes") else "FAILS"
        demo = "ok" if r.get("demo_ok") else "not ok"
        for cid, v in r.get("checks", {}).items():
            latest[cid] = v
    own = m.get("property", name[:3])
    parts = []
    for cid in sorted(latest, key=lambda c: (c != own, c)):
        v = latest[cid]
        if v.get("caught"):
            parts.append(f"{cid} ({v.get('tier')}: {', '.join(s.split('/', 1)[1] if s.startswith(cid + '/') else s for s in v.get('signatures', [])[:2])})")
        elif cid == own:
            parts.append(f"{cid} MISSED ({v.get('tier')})")
    needs = (m.get("needs") or "").replace("|", "\\|").replace("\n", " ")[:220]
    rows.append(f"| {name} | {own} | {suite} | {demo} | {'; '.join(parts)} | {needs} |")
s = open("/verif/DESIGN.md").read()
s = re.sub(r"(<!-- BEGIN SEEDED -->\n).*?(<!-- END SEEDED -->)", lambda mo: mo.group(1) + "\n".join(rows) + "\n" + mo.group(2), s, flags=re.S)
open("/verif/DESIGN.md", "w").write(s)
print(len(rows) - 2, "rows")
