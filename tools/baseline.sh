#!/bin/sh
# run the repository's own suite on a tree (default /repo); prints the summary line
cd "${1:-/repo}" && /venv/bin/python -m pytest -q -p no:cacheprovider --timeout=900 -x -q 2>&1 | tail -3
