#!/bin/sh
# run the repository's own suite on a tree (default /repo); prints the summary line
cd "${1:-/repo}" && PYTHONPATH="${1:-/repo}/src" /venv/bin/python -m pytest -q -p no:cacheprovider --timeout=900 -x -q 2>&1 | tail -3
