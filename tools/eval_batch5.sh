#!/bin/sh
# round 5: tools/eval_batch5.sh <tier> CNN:x[:also,also] ...  (x in a,b is stored as i,j)
tier="$1"; shift
for spec in "$@"; do
  pid=$(echo $spec | cut -d: -f1); x=$(echo $spec | cut -d: -f2); also=$(echo $spec | cut -s -d: -f3)
  lab=$( [ "$x" = "a" ] && echo i || echo j )
  if [ -f /tmp/seed5-$pid/patch_$x.diff ]; then
    /verif/tools/eval_seed.py $pid $x --src /tmp/seed5-$pid --label $lab --tier $tier ${also:+--also $also} 2>&1 | grep -v conda | grep "^SEED" >> /dev/shm/seed_eval5.log
  else
    /verif/tools/eval_seed.py $pid $lab --tier $tier ${also:+--also $also} 2>&1 | grep -v conda | grep "^SEED" >> /dev/shm/seed_eval5.log
  fi
done
