#!/usr/bin/env python3
"""Regenerate regress/*.diff so that each applies to /repo HEAD: the patch is `git revert` of the
fix commit computed on a scratch clone (conflicts are reported and must be written by hand)."""
import json, os, shutil, subprocess, sys, tempfile
d = json.load(open("/verif/known_findings.json"))
seen = {}
for e in d["findings"]:
    if e.get("status") == "fixed" and e.get("regress_patch"):
        seen[e["regress_patch"]] = e["commit"]
tmp = tempfile.mkdtemp(dir="/dev/shm", prefix="regen-")
subprocess.run(["git", "clone", "-q", "/repo", tmp + "/r"], check=True)
r = tmp + "/r"
for patch, commit in sorted(seen.items()):
    subprocess.run(["git", "-C", r, "reset", "-q", "--hard", "HEAD"], check=True)
    p = subprocess.run(["git", "-C", r, "revert", "--no-commit", commit], capture_output=True, text=True)
    if p.returncode != 0:
        subprocess.run(["git", "-C", r, "revert", "--abort"], capture_output=True)
        ok = subprocess.run(["git", "-C", "/repo", "apply", "--check", "/verif/" + patch], capture_output=True).returncode == 0
        print("CONFLICT", patch, commit, "(existing patch applies)" if ok else "(existing patch STALE)")
        continue
    diff = subprocess.run(["git", "-C", r, "diff", "HEAD"], capture_output=True, text=True).stdout
    open("/verif/" + patch, "w").write(diff)
    subprocess.run(["git", "-C", r, "revert", "--abort"], capture_output=True)
    print("ok", patch)
shutil.rmtree(tmp)
