#!/usr/bin/env python3
"""tools/eval_seed.py <CNN> <a|b> [--tier quick|thorough] [--also C..,C..] [--src /tmp/seed-CNN]

Admit and evaluate one seeded change delivered by an independent sub-agent:
  1. copy /repo to a scratch dir under /dev/shm, apply patch_x.diff
  2. the repository's own suite must still pass on the copy
  3. demo_x.py must exit 0 on /repo and non-zero on the copy
  4. run ./check CNN (and --also checks) against the copy: CAUGHT / MISSED
  5. store patch, demo and meta (with these results) under /verif/seeded/CNN-x/
The scratch copy is removed afterwards.  Evidence of these runs goes to the scratch dir, never to /verif/evidence.
"""
import argparse
import json
import os
import shutil
import subprocess
import sys
import tempfile
import time

ap = argparse.ArgumentParser()
ap.add_argument("pid")
ap.add_argument("x")
ap.add_argument("--tier", default="quick")
ap.add_argument("--also", default="")
ap.add_argument("--src", default=None)
ap.add_argument("--label", default=None, help="name of the stored copy: /verif/seeded/CNN-<label> (default: x)")
ap.add_argument("--nproc", default=os.environ.get("VERIF_NPROC", ""))
a = ap.parse_args()
pid, x = a.pid.upper(), a.x
src = a.src or f"/tmp/seed-{pid}"
label = a.label or x
stored = f"/verif/seeded/{pid}-{label}"
patch = os.path.join(src, f"patch_{x}.diff")
demo = os.path.join(src, f"demo_{x}.py")
metaf = os.path.join(src, f"meta_{x}.json")
if not os.path.exists(patch) and os.path.exists(os.path.join(stored, "patch.diff")):
    patch, demo, metaf = (os.path.join(stored, n) for n in ("patch.diff", "demo.py", "meta.json"))
meta = {}
try:
    meta = json.load(open(metaf))
except Exception as e:  # noqa: BLE001
    meta = {"property": pid, "summary": f"(meta unreadable: {e})"}
res = {"property": pid, "variant": a.label or x, "evaluated_at_repo_head": subprocess.run(
    ["git", "-C", "/repo", "rev-parse", "--short", "HEAD"], capture_output=True, text=True).stdout.strip()}


def sh(cmd, env=None, cwd=None, timeout=3600):
    e = dict(os.environ)
    e.update(env or {})
    try:
        r = subprocess.run(cmd, shell=True, capture_output=True, text=True, env=e, cwd=cwd, timeout=timeout)
        return r.returncode, (r.stdout + r.stderr)
    except subprocess.TimeoutExpired:
        return 124, "TIMEOUT"


d = tempfile.mkdtemp(prefix="mut-", dir="/dev/shm")
try:
    sh(f"cp -r /repo/. {d}/ && rm -rf {d}/.git/worktrees")
    rc, out = sh(f"git -C {d} apply --whitespace=nowarn {patch}")
    res["applies"] = rc == 0
    if rc != 0:
        rc3, out3 = sh(f"git -C {d} apply --3way --whitespace=nowarn {patch}")
        res["applies"] = rc3 == 0
        res["apply_note"] = "3way" if rc3 == 0 else out[-300:]
    if res["applies"]:
        rc, out = sh("/venv/bin/python -m pytest -q -p no:cacheprovider -x 2>&1 | tail -1", env={"PYTHONPATH": f"{d}/src"}, cwd=d)
        res["suite"] = out.strip().splitlines()[-1] if out.strip() else ""
        res["suite_passes"] = "passed" in res["suite"] and "failed" not in res["suite"] and "error" not in res["suite"]
        rc0, _ = sh(f"/venv/bin/python {demo}", env={"PYTHONPATH": "/repo/src"}, cwd=os.path.dirname(demo), timeout=300)
        rc1, o1 = sh(f"/venv/bin/python {demo}", env={"PYTHONPATH": f"{d}/src"}, cwd=os.path.dirname(demo), timeout=300)
        res["demo_exit_unchanged"], res["demo_exit_changed"] = rc0, rc1
        res["demo_ok"] = rc0 == 0 and rc1 != 0
        res["checks"] = {}
        for cid in [pid] + [c for c in a.also.split(",") if c]:
            t0 = time.time()
            env = {"VERIF_REPO": d, "VERIF_EVIDENCE_DIR": f"{d}/.evidence", "VERIF_REPLAY_DIR": f"{d}/.replays"}
            if a.nproc:
                env["VERIF_NPROC"] = a.nproc
            rc, out = sh(f"./check {cid} --tier {a.tier}", env=env, cwd="/verif", timeout=5400)
            lines = [l for l in out.splitlines() if "conda" not in l]
            sigs = [l.strip()[len("signature: "):] for l in lines if l.strip().startswith("signature: ")]
            viol = [l for l in lines if l.startswith("VIOLATION")]
            res["checks"][cid] = {"tier": a.tier, "exit": rc, "caught": bool(viol) and rc == 1, "signatures": sigs[:8],
                                  "harness_error": any(l.startswith("HARNESS") for l in lines), "wall_s": round(time.time() - t0, 1)}
finally:
    shutil.rmtree(d, ignore_errors=True)

os.makedirs(stored, exist_ok=True)
if os.path.abspath(patch) != os.path.abspath(os.path.join(stored, "patch.diff")):
    shutil.copy(patch, os.path.join(stored, "patch.diff"))
    if os.path.exists(demo):
        shutil.copy(demo, os.path.join(stored, "demo.py"))
prev = {}
if os.path.exists(os.path.join(stored, "meta.json")):
    try:
        prev = json.load(open(os.path.join(stored, "meta.json")))
    except Exception:  # noqa: BLE001
        prev = {}
runs = prev.get("verif_runs", [])
runs.append(res)
out = {k: v for k, v in (prev or meta).items() if k != "verif_runs"}
if not prev:
    out = dict(meta)
out["verif_runs"] = runs
out["what_was_run"] = ("scratch copy of /repo + patch; repo suite with PYTHONPATH=<copy>/src; demo on /repo and on the copy; "
                       "./check <ID> with VERIF_REPO=<copy> (tools/eval_seed.py)")
json.dump(out, open(os.path.join(stored, "meta.json"), "w"), indent=1)
c = res.get("checks", {})
print(f"SEED {pid}-{label}: applies={res.get('applies')} suite_passes={res.get('suite_passes')} demo_ok={res.get('demo_ok')} "
      + " ".join(f"{k}={'CAUGHT' if v['caught'] else ('HARNESS' if v['harness_error'] else 'MISSED')}({v['wall_s']}s)" for k, v in c.items()))
