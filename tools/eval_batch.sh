#!/bin/sh
# tools/eval_batch.sh <tier> CNN:x[:also,also] ...   -> appends to /dev/shm/seed_eval.log
tier="$1"; shift
for spec in "$@"; do
  pid=$(echo $spec | cut -d: -f1); x=$(echo $spec | cut -d: -f2); also=$(echo $spec | cut -s -d: -f3)
  /verif/tools/eval_seed.py $pid $x --tier $tier ${also:+--also $also} 2>&1 | grep -v conda | grep "^SEED" >> /dev/shm/seed_eval.log
done
