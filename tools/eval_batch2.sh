#!/bin/sh
# round 2: tools/eval_batch2.sh <tier> CNN:x[:also,also] ...  (x in a,b is stored as c,d)
tier="$1"; shift
for spec in "$@"; do
  pid=$(echo $spec | cut -d: -f1); x=$(echo $spec | cut -d: -f2); also=$(echo $spec | cut -s -d: -f3)
  lab=$( [ "$x" = "a" ] && echo c || echo d )
  if [ -f /tmp/seed2-$pid/patch_$x.diff ]; then
    /verif/tools/eval_seed.py $pid $x --src /tmp/seed2-$pid --label $lab --tier $tier ${also:+--also $also} 2>&1 | grep -v conda | grep "^SEED" >> /dev/shm/seed_eval2.log
  else
    /verif/tools/eval_seed.py $pid $lab --tier $tier ${also:+--also $also} 2>&1 | grep -v conda | grep "^SEED" >> /dev/shm/seed_eval2.log
  fi
done
