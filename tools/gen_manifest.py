#!/venv/bin/python
"""Regenerate MANIFEST.json from the META dicts of checks/cNN.py and NOT_APPLICABLE below."""
import importlib, json, os, sys, glob

VERIF = os.path.dirname(os.path.dirname(os.path.abspath(__file__)))
sys.path.insert(0, VERIF)
os.chdir(VERIF)
NOT_APPLICABLE = {}  # property id -> reason (none: every property has a bounded exhaustive formulation)

props = [json.loads(l)["id"] for l in open("properties.jsonl")]
checks, engines = [], {}
missing = []
for pid in props:
    path = f"checks/{pid.lower()}.py"
    if not os.path.exists(path):
        missing.append(pid)
        continue
    meta = {}
    src = open(path).read()
    # META is a literal dict at module level: evaluate just that assignment (no jinja import needed)
    import ast
    tree = ast.parse(src)
    for node in tree.body:
        if isinstance(node, ast.Assign) and getattr(node.targets[0], "id", None) == "META":
            meta = ast.literal_eval(node.value)
    if meta.get("disabled"):
        missing.append(pid)
        NOT_APPLICABLE.setdefault(pid, meta["disabled"])
        continue
    checks.append({
        "property_id": pid,
        "quick_cmd": f"./check {pid} --tier quick",
        "thorough_cmd": f"./check {pid} --tier thorough",
        "evidence_file": f"/verif/evidence/{pid}.json",
        "replay_cmd_template": f"./check {pid} --replay {{path}}",
        "engine": meta.get("engine", "vf"),
        "level_claimed": {"category": meta["level"], "text": meta["text"], "design_ref": meta.get("design_ref", "DESIGN.md §4 " + pid)},
        "level_note": meta["note"],
        "technique": meta["technique"],
    })
na = [{"property_id": p, "reason": NOT_APPLICABLE.get(p, "check not built yet (work in progress); see DESIGN.md §4 for the planned bounded-exhaustive formulation")} for p in missing]
man = {
    "version": 1,
    "setup_cmd": "cd /verif && /venv/bin/python -c \"import sys; sys.path.insert(0,'/repo/src'); import jinja2, markupsafe\" && chmod +x check",
    "hooks": {
        "guard": "JINJA_VERIF",
        "enable": "no source hooks: every seam (jinja2.utils.Lock, jinja2.bccache.{tempfile,os,open}, jinja2.{idtracking,compiler,ext}.set, sys.settrace, hand-driven coroutines) is rebound from outside by the harness; checks import jinja2 from /repo/src directly",
        "baseline_off_cmd": "cd /repo && /venv/bin/python -m pytest -ra -q -p no:cacheprovider --timeout=900 --continue-on-collection-errors",
        "source_commits": [],
        "add_only": True,
    },
    "engines": [
        {"name": "E1", "path": "vf/e1.py", "kind_free_text": "bounded-exhaustive enumerators (strings over fragment alphabets, ASTs of a private mini-language, token-edit mutations)"},
        {"name": "E2", "path": "vf/e2.py", "kind_free_text": "explicit-state BFS over the real implementation by history replay, lock-step reference model, merge (one-step bisimulation) checks"},
        {"name": "E3", "path": "vf/e3.py", "kind_free_text": "controlled thread scheduler (sys.settrace + batons, cooperative lock), CHESS-style preemption-bounded enumeration, brute-force linearizability"},
        {"name": "E4", "path": "vf/e4.py", "kind_free_text": "hand-driven coroutine scheduler: all interleavings of gate releases, all cancel/aclose/fault points"},
        {"name": "E5", "path": "vf/e5.py", "kind_free_text": "fault and crash-point injector (data proxies raising at event k; filesystem shim numbering every write-path operation)"},
        {"name": "E6", "path": "vf/e6.py", "kind_free_text": "owner of set iteration order (ChoiceSet) enumerating iteration orders"},
    ],
    "checks": checks,
    "not_applicable": na,
    "notes": "All checks: cwd /verif, ./check <ID> --tier quick|thorough. Known findings: /verif/known_findings.json. Design: /verif/DESIGN.md.",
}
for e in man["engines"]:
    e["serves_properties"] = [c["property_id"] for c in checks if e["name"] in (c["engine"] or "")]
json.dump(man, open("MANIFEST.json", "w"), indent=1)
print(f"{len(checks)} checks, {len(na)} not claimed yet")
