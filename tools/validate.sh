#!/bin/sh
# validate MANIFEST.json and all evidence files against the schemas
cd /verif && python3-vt - <<'PY'
import json, glob, jsonschema
jsonschema.validate(json.load(open("MANIFEST.json")), json.load(open("/root/.vp/MANIFEST.schema.json")))
es = json.load(open("/root/.vp/EVIDENCE.schema.json"))
for f in sorted(glob.glob("evidence/*.json")):
    jsonschema.validate(json.load(open(f)), es)
print("manifest + evidence valid")
PY
