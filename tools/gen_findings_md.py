#!/usr/bin/env python3
"""Rewrite the generated tables of DESIGN.md (between <!-- BEGIN x --> / <!-- END x --> markers)
from known_findings.json and seeded/*/meta.json."""
import glob, json, os, re
os.chdir("/verif")
d = json.load(open("known_findings.json"))
rows = {}
for e in d["findings"]:
    k = e.get("defect", "?")
    r = rows.setdefault(k, {"props": [], "status": e["status"], "commit": e.get("commit", ""), "sig": e.get("signature", ""),
                            "what": e.get("record", e.get("what", ""))})
    if e["property"] not in r["props"]:
        r["props"].append(e["property"])
def keyf(k):
    m = re.match(r"F(\d+)(\w*)", k)
    return (int(m.group(1)), m.group(2)) if m else (999, k)
lines = ["| id | properties | disposition | signature(s) | what failed on the unchanged tree |", "|----|-----------|-------------|--------------|-----------------------------------|"]
for k in sorted(rows, key=keyf):
    r = rows[k]
    what = r["what"]
    what = re.sub(r"^(fixed: property=\S+ \S+ |KNOWN-FINDING: property=\S+ )", "", what).replace("|", "\\|")
    disp = f"fixed in `{r['commit']}`" if r["status"] == "fixed" else "**known finding**"
    lines.append(f"| {k} | {', '.join(r['props'])} | {disp} | `{r['sig']}` | {what} |")
findings = "\n".join(lines)

seed_lines = ["| seeded change | property | suite | demo | caught by (tier: signatures) | what it needs to manifest |", "|---|---|---|---|---|---|"]
for f in sorted(glob.glob("seeded/*/meta.json")):
    m = json.load(open(f))
    name = os.path.basename(os.path.dirname(f))
    runs = m.get("verif_runs", [])
    if not runs:
        continue
    last = {}
    suite = demo = "?"
    for r in runs:
        ok = r.get("suite_passes") or ("[100%]" in str(r.get("suite", "")) and "F" not in str(r.get("suite", "")))
        suite = "passes" if ok else "FAILS"
        demo = "ok" if r.get("demo_ok") else "not ok"
        for cid, c in r.get("checks", {}).items():
            if c["caught"] or cid not in last:
                last[cid] = c
    caught = "; ".join(f"{cid} ({c['tier']}: {', '.join(s.split('/', 1)[-1] for s in c['signatures'][:2]) or '-'})" if c["caught"] else f"{cid} MISSED ({c['tier']})" for cid, c in last.items())
    needs = str(m.get("needs", "")).replace("|", "\\|").replace("\n", " ")[:220]
    seed_lines.append(f"| {name} | {m.get('property', name[:3])} | {suite} | {demo} | {caught} | {needs} |")
seeds = "\n".join(seed_lines)

man = json.load(open("MANIFEST.json"))
cl = ["| id | level | engine | tier of last run | evaluations | distinct non-trivial | states / transitions | exhaustive | wall s |", "|---|---|---|---|---|---|---|---|---|"]
for c in man["checks"]:
    pid = c["property_id"]
    try:
        e = json.load(open(f"evidence/{pid}.json"))
        cov = e["coverage"]
        st = f"{cov['states']} / {cov['transitions']}" if "states" in cov else "-"
        cl.append(f"| {pid} | {e['level']} | {c.get('engine', '')} | {e['tier']} | {cov.get('evaluations')} | {cov.get('distinct_nontrivial')} | {st} | {cov.get('exhaustive')} | {e['wall_s']} |")
    except Exception:
        cl.append(f"| {pid} | {c['level_claimed']['category']} | {c.get('engine', '')} | (no evidence yet) | | | | | |")
checks = "\n".join(cl)

s = open("DESIGN.md").read()
for tag, body in (("FINDINGS", findings), ("SEEDED", seeds), ("CHECKS", checks)):
    pat = re.compile(rf"(<!-- BEGIN {tag} -->\n).*?(<!-- END {tag} -->)", re.S)
    if pat.search(s):
        s = pat.sub(lambda m: m.group(1) + body + "\n" + m.group(2), s)
open("DESIGN.md", "w").write(s)
print("tables regenerated")
