#!/bin/sh
# tools/run_all.sh <tier> [ids...]  -> one line per check (exit code, wall, summary)
tier="$1"; shift
ids="$@"
[ -z "$ids" ] && ids=$(python3 -c "import json;print(' '.join(c['property_id'] for c in json.load(open('/verif/MANIFEST.json'))['checks']))" 2>/dev/null)
cd /verif
for id in $ids; do
  t0=$(date +%s)
  out=$(./check $id --tier $tier 2>&1 | grep -v conda)
  rc=$?
  t1=$(date +%s)
  echo "$id rc=$(echo "$out" | grep -c '^VIOLATION') known=$(echo "$out" | grep -c '^KNOWN-FINDING') harness=$(echo "$out" | grep -c '^HARNESS') wall=$((t1-t0))s :: $(echo "$out" | tail -1 | cut -c1-160)"
done
