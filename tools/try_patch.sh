#!/bin/sh
# tools/try_patch.sh <patch.diff> <tier> <ID> [<ID>...]
# Applies a patch to a scratch copy of /repo (under /dev/shm), runs the repository's own
# suite on it (must pass for the change to count as "not caught by the tests"), then runs
# the given checks against the copy.  Evidence/replays of these runs go to the scratch dir.
patch="$1"; tier="$2"; shift 2
d=$(mktemp -d /dev/shm/mut-XXXXXX)
cp -r /repo/. "$d/" && rm -rf "$d/.git/worktrees"
if ! git -C "$d" apply "$patch"; then echo "PATCH DOES NOT APPLY"; rm -rf "$d"; exit 3; fi
suite=$(cd "$d" && PYTHONPATH="$d/src" /venv/bin/python -m pytest -q -p no:cacheprovider -x -q 2>&1 | tail -1)
echo "suite on mutant: $suite"
cd /verif
for id in "$@"; do
  out=$(VERIF_REPO="$d" VERIF_EVIDENCE_DIR="$d/.evidence" VERIF_REPLAY_DIR="$d/.replays" ./check "$id" --tier "$tier" 2>&1 | grep -v conda)
  rc=$?
  echo "$out" | grep -E "^VIOLATION|^KNOWN-FINDING|^HARNESS|tier=" | head -6
  echo "$out" | grep -q "^VIOLATION" && echo "RESULT $id: CAUGHT" || echo "RESULT $id: MISSED"
done
rm -rf "$d"
