#!/bin/sh
# tools/regress_all.sh [tier] : apply the reverse of every fix commit (regress/*.diff) to a scratch copy and run the
# check(s) of the properties the fix is recorded for; every line must say CAUGHT for at least one of them.
tier="${1:-quick}"
cd /verif
/venv/bin/python - <<'PY' > /dev/shm/regress_plan.txt
import json
d=json.load(open('/verif/known_findings.json'))
plan={}
for e in d['findings']:
    if e.get('status')=='fixed' and e.get('regress_patch'):
        plan.setdefault(e['regress_patch'],[])
        if e['property'] not in plan[e['regress_patch']]: plan[e['regress_patch']].append(e['property'])
for p,ids in sorted(plan.items()): print(p,' '.join(ids))
PY
while read patch ids; do
  out=$(tools/try_patch.sh /verif/$patch $tier $ids 2>&1 | grep -E "^RESULT|DOES NOT APPLY" | tr '\n' ' ')
  echo "$patch :: $out"
done < /dev/shm/regress_plan.txt
