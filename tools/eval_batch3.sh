#!/bin/sh
# round 3: tools/eval_batch2.sh <tier> CNN:x[:also,also] ...  (x in a,b is stored as e,f)
tier="$1"; shift
for spec in "$@"; do
  pid=$(echo $spec | cut -d: -f1); x=$(echo $spec | cut -d: -f2); also=$(echo $spec | cut -s -d: -f3)
  lab=$( [ "$x" = "a" ] && echo e || echo f )
  if [ -f /tmp/seed3-$pid/patch_$x.diff ]; then
    /verif/tools/eval_seed.py $pid $x --src /tmp/seed3-$pid --label $lab --tier $tier ${also:+--also $also} 2>&1 | grep -v conda | grep "^SEED" >> /dev/shm/seed_eval3.log
  else
    /verif/tools/eval_seed.py $pid $lab --tier $tier ${also:+--also $also} 2>&1 | grep -v conda | grep "^SEED" >> /dev/shm/seed_eval3.log
  fi
done
