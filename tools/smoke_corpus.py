#!/venv/bin/python
"""tools/smoke_corpus.py [tier ...]   (default: small quick thorough)

Every include/import case of vf/gen_ctx must either be buildable as an item of the shared corpus (vf/corpus.py,
used by C09 C10 C16 C30 C31 C32) or have no main template.  Builds every ctx item of the given corpus tiers once,
renders it (sync), and for the C05-only families compares the render with C05's reference.  Exit 1 on any item that
cannot be built.  Run after every change to vf/gen_ctx.py or vf/corpus.py.
"""
import collections
import sys

sys.path.insert(0, "/verif")
sys.path.insert(0, "/repo/src")
from vf import corpus, gen_ctx as C  # noqa: E402

bad = 0
for tier in sys.argv[1:] or ("small", "quick", "thorough"):
    n = collections.Counter()
    for case in C.cases(corpus.BOUNDS[tier]["ctx"]):
        try:
            src, main, data = C.to_templates(case)
        except Exception as e:  # noqa: BLE001
            print(f"NOT BUILDABLE {case!r}: {e!r}")
            bad += 1
            continue
        if main is None:
            n[case[0], "no-main"] += 1
            continue
        it = corpus.Item("ctx", case, data, src, main, {"ctx": C.tojson(case)})
        try:
            env, gm, d = it.make()
        except Exception as e:  # noqa: BLE001 - loading a data template may fail by design (missing names)
            n[case[0], "make-raises-" + type(e).__name__] += 1
            continue
        out = corpus.outcome(lambda: gm().render(**d))
        if case[0] in ("sel", "tset"):
            if isinstance(out, tuple) and out[1] == "TemplatesNotFound":
                out = ("exc", "TemplateNotFound")
            n[case[0], "equals-C05-reference" if out == C.expected(case) else "DIFFERS-from-C05-reference"] += 1
        else:
            n[case[0], "rendered" if isinstance(out, str) else out[1]] += 1
    print(tier, dict(sorted(n.items())))
sys.exit(1 if bad else 0)
