"""C26 — LRUCache is an LRU map sequentially (E2) and linearizable under threads (E3)."""
from __future__ import annotations

import collections
import copy
import itertools
import pickle

from vf import core, e2, e3

META = {
    "level": "model_checking",
    "engine": "E2+E3",
    "technique": "explicit-state BFS over the real LRUCache in lock-step with an OrderedDict model (fixpoint) + "
    "stateless preemption-bounded schedule enumeration (settrace scheduler) with brute-force linearizability",
    "text": "Sequential: every operation of the alphabet is executed on every reachable canonical state of the real "
    "LRUCache (capacities 1-3, 3 keys, 2 values) and compared with a reference LRU map; closure under the alphabet "
    "makes this a statement about histories of every length; a dedup-free enumeration of all short histories "
    "cross-checks the state merging.  Concurrent: all schedules of 2-3 threads up to a preemption bound with a "
    "scheduling point at every line (thorough: every opcode) inside LRUCache; each recorded history must be "
    "linearizable w.r.t. the reference and leave a structurally consistent cache.",
    "note": "Bounded: 3 keys/2 values/capacity<=3; threads<=3, ops per thread<=2(3), preemptions<=2(3); GIL sequential "
    "consistency; scheduling points are line (opcode) boundaries inside LRUCache methods and lock acquisitions.",
    "design_ref": "DESIGN.md §4 C26, §3 E2/E3",
}

KEYS = ("a", "b", "c")
VALS = (1, 2)


class RefLRU:
    def __init__(self, cap):
        self.cap = cap
        self.od = collections.OrderedDict()  # least recent first

    def clone(self):
        r = RefLRU(self.cap)
        r.od = collections.OrderedDict(self.od)
        return r

    def getitem(self, k):
        v = self.od[k]
        self.od.move_to_end(k)
        return v

    def set(self, k, v):
        if k in self.od:
            self.od.move_to_end(k)
        elif len(self.od) == self.cap:
            self.od.popitem(last=False)
        self.od[k] = v

    def abs(self):
        return (self.cap, tuple(self.od.keys()), tuple(sorted(self.od.items())))


def canon_impl(c):
    return (c.capacity, tuple(c._queue), tuple(sorted(c._mapping.items())))


def seq_ops():
    ops = []
    for k in KEYS:
        ops += [("get", k), ("getd", k), ("getitem", k), ("del", k), ("contains", k)]
        for v in VALS:
            ops += [("set", k, v), ("setdefault", k, v)]
    ops += [("setdefault0", "a"), ("len",), ("clear",), ("copy",), ("copy.copy",), ("keys",), ("values",), ("items",),
            ("iter",), ("reversed",), ("deepcopy",), ("repr",)]
    ops += [("pickle", p) for p in range(pickle.HIGHEST_PROTOCOL + 1)]
    return ops


def _exc(f):
    try:
        return f()
    except Exception as e:  # noqa: BLE001
        return ("exc", type(e).__name__)


def apply_impl(box, op):
    c = box[0]
    kind = op[0]
    if kind == "get":
        return _exc(lambda: c.get(op[1]))
    if kind == "getd":
        return _exc(lambda: c.get(op[1], "D"))
    if kind == "getitem":
        return _exc(lambda: c[op[1]])
    if kind == "del":
        def f():
            del c[op[1]]
        return _exc(f)
    if kind == "contains":
        return _exc(lambda: op[1] in c)
    if kind == "set":
        def f():
            c[op[1]] = op[2]
        return _exc(f)
    if kind == "setdefault":
        return _exc(lambda: c.setdefault(op[1], op[2]))
    if kind == "setdefault0":
        return _exc(lambda: c.setdefault(op[1]))
    if kind == "len":
        return _exc(lambda: len(c))
    if kind == "clear":
        return _exc(c.clear)
    if kind == "keys":
        return _exc(lambda: list(c.keys()))
    if kind == "values":
        return _exc(lambda: list(c.values()))
    if kind == "items":
        return _exc(lambda: list(c.items()))
    if kind == "iter":
        return _exc(lambda: list(iter(c)))
    if kind == "reversed":
        return _exc(lambda: list(reversed(c)))
    if kind == "repr":
        return _exc(lambda: repr(c))
    if kind in ("copy", "copy.copy", "deepcopy", "pickle"):
        def f():
            if kind == "copy":
                n = c.copy()
            elif kind == "copy.copy":
                n = copy.copy(c)
            elif kind == "deepcopy":
                n = copy.deepcopy(c)
            else:
                n = pickle.loads(pickle.dumps(c, op[1]))
            before = canon_impl(c)
            # independence: clearing a second copy must not touch the original
            probe = c.copy() if kind != "pickle" else pickle.loads(pickle.dumps(c, op[1]))
            probe["zz"] = 9
            probe.clear()
            indep = canon_impl(c) == before and n is not c and n._mapping is not c._mapping and n._queue is not c._queue
            box[0] = n
            return (type(n).__name__, n.capacity, list(n.items()), indep)
        return _exc(f)
    raise AssertionError(op)


def apply_model(m, op):
    kind = op[0]
    od = m.od
    if kind in ("get", "getd"):
        d = None if kind == "get" else "D"
        if op[1] in od:
            return m.getitem(op[1])
        return d
    if kind == "getitem":
        return _exc(lambda: m.getitem(op[1])) if op[1] in od else ("exc", "KeyError")
    if kind == "del":
        if op[1] in od:
            del od[op[1]]
            return None
        return ("exc", "KeyError")
    if kind == "contains":
        return op[1] in od
    if kind == "set":
        m.set(op[1], op[2])
        return None
    if kind in ("setdefault", "setdefault0"):
        d = op[2] if kind == "setdefault" else None
        if op[1] in od:
            return m.getitem(op[1])
        m.set(op[1], d)
        return d
    if kind == "len":
        return len(od)
    if kind == "clear":
        od.clear()
        return None
    mru = list(reversed(od.keys()))
    if kind in ("keys", "iter"):
        return mru
    if kind == "values":
        return [od[k] for k in mru]
    if kind == "items":
        return [(k, od[k]) for k in mru]
    if kind == "reversed":
        return list(od.keys())
    if kind == "repr":
        return None  # compared loosely below
    if kind in ("copy", "copy.copy", "deepcopy", "pickle"):
        return ("LRUCache", m.cap, [(k, od[k]) for k in mru], True)
    raise AssertionError(op)


def make_system(cap):
    from jinja2.utils import LRUCache

    def system():
        return {"box": [LRUCache(cap)], "m": RefLRU(cap)}

    return system


def step(s, op):
    i = apply_impl(s["box"], op)
    m = apply_model(s["m"], op)
    if op[0] == "repr":
        # repr is "<LRUCache {mapping!r}>": compare content as a set of items, order is dict order
        ok = isinstance(i, str) and i.startswith("<LRUCache {") and all(repr(k) in i for k in s["m"].od)
        return (ok, True)
    return (i, m)


def seq_shard(cap):
    p = core.Part()
    ops = seq_ops()
    res = e2.explore(make_system(cap), ops, step, lambda s: canon_impl(s["box"][0]), lambda s: s["m"].abs(),
                     merge_reps=2)
    p.evals += res.transitions
    p.count("states", res.states)
    p.count("transitions", res.transitions)
    p.count("merges_validated", res.merges_validated)
    p.counters["max_depth_cap%d" % cap] = res.max_depth
    p.counters["fixpoint_cap%d" % cap] = res.fixpoint
    for kd in res.obs_kinds:
        p.sig(("seq",) + kd)
    for h in res.sample_histories[:2]:
        p.sample({"kind": "sequential history reaching a new state", "capacity": cap, "history": h}, cap=2)
    for kind, hist, op, a, b in res.violations:
        p.violation(f"C26/seq/{kind}/{op[0] if op else 'init'}", {
            "msg": f"capacity={cap} history={list(hist)} op={op}: impl {a!r} != model {b!r}",
            "capacity": cap, "history": [list(o) for o in hist], "op": list(op) if op else None,
            "impl": repr(a), "model": repr(b),
            "script": _seq_script(cap, list(hist) + ([op] if op else [])),
        })
    return p


def _seq_script(cap, hist):
    return (
        "from checks import c26\n"
        "from jinja2.utils import LRUCache\n"
        f"cap, hist = {cap!r}, {hist!r}\n"
        "box, m = [LRUCache(cap)], c26.RefLRU(cap)\n"
        "for op in hist:\n"
        "    op = tuple(op)\n"
        "    print(op, 'impl:', c26.apply_impl(box, op), 'model:', c26.apply_model(m, op))\n"
        "print('impl state ', c26.canon_impl(box[0]))\n"
        "print('model state', m.abs())\n"
    )


FLAT_OPS = [("getitem", "a"), ("get", "b"), ("get", "c"), ("set", "a", 1), ("set", "b", 2), ("set", "c", 1),
            ("set", "a", 2), ("del", "a"), ("del", "b"), ("setdefault", "c", 2), ("contains", "a"), ("clear",),
            ("items",), ("copy",)]


def flat_shard(arg):
    """dedup-free enumeration of all histories (cross-check of merging)."""
    cap, first, depth = arg
    p = core.Part()
    system = make_system(cap)

    def rec(hist):
        s = system()
        ok = True
        for o in hist:
            i, m = step(s, o)
            if i != m:
                ok = False
        p.evals += 1
        if canon_impl(s["box"][0]) != s["m"].abs():
            ok = False
        if not ok:
            p.violation("C26/flat", {"msg": f"cap={cap} history={hist}", "script": _seq_script(cap, list(hist))})
        if len(hist) < depth:
            for o in FLAT_OPS:
                rec(hist + (o,))

    rec((first,))
    p.count("flat_histories", p.evals)
    return p


# ---------------------------------------------------------------- concurrent

CONC_OPS = [("get", "a"), ("get", "c"), ("getitem", "a"), ("set", "a", 2), ("set", "c", 2), ("del", "a"),
            ("contains", "a"), ("contains", "c"), ("clear",), ("getitem", "b")]


def conc_init():
    from jinja2.utils import LRUCache

    c = LRUCache(2)
    c["a"] = 1
    c["b"] = 1
    return c


def _mk_op(cache, op):
    box = [cache]
    return lambda: apply_impl(box, op)


def model_init(prev):
    if prev is None:
        m = RefLRU(2)
        m.set("a", 1)
        m.set("b", 1)
        return m
    return prev.clone()


def run_harness(progs, bound, opcode, p: core.Part, max_schedules=None):
    import jinja2.utils as ju

    utils_file = ju.__file__

    def want(frame):
        co = frame.f_code
        return co.co_filename == utils_file and co.co_qualname.startswith("LRUCache.")

    sched = e3.Scheduler(want, opcode_want=(want if opcode else None))
    ju.Lock = e3.CoopLock
    outcomes = set()

    def make_run(prefix):
        cache = conc_init()
        if not isinstance(cache._wlock, e3.CoopLock):
            raise core.HarnessError("LRUCache did not pick up the cooperative lock")
        x = sched.run([[_mk_op(cache, op) for op in prog] for prog in progs], prefix)
        x.cache = cache
        return x

    first = [True]

    def on_execution(x):
        p.evals += 1
        if first[0]:
            # determinism: the default schedule replayed gives an identical trace
            first[0] = False
            y = make_run(tuple(x.choices))
            if y.trace != x.trace or [h[4] for h in y.history] != [h[4] for h in x.history]:
                raise core.HarnessError(f"nondeterministic replay for {progs}")
        hist = [(tid, i, c, r, res, progs[tid][i]) for (tid, i, c, r, res) in x.history]
        final = canon_impl(x.cache)
        key = (tuple(sorted((h[0], h[1], repr(h[4])) for h in hist)), final)
        if key in outcomes and not x.deadlock:
            return
        outcomes.add(key)
        bad = None
        if x.deadlock:
            bad = "deadlock"
        else:
            cap, q, mp = final
            if len(q) != len(mp) or set(q) != {k for k, _ in mp} or len(set(q)) != len(q) or len(q) > cap:
                bad = "inconsistent"
            elif any(isinstance(h[4], tuple) and h[4][:1] == ("exc",) and h[4][1] != "KeyError" for h in hist):
                bad = "raises"
            elif not e3.linearizable(hist, model_init, apply_model, snapshot=lambda m: m.abs(), final=final):
                bad = "nonlinearizable"
        if bad:
            opnames = sorted({h[5][0] for h in hist})
            sig = f"C26/conc/{bad}/" + "+".join(opnames)
            p.violation(sig, {
                "msg": f"{bad}: programs={progs} schedule={list(x.choices)} history="
                       f"{[(h[0], h[5], h[4], h[2], h[3]) for h in hist]} final={final}",
                "programs": [[list(o) for o in pr] for pr in progs], "schedule": list(x.choices),
                "opcode": opcode,
                "script": "from checks import c26\nc26.replay_conc(%r, %r, %r)\n" % (progs, list(x.choices), opcode),
            })

    if opcode:
        # the interpreter instruments a code object for opcode events lazily: one discarded execution so that
        # the first recorded trace and its replay see the same instrumentation state
        make_run(())
    try:
        n, capped = e3.explore(make_run, bound, on_execution, max_schedules=max_schedules)
    finally:
        sched.close()  # the scheduler's parked worker threads
    for k in outcomes:
        p.sig(("conc", progs, k))
    p.count("schedules", n)
    p.count("harnesses", 1)
    p.count("distinct_concurrent_outcomes", len(outcomes))
    if capped:
        p.count("schedule_caps_hit", 1)
    if len(p.samples) < 1:
        p.sample({"kind": "concurrent harness", "programs": [[list(o) for o in pr] for pr in progs],
                  "schedules_explored": n, "preemption_bound": bound, "distinct_outcomes": len(outcomes)}, cap=1)
    return n


def replay_conc(progs, schedule, opcode):
    core.import_all_jinja()
    p = core.Part()
    import jinja2.utils as ju

    ju.Lock = e3.CoopLock
    utils_file = ju.__file__

    def want(frame):
        co = frame.f_code
        return co.co_filename == utils_file and co.co_qualname.startswith("LRUCache.")

    sched = e3.Scheduler(want, opcode_want=(want if opcode else None))
    cache = conc_init()
    x = sched.run([[_mk_op(cache, tuple(op)) for op in prog] for prog in progs], tuple(schedule))
    for tid, where in x.trace:
        print("T%d" % tid, where)
    for h in sorted(x.history, key=lambda h: h[2]):
        print("T%d op%d call@%d ret@%d -> %r   %r" % (h[0], h[1], h[2], h[3], h[4], progs[h[0]][h[1]]))
    print("final", canon_impl(cache))


def conc_shard(arg):
    progs_list, bound, opcode, cap = arg
    core.import_all_jinja()
    p = core.Part()
    for progs in progs_list:
        run_harness(progs, bound, opcode, p, max_schedules=cap)
    return p


def harnesses(nthreads, sizes):
    """all multisets of per-thread programs (thread symmetry reduced)."""
    progs = []
    for n in sizes:
        progs += list(itertools.product(CONC_OPS, repeat=n))
    return list(itertools.combinations_with_replacement(progs, nthreads))


def chunks(xs, n):
    k = max(1, (len(xs) + n - 1) // n)
    return [xs[i:i + k] for i in range(0, len(xs), k)]


def run(ctx: core.Ctx):
    core.import_all_jinja()
    ctx.rule = ("sequential: BFS over canonical (capacity, queue order, mapping) states of the real LRUCache, every op "
                "of a 40+-operation alphabet on every state, compared with an OrderedDict model; concurrent: every "
                "schedule within the preemption bound of every 2-3-thread harness over 10 operations on colliding keys of a "
                "full cache; distinct = distinct (operation, result kind) pairs plus distinct (harness, results, final state) outcomes")
    ctx.assumptions += [
        "GIL sequential consistency; scheduling points at line boundaries (thorough: opcode boundaries) inside LRUCache methods and at lock acquisition",
        "jinja2.utils.Lock rebound to a cooperative lock before LRUCache construction",
        "keys are 3 short strings, values 2 ints; capacities 1..3",
    ]
    # sequential
    ctx.pmap(seq_shard, [1, 2, 3])
    depth = 4 if ctx.quick else 6
    ctx.pmap(flat_shard, [(cap, f, depth) for cap in (1, 2, 3) for f in FLAT_OPS])
    # concurrent
    if ctx.quick:
        plan = [(harnesses(2, (1,)), 2, False, None),
                (_asym(1, 2), 2, False, None),
                (harnesses(3, (1,)), 1, False, None)]
    else:
        plan = [(harnesses(2, (1, 2)), 2, False, None),
                (harnesses(2, (1,)), 3, True, 4000),
                (_asym(1, 2), 2, True, 4000),
                (harnesses(3, (1,)), 2, False, None),
                (_asym(1, 3), 2, False, None)]
    shards = []
    for hs, bound, opcode, cap in plan:
        shards += [(c, bound, opcode, cap) for c in chunks(hs, 64)]
        ctx.counters.setdefault("preemption_bounds", []).append(
            {"harnesses": len(hs), "bound": bound, "opcode_granularity": opcode, "schedule_cap_per_harness": cap})
    ctx.pmap(conc_shard, shards, pin=True)
    if ctx.counters.get("schedule_caps_hit"):
        ctx.cap_hit(f"{ctx.counters['schedule_caps_hit']} opcode-granularity harnesses stopped at their per-harness schedule cap")
    ctx.cov["states"] = ctx.counters.get("states", 0)
    ctx.cov["transitions"] = ctx.counters.get("transitions", 0) + ctx.counters.get("schedules", 0)
    ctx.cov["traces_validated_against_impl"] = ctx.counters.get("transitions", 0) + ctx.counters.get("schedules", 0) + ctx.counters.get("flat_histories", 0)
    ctx.cov["sequential_transitions"] = ctx.counters.get("transitions", 0)
    ctx.cov["schedules"] = ctx.counters.get("schedules", 0)


def _asym(n1, n2):
    a = list(itertools.product(CONC_OPS, repeat=n1))
    b = list(itertools.product(CONC_OPS, repeat=n2))
    return [(x, y) for x in a for y in b]
