"""C14 — template literals denote the same values as Python literals (R-lit = Python's own literal evaluation)."""
from __future__ import annotations

import ast
import itertools
import math
import re
import struct
import sys
import unicodedata
import warnings

from vf import core

META = {
    "level": "exploration",
    "engine": "E1",
    "technique": "bounded-exhaustive enumeration of number spellings (all strings over a 20/26-character numeric alphabet "
    "up to a length bound, run through the real lexer) and of string values x literal spellings, against Python's own "
    "literal evaluation (ast.literal_eval) as reference",
    "text": "Numbers: every string of length <= 5 (thorough 6) over [0-9_.eExXoObB] and every string of length <= 4 "
    "(thorough 5) over that alphabet plus [+-afAF], and every string of length <= 4 (thorough 5) over four non-ASCII "
    "decimal digits plus [1.e_], is lexed; whenever the lexer yields exactly one integer/float token the "
    "token must span the spelling, Python must accept the spelling as a literal of the same type and the converted value "
    "must be bit-identical to Python's; a deterministic stride of those spellings is additionally evaluated through "
    "compile_expression.  Boundary integers in decimal/binary/octal/hex with every single-underscore placement and "
    "boundary floats (subnormal, max, overflow to inf, shortest-repr neighbours) in repr-style and alternative "
    "spellings are checked through the lexer, compile_expression, `{{ }}` rendering and a `{% set %}` round trip; the "
    "overflowing / non-finite ones also inside constant containers that get folded (|list, |first, |dictsort, subscripts).  "
    "Strings: every string of length <= 3 (thorough 4) over 15 code-point classes in every spelling family (repr-like with "
    "either quote, raw, raw line breaks, \\x / \\u / \\U / octal / \\N{} escapes, backslash-newline continuation at every "
    "position with LF/CRLF/CR, adjacent literals split at every position) "
    "must evaluate to exactly that Python string under two (thorough three) newline_sequence settings.",
    "note": "Small scope only: numeric spellings up to 5/6 characters, string values up to 3/4 code points from 15 classes; "
    "integer literals beyond sys.get_int_max_str_digits() and Python's deprecated 'invalid escape sequence' spellings "
    "(backslash + non-escape character) are out of scope.  Raw line breaks inside a literal are expected to be normalised "
    "to newline_sequence (calibrated from the tree).",
    "design_ref": "DESIGN.md §4 C14, §3 R-lit",
}

NUM_ALPHA = "0123456789_.eExXoObB"
EXT_ALPHA = NUM_ALPHA + "+-afAF"
# non-ASCII decimal digits (Devanagari 2 and 5, fullwidth 1, Arabic-Indic 3) mixed with the ASCII number characters:
# int()/float() accept them, Python's literal grammar does not
UNI_ALPHA = "\u0968\u096b\uff11\u0663" + "1.e_"
_BASE_SET = frozenset(NUM_ALPHA)

_digits = re.compile(r"[0-9]+")


# ----------------------------------------------------------------------------- reference (R-lit)

def py_literal(s):
    """Python's value of the spelling, or None when Python rejects it / it is not a plain int or float."""
    try:
        with warnings.catch_warnings():
            warnings.simplefilter("error")
            v = ast.literal_eval(s)
    except (ValueError, SyntaxError, MemoryError, Warning):
        return None
    if type(v) is int or type(v) is float:
        return v
    return None


def same_number(a, b):
    if type(a) is not type(b):
        return False
    if type(a) is float:
        return struct.pack(">d", a) == struct.pack(">d", b)
    return a == b


def python_reads_as_number(s):
    """cheap predicate (informational counter only): is s a Python int/float literal?"""
    if s[0] in "+-":
        return False
    try:
        int(s, 0)
        return True
    except ValueError:
        pass
    low = s.lower()
    if "x" in low or "o" in low or "b" in low:
        return False
    if "." in s or "e" in low:
        try:
            float(s)
            return True
        except ValueError:
            return False
    return False


def skeleton(kind, s):
    return kind + ":" + _digits.sub("d", s)


# ----------------------------------------------------------------------------- jinja side

def lex_tokens(lexer, s, wrapped):
    from jinja2 import TemplateSyntaxError

    try:
        if wrapped:
            toks = [t for t in lexer.tokeniter("{{ " + s + " }}", None) if t[1] != "whitespace"]
            if len(toks) < 2 or toks[0][1] != "variable_begin" or toks[-1][1] != "variable_end":
                return ("other", toks)
            return ("ok", toks[1:-1])
        toks = [t for t in lexer.tokeniter(s, None, state="variable") if t[1] != "whitespace"]
        return ("ok", toks)
    except TemplateSyntaxError as e:
        return ("error", str(e))


def wrap_value(lexer, tok):
    return next(iter(lexer.wrap(iter([tok])))).value


def expr_value(env, s):
    try:
        return ("val", env.compile_expression(s, undefined_to_none=False)())
    except Exception as e:  # noqa: BLE001
        return ("exc", type(e).__name__, str(e)[:80])


def render_text(env, s):
    try:
        return ("val", env.from_string("{{ " + s + " }}").render())
    except Exception as e:  # noqa: BLE001
        return ("exc", type(e).__name__, str(e)[:80])


def set_roundtrip(env, s):
    """value of the literal after being stored in a variable (not constant-folded into output)."""
    box = []
    try:
        env.from_string("{% set v = " + s + " %}{{ probe(v) }}").render(probe=lambda v: box.append(v) or "")
    except Exception as e:  # noqa: BLE001
        return ("exc", type(e).__name__, str(e)[:80])
    return ("val", box[0]) if box else ("exc", "NoProbe", "")


SCRIPT_NUM = (
    "import ast, jinja2\n"
    "env = jinja2.Environment()\n"
    "s = %r\n"
    "print('tokens :', [t for t in env.lexer.tokeniter(s, None, state='variable')])\n"
    "try:\n    print('python :', repr(ast.literal_eval(s)))\nexcept Exception as e:\n    print('python rejects:', type(e).__name__, e)\n"
    "try:\n    print('wrap   :', [(t.type, t.value) for t in env.lexer.wrap(env.lexer.tokeniter(s, None, state='variable'))])\nexcept Exception as e:\n    print('wrap raises:', type(e).__name__, e)\n"
    "try:\n    print('expr   :', repr(env.compile_expression(s)()))\nexcept Exception as e:\n    print('expr raises:', type(e).__name__, e)\n"
    "try:\n    print('set    :', repr(env.from_string('{%% set v = ' + s + ' %%}{{ v }}').render()))\nexcept Exception as e:\n    print('set raises:', type(e).__name__, e)\n"
)


def _route_sig(route, kind, pv, r):
    """one signature per defect: every route on which a float literal that overflows to inf fails shares one."""
    if type(pv) is float and math.isinf(pv):
        return "C14/overflow-to-inf/" + (r[1] if r[0] == "exc" else "wrong-value")
    return f"C14/{route}/{kind}"


def check_number_spelling(p, env, s, wrapped, do_expr):
    """returns True when the lexer read s as exactly one number token."""
    lexer = env.lexer
    st, toks = lex_tokens(lexer, s, wrapped)
    if st != "ok" or len(toks) != 1 or toks[0][1] not in ("integer", "float"):
        return False
    tok = toks[0]
    kind = tok[1]
    p.sig(skeleton(kind, s))
    if tok[2] != s:
        p.violation("C14/num/token-text", {"msg": f"{s!r}: single {kind} token with text {tok[2]!r}",
                                            "script": SCRIPT_NUM % s})
        return True
    pv = py_literal(s)
    if pv is None:
        p.violation(f"C14/num/python-rejects/{kind}", {
            "msg": f"{s!r} is read as one {kind} token but Python does not accept it as an int/float literal",
            "script": SCRIPT_NUM % s})
        return True
    try:
        v = wrap_value(lexer, tok)
    except Exception as e:  # noqa: BLE001
        p.violation(f"C14/num/convert-raises/{kind}/{type(e).__name__}", {
            "msg": f"{s!r}: converting the {kind} token raised {type(e).__name__}: {e}", "script": SCRIPT_NUM % s})
        return True
    if not same_number(v, pv):
        p.violation(f"C14/num/value/{kind}", {
            "msg": f"{s!r}: lexer value {v!r} ({type(v).__name__}) != Python {pv!r} ({type(pv).__name__})",
            "script": SCRIPT_NUM % s})
    if do_expr:
        p.count("numbers_through_compile_expression")
        r = expr_value(env, s)
        if r[0] != "val" or not same_number(r[1], pv):
            p.violation(_route_sig("num/expr", kind, pv, r), {
                "msg": f"compile_expression({s!r})() -> {r[1:]!r}, Python value {pv!r}", "script": SCRIPT_NUM % s})
    return True


def num_shard(arg):
    alpha_name, prefix, maxlen, stride_from, stride = arg
    from jinja2 import Environment

    alpha = {"base": NUM_ALPHA, "ext": EXT_ALPHA, "uni": UNI_ALPHA}[alpha_name]
    wrapped = alpha_name == "base"
    p = core.Part()
    env = Environment()
    idx = 0
    lengths = [len(prefix)] if len(prefix) < 2 else range(2, maxlen + 1)
    for n in lengths:
        for tail in itertools.product(alpha, repeat=n - len(prefix)):
            s = prefix + "".join(tail)
            if alpha_name != "base" and _BASE_SET.issuperset(s):
                continue  # already covered by the base alphabet at a larger bound
            p.evals += 1
            if n >= stride_from:
                do_expr = idx % stride == 0
            else:
                do_expr = True
            # the index advances only on number spellings, so the stride thins the numbers evenly
            is_num = check_number_spelling(p, env, s, wrapped, do_expr)
            if is_num:
                idx += 1
                p.count("read_as_one_number")
                if len(p.samples) < 2 and n >= 3:
                    p.sample({"kind": "number spelling", "alphabet": alpha_name, "spelling": s,
                              "python": repr(py_literal(s))}, cap=2)
            elif python_reads_as_number(s):
                p.count("python_number_literals_not_one_jinja_token")
    return p


# ----------------------------------------------------------------------------- boundary numbers

INT_VALUES = [0, 1, 2, 7, 8, 9, 10, 15, 16, 255, 2**31 - 1, 2**31, 2**32, 2**63 - 1, 2**63, 2**64 - 1, 2**64,
              10**20, 10**40]


def underscore_placements(prefix, digits):
    """no underscore, every single legal placement, and all placements at once."""
    out = [prefix + digits]
    n = len(digits)
    gaps = list(range(1, n))
    for i in gaps:
        out.append(prefix + digits[:i] + "_" + digits[i:])
    if prefix:
        out.append(prefix + "_" + digits)
    if gaps:
        out.append(prefix + ("_" if prefix else "") + "_".join(digits))
    return out


def int_spellings(v):
    forms = [("", "%d" % v), ("0b", format(v, "b")), ("0B", format(v, "b")), ("0o", format(v, "o")),
             ("0O", format(v, "o")), ("0x", format(v, "x")), ("0X", format(v, "X")), ("0x", format(v, "X")),
             ("0X", format(v, "x"))]
    seen = set()
    for prefix, digits in forms:
        for s in underscore_placements(prefix, digits):
            if s not in seen:
                seen.add(s)
                yield s


def float_values():
    fi = sys.float_info
    seeds = [5e-324, fi.min, fi.max, 1e308, 0.1, 0.3, 1 / 3, 1.0, 1e15, 1e16, 1e22, 1e23, float(2**53), 123456.789,
             1e-7, 0.0001, 1e-5, 2.5, 1e100, 4.35, 0.5]
    out = []
    for f in seeds:
        for g in (f, math.nextafter(f, math.inf), math.nextafter(f, 0.0)):
            if not math.isinf(g) and g not in out:
                out.append(g)
    return out


def single_underscores(s):
    """every placement of one underscore between two ASCII digits of s."""
    for i in range(1, len(s)):
        if s[i - 1].isdigit() and s[i].isdigit():
            yield s[:i] + "_" + s[i:]


def float_spellings(f):
    r = repr(f)
    base = [r]
    if "e" in r:
        base.append(r.replace("e", "E"))
        if "e-" not in r:
            base.append(r.replace("e+", "e") if "e+" in r else r.replace("e", "e+"))
    base.append("%.17e" % f)
    base.append("%.25E" % f)
    if 1e-5 < abs(f) < 1e22:
        base.append("%.30f" % f)
    seen = set()
    for b in base:
        if "." not in b and "e" not in b.lower():
            continue
        for s in itertools.chain([b], single_underscores(b) if b == r else ()):
            if s not in seen:
                seen.add(s)
                yield s


EXTRA_FLOATS = ["1e309", "1E309", "1e400", "1_0e308", "2e308", "1.8e308", "1.7976931348623159e308", "0.0", "0e0",
                "0.0e-400", "1e-400", "2.4703282292062327e-324", "2.4703282292062328e-324", "4.9e-324", "00.5",
                "0_0.0_0", "1e0_1", "1e-0_1", "0e-0", "9007199254740993.0", "1e23", "8.41e21", "0.1e1", "12.5e-1"]


# overflowing / non-finite float literals and constant arithmetic inside constant containers that get folded
_INF = float("inf")
FOLD_ATOMS = [("1e400", _INF), ("-1e400", -_INF), ("1e309", _INF), ("1e308 * 10", _INF), ("-1e308 * 10", -_INF),
              ("1e308 * 10 - 1e308 * 10", _INF - _INF), ("1.7976931348623157e308", sys.float_info.max), ("1.5", 1.5)]
FOLD_SHAPES = [
    ("[%s]", lambda a: [a]),
    ("(%s,)", lambda a: (a,)),
    ("{'k': %s}", lambda a: {"k": a}),
    ("[%s]|list", lambda a: [a]),
    ("(%s, 1)|list", lambda a: [a, 1]),
    ("[%s]|first", lambda a: a),
    ("(%s,)|last", lambda a: a),
    ("[%s][0]", lambda a: a),
    ("(1, %s)[1]", lambda a: a),
    ("{'k': %s}['k']", lambda a: a),
    ("{'k': %s}.k", lambda a: a),
    ("{'k': %s}|dictsort", lambda a: [("k", a)]),
    ("{'k': [%s]}|dictsort", lambda a: [("k", [a])]),
    ("[[%s]]|first", lambda a: [a]),
    ("[[%s]]|first|first", lambda a: a),
    ("[(%s, 2)]|list", lambda a: [(a, 2)]),
    ("{%s: 1}|list", lambda a: [a]),
    ("[%s, 'a']|reverse|list", lambda a: ["a", a]),
    ("[%s]|length", lambda a: 1),
]


def same_value(a, b):
    """type-exact, bit-exact for floats (-0.0 included; any nan equals any nan), elementwise for containers."""
    if type(a) is not type(b):
        return False
    if type(a) in (list, tuple):
        return len(a) == len(b) and all(same_value(x, y) for x, y in zip(a, b))
    if type(a) is dict:
        return len(a) == len(b) and all(same_value(k1, k2) and same_value(a[k1], b[k2]) for k1, k2 in zip(a, b))
    if type(a) is float:
        return (a != a and b != b) or same_number(a, b)  # the sign bit of a nan carries no meaning
    return a == b


SCRIPT_FOLD = (
    "import jinja2\n"
    "env = jinja2.Environment()\n"
    "expr = %r\n"
    "for what, run in (('compile_expression', lambda: env.compile_expression(expr)()),\n"
    "                  ('{%% set %%} + output', lambda: env.from_string('{%% set v = ' + expr + ' %%}{{ v }}').render()),\n"
    "                  ('{{ }}', lambda: env.from_string('{{ ' + expr + ' }}').render())):\n"
    "    try:\n        print(what, '->', repr(run()))\n    except Exception as e:\n        print(what, 'raises', type(e).__name__, e)\n"
)


def fold_shard(atoms):
    from jinja2 import Environment

    p = core.Part()
    for sa, va in atoms:
        for fmt, build in FOLD_SHAPES:
            expr = fmt % sa
            want = build(va)
            env = Environment()
            for route, run in (("expr", lambda: expr_value(env, expr)), ("set", lambda: set_roundtrip(env, expr)),
                               ("render", lambda: render_text(env, expr))):
                p.evals += 1
                r = run()
                expected = str(want) if route == "render" else want
                ok = r[0] == "val" and (r[1] == expected if route == "render" else same_value(r[1], expected))
                p.sig(("fold", fmt, route, r[0] if r[0] == "val" else r[1], va != va or va in (_INF, -_INF)))
                if not ok:
                    kind = r[1] if r[0] == "exc" else "wrong-value"
                    nonfinite = va != va or va in (_INF, -_INF)
                    sig = f"C14/overflow-to-inf/{kind} (nested)" if nonfinite else f"C14/fold/{kind}"
                    p.violation(sig, {"msg": f"{route}: {expr!r} -> {r[1:]!r}, expected {expected!r}",
                                      "script": SCRIPT_FOLD % expr})
        p.sample({"kind": "folded constant container", "expression": FOLD_SHAPES[3][0] % sa,
                  "python": repr(FOLD_SHAPES[3][1](va))}, cap=1)
    return p


def boundary_shard(arg):
    kind, items = arg
    from jinja2 import Environment

    p = core.Part()
    for item in items:
        if kind == "int":
            spellings = [(s, item) for s in int_spellings(item)]
        elif kind == "float":
            spellings = [(s, item) for s in float_spellings(item)]
        else:
            spellings = [(item, None)]
        for s, expect in spellings:
            env = Environment()
            p.evals += 1
            pv = py_literal(s)
            if pv is None or (expect is not None and not same_number(pv, expect)):
                raise core.HarnessError(f"spelling generator: {s!r} -> Python {pv!r}, wanted {expect!r}")
            p.sample({"kind": "boundary " + kind, "spelling": s, "python": repr(pv)}, cap=1)
            if not check_number_spelling(p, env, s, False, True):
                p.violation(f"C14/boundary/not-one-number/{kind}", {
                    "msg": f"{s!r} (Python {pv!r}) is not read as a single number token", "script": SCRIPT_NUM % s})
                continue
            if not check_number_spelling(p, env, s, True, False):
                p.violation(f"C14/boundary/not-one-number-wrapped/{kind}", {
                    "msg": f"'{{{{ {s} }}}}' is not read as a single number token", "script": SCRIPT_NUM % s})
            cls = "overflow-to-inf" if (type(pv) is float and math.isinf(pv)) else kind
            p.sig(("boundary", cls, type(pv).__name__, pv == 0, "e" in s.lower(), "_" in s, s[:2].lower()))
            # rendered text, negation, and a round trip through a template variable
            r = render_text(env, s)
            if r != ("val", str(pv)):
                p.violation(_route_sig("boundary/render", kind, pv, r), {
                    "msg": f"'{{{{ {s} }}}}' renders {r[1:]!r}, expected {str(pv)!r}", "script": SCRIPT_NUM % s})
            r = expr_value(env, "-" + s)
            if r[0] != "val" or not same_number(r[1], -pv):
                p.violation(_route_sig("boundary/negated", kind, pv, r), {
                    "msg": f"compile_expression('-{s}')() -> {r[1:]!r}, expected {-pv!r}", "script": SCRIPT_NUM % ("-" + s)})
            r = set_roundtrip(env, s)
            if r[0] != "val" or not same_number(r[1], pv):
                p.violation(_route_sig("boundary/set", kind, pv, r), {
                    "msg": f"'{{% set v = {s} %}}': v -> {r[1:]!r}, expected {pv!r}", "script": SCRIPT_NUM % s})
    return p


# ----------------------------------------------------------------------------- strings

CLASSES = ["a", "'", '"', "\\", "\n", "\r", "\x00", "\x7f", "\xe9", "\u2028", "\U0001f600", "\ud800", "%", "{", "}"]
CLASS_NAMES = ["letter", "squote", "dquote", "backslash", "LF", "CR", "NUL", "DEL", "e-acute", "U+2028", "astral",
               "lone-surrogate", "percent", "lbrace", "rbrace"]
_ALIASES = {"\n": "LINE FEED", "\r": "CARRIAGE RETURN", "\x00": "NULL", "\x7f": "DELETE"}
_nl = re.compile(r"\r\n|\r|\n")
_NLNAME = {"\n": "LF", "\r\n": "CRLF", "\r": "CR"}


def _hexesc(ch, width):
    cp = ord(ch)
    if width == 2 and cp < 0x100:
        return "\\x%02x" % cp
    if width <= 4 and cp < 0x10000:
        return "\\u%04x" % cp
    return "\\U%08x" % cp


def sp_reprlike(s, q):
    out = []
    for ch in s:
        if ch == "\\":
            out.append("\\\\")
        elif ch == q:
            out.append("\\" + q)
        elif ch == "\n":
            out.append("\\n")
        elif ch == "\r":
            out.append("\\r")
        elif ch.isprintable():
            out.append(ch)
        else:
            out.append(_hexesc(ch, 2))
    return q + "".join(out) + q


def sp_raw(s, q, raw_newlines):
    out = []
    for ch in s:
        if ch == "\\":
            out.append("\\\\")
        elif ch == q:
            out.append("\\" + q)
        elif ch == "\n" and not raw_newlines:
            out.append("\\n")
        elif ch == "\r" and not raw_newlines:
            out.append("\\r")
        else:
            out.append(ch)
    return q + "".join(out) + q


def sp_escaped(s, q, style):
    out = []
    for ch in s:
        cp = ord(ch)
        if style == "x":
            out.append(_hexesc(ch, 2))
        elif style == "u":
            out.append(_hexesc(ch, 4))
        elif style == "U":
            out.append(_hexesc(ch, 8))
        elif style == "oct3":
            out.append("\\%03o" % cp if cp < 0o1000 else _hexesc(ch, 4))
        elif style == "oct":
            out.append("\\%o" % cp if cp < 0o1000 else _hexesc(ch, 4))
        elif style == "N":
            name = _ALIASES.get(ch) or unicodedata.name(ch, None)
            out.append("\\N{%s}" % name if name else _hexesc(ch, 4))
        else:
            raise AssertionError(style)
    return q + "".join(out) + q


def string_spellings(s, thorough):
    """(family, spelling, expected-kind) for the Python string s; expected-kind 'exact' or 'normalised'."""
    for q in "'\"":
        yield ("repr", sp_reprlike(s, q), "exact")
        yield ("raw", sp_raw(s, q, False), "exact")
        if "\n" in s or "\r" in s:
            yield ("rawnl", sp_raw(s, q, True), "normalised")
    if s:
        for style in ("x", "u", "U", "oct3", "oct", "N"):
            yield ("esc-" + style, sp_escaped(s, "'", style), "exact")
        yield ("esc-x", sp_escaped(s, '"', "x"), "exact")
    seps = [" ", ""] + (["\n", " \t "] if thorough else [])
    n = len(s)
    # Python's backslash-newline continuation inside a literal ("abc\<LF>def" == "abcdef"), with each line-break form,
    # at every position, alone and followed by an adjacent literal
    for i in range(n + 1):
        for lb in ("\n", "\r\n", "\r"):
            for q in "'\"":
                other = '"' if q == "'" else "'"
                yield ("cont", sp_reprlike(s[:i], q)[:-1] + "\\" + lb + sp_reprlike(s[i:], q)[1:], "exact")
                yield ("cont-concat", sp_reprlike(s[:i], q)[:-1] + "\\" + lb + q + " " + sp_reprlike(s[i:], other), "exact")
    for i in range(n + 1):
        for q1 in "'\"":
            for q2 in "'\"":
                for sep in seps:
                    yield ("concat2", sp_reprlike(s[:i], q1) + sep + sp_reprlike(s[i:], q2), "exact")
    if n >= 2:
        for i in range(n + 1):
            for j in range(i, n + 1):
                yield ("concat3", sp_reprlike(s[:i], "'") + " " + sp_raw(s[i:j], '"', False) + sp_escaped(s[j:], "'", "u"),
                       "exact")


SCRIPT_STR = (
    "import jinja2\n"
    "env = jinja2.Environment(newline_sequence=%r)\n"
    "spelling = %r\n"
    "expected = %r\n"
    "try:\n    got = env.compile_expression(spelling)()\nexcept Exception as e:\n    got = e\n"
    "print('spelling:', ascii(spelling))\nprint('expected:', ascii(expected))\nprint('got     :', ascii(got))\n"
    "try:\n    print('rendered:', ascii(env.from_string('{{ ' + spelling + ' }}').render()))\nexcept Exception as e:\n    print('render raises', ascii(e))\n"
)


def string_shard(arg):
    prefix, maxlen, nl_seqs, thorough, exact_only = arg
    from jinja2 import Environment

    p = core.Part()
    if exact_only:
        values = [prefix]
    else:
        values = []
        for n in range(0, maxlen - len(prefix) + 1):
            for rest in itertools.product(CLASSES, repeat=n):
                values.append(prefix + "".join(rest))
    for s in values:
        names = [CLASS_NAMES[CLASSES.index(c)] for c in s]
        # the longest values of the thorough tier get the quick tier's spelling set and two newline sequences
        full = len(s) <= 3
        for nlseq in (nl_seqs if full else nl_seqs[:2]):
            env = Environment(newline_sequence=nlseq)
            for family, sp, kind in string_spellings(s, thorough and full):
                if nlseq != "\n" and family in ("concat2", "concat3", "cont", "cont-concat"):
                    # joining adjacent literals is checked under the default newline_sequence only; so is the
                    # backslash-newline continuation (see ctx.assumptions)
                    continue
                p.evals += 1
                expected = s if kind == "exact" else _nl.sub(nlseq, s)  # CALIBRATED: raw line breaks -> newline_sequence
                # cross-check the spelling generator against Python itself wherever Python can read the spelling
                if kind == "exact":
                    try:
                        with warnings.catch_warnings():
                            warnings.simplefilter("error")
                            pyv = ast.literal_eval(sp)
                    except (SyntaxError, ValueError, UnicodeError, Warning):
                        p.count("spellings_python_cannot_read")
                    else:
                        p.count("spellings_cross_checked_with_python")
                        if pyv != s:
                            raise core.HarnessError(f"spelling generator: {sp!r} is {pyv!r} in Python, wanted {s!r}")
                r = expr_value(env, sp)
                ok = r[0] == "val" and type(r[1]) is str and r[1] == expected
                p.sig((family, nlseq, tuple(sorted(set(names))), r[0]))
                if not ok:
                    p.violation(f"C14/str/{family}/nl={_NLNAME[nlseq]}", {
                        "msg": f"newline_sequence={nlseq!r} spelling {ascii(sp)}: got {ascii(r[1:])}, expected {ascii(expected)}",
                        "script": SCRIPT_STR % (nlseq, sp, expected)})
                    continue
                if family not in ("concat2", "concat3", "cont-concat") or len(s) <= 1:
                    r2 = render_text(env, sp)
                    if r2 != ("val", expected):
                        p.violation(f"C14/str-render/{family}/nl={_NLNAME[nlseq]}", {
                            "msg": f"newline_sequence={nlseq!r} '{{{{ {ascii(sp)} }}}}' rendered {ascii(r2[1:])}, expected {ascii(expected)}",
                            "script": SCRIPT_STR % (nlseq, sp, expected)})
        if len(s) == maxlen:
            p.sample({"kind": "string", "classes": names, "spellings": [ascii(sp) for _, sp, _ in
                                                                       itertools.islice(string_spellings(s, False), 6)]}, cap=1)
    return p


# ----------------------------------------------------------------------------- driver

def chunks(xs, n):
    k = max(1, (len(xs) + n - 1) // n)
    return [xs[i:i + k] for i in range(0, len(xs), k)]


def run(ctx: core.Ctx):
    core.import_all_jinja()
    quick = ctx.quick
    base_len = 5 if quick else 6
    ext_len = 4 if quick else 5
    str_len = 3 if quick else 4
    nl_seqs = ["\n", "\r\n"] if quick else ["\n", "\r\n", "\r"]
    # compile_expression on every number spelling shorter than stride_from, every stride-th one from there on
    base_stride = (5, 4) if quick else (6, 16)
    ext_stride = (9, 1)
    ctx.rule = ("numbers: every string over the alphabet up to the bound goes through the real lexer; non-trivial = read as "
                "exactly one integer/float token, distinct = token kind + spelling with digit runs collapsed; strings: every "
                "value over 15 code-point classes x spelling family x newline_sequence, distinct = (family, newline_sequence, "
                "set of classes, outcome kind)")
    ctx.assumptions += [
        "reference = ast.literal_eval of the same spelling with warnings as errors (Python %d.%d)" % sys.version_info[:2],
        "CALIBRATED: a raw line break (\\n, \\r\\n, \\r) inside a string literal becomes newline_sequence; escaped \\n/\\r are exact",
        "spellings Python accepts but the lexer splits into several tokens (1., .5, 1.e5) are only counted "
        "(python_number_literals_not_one_jinja_token), the property does not require them to be numbers",
        "compile_expression is applied to every one-number spelling below length %d and to every %d-th one from there on "
        "(deterministic stride, counted from the start of each two-character-prefix shard); the lexer value is checked for all"
        % base_stride,
        "every one-number spelling over the extended alphabet goes through compile_expression (no stride)",
        "adjacent-literal spellings are evaluated under the default newline_sequence only; values of length 4 (thorough) "
        "get the quick tier's separator set and two newline sequences",
        "out of scope: backslash-newline continuation under a non-default newline_sequence.  It is checked (with LF, CRLF "
        "and CR in the source) under the default newline_sequence, for which the property's 'exactly that value' is "
        "stated; under a non-default one the raw line break is first rewritten to newline_sequence "
        "(CALIBRATED rule above), so 'a\\<LF>b' evaluates to 'a' + backslash + newline_sequence + 'b' there",
        "folded-container family: 8 float atoms (1e400, -1e400, 1e309, 1e308*10, -1e308*10, nan by inf-inf, float max, 1.5) "
        "inside 19 constant list/tuple/dict expressions (|list, |first, |last, |dictsort, |reverse, subscripts, attribute "
        "lookup, dict key) through compile_expression, {% set %} + probe and {{ }} output; reference value built in Python",
        "backslash followed by a character that is not a Python escape (deprecated 'invalid escape sequence') is not enumerated",
        "integer literals longer than sys.get_int_max_str_digits() are out of scope",
    ]
    # shards: the one-character spellings, then every two-character prefix with all its extensions
    shards = [("base", c, base_len) + base_stride for c in NUM_ALPHA]
    shards += [("base", a + b, base_len) + base_stride for a in NUM_ALPHA for b in NUM_ALPHA]
    shards += [("ext", c, ext_len) + ext_stride for c in EXT_ALPHA]
    shards += [("ext", a + b, ext_len) + ext_stride for a in EXT_ALPHA for b in EXT_ALPHA]
    uni_len = 4 if quick else 5
    shards += [("uni", c, uni_len) + ext_stride for c in UNI_ALPHA]
    shards += [("uni", a + b, uni_len) + ext_stride for a in UNI_ALPHA for b in UNI_ALPHA]
    ctx.pmap(num_shard, shards)
    n_numbers = ctx.counters.get("read_as_one_number", 0)
    if n_numbers < 1000:
        raise core.HarnessError("number alphabet did not bite: %d one-number spellings" % n_numbers)

    bshards = [("int", [v]) for v in INT_VALUES]
    bshards += [("float", c) for c in chunks(float_values(), 16)]
    bshards += [("floatspelling", c) for c in chunks(EXTRA_FLOATS, 4)]
    ctx.pmap(boundary_shard, bshards)
    ctx.pmap(fold_shard, [[a] for a in FOLD_ATOMS])

    if quick:
        sshards = [("", str_len, nl_seqs, False, True)] + [(c, str_len, nl_seqs, False, False) for c in CLASSES]
    else:
        sshards = [("", str_len, nl_seqs, True, True)] + [(c, str_len, nl_seqs, True, True) for c in CLASSES]
        sshards += [(a + b, str_len, nl_seqs, True, False) for a in CLASSES for b in CLASSES]
    ctx.pmap(string_shard, sshards)
    # the replay kept per signature is the shortest failing case
    ctx.viol.sort(key=lambda sd: (len(sd[1].get("msg", "")), sd[1].get("msg", "")))
    ctx.cov["bounds"] = {
        "number_alphabet": NUM_ALPHA, "number_max_len": base_len,
        "extended_alphabet": EXT_ALPHA, "extended_max_len": ext_len,
        "non_ascii_digit_alphabet": ascii(UNI_ALPHA), "non_ascii_digit_max_len": uni_len,
        "string_classes": CLASS_NAMES, "string_max_len": str_len, "newline_sequences": nl_seqs,
        "boundary_ints": [str(v) for v in INT_VALUES], "boundary_floats": len(float_values()) + len(EXTRA_FLOATS),
    }
