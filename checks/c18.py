"""C18 — a sandboxed template never calls a callable the sandbox deems unsafe.

Space: MARKING (how the callable is unsafe) x REFERENCE (how the template gets
hold of it) x SLOT (where the call expression stands) x environment class x
sync/async, full product.
"""
from __future__ import annotations

import functools

from vf import core, sbx

META = {
    "level": "exploration",
    "engine": "E1",
    "technique": "bounded-exhaustive enumeration of the full product marking x reference-form x call-slot x environment "
    "(class, sync/async) with recording callables; oracle: recorder stays empty and SecurityError is raised; every "
    "reference x slot pair is first shown to reach the call with an unmarked twin; taint walk over the compiled code "
    "requires every call of a template-controlled value to be an environment.call",
    "text": "Recording callables that are unsafe in ~20 ways (@unsafe / alters_data on functions, lambdas, bound, class and "
    "static methods, callable instances, classes, partials, pass_context functions, async functions and methods, or "
    "rejected by an overridden is_safe_callable by attribute, name or registry) are reached through ~30 reference forms "
    "(direct, attribute, dict/list item, attr filter, set/with alias, namespace, macro argument/default/kwargs/varargs, "
    "caller argument, used as caller, loop variables, conditional expressions, first/last/map, include, block) and called "
    "in ~35 slots (output, filter/test arguments, if/for/loop-filter/set/with, call blocks, macro defaults, include "
    "targets, trans variables, do, nested arguments, 5 argument shapes).  For every combination in SandboxedEnvironment, "
    "ImmutableSandboxedEnvironment and a subclass overriding is_safe_callable, sync and async: the callable never runs "
    "and SecurityError is raised.",
    "note": "Bounded: one unsafe call per template; a callable whose __call__ *method* is decorated while the instance "
    "itself carries no mark is observed but not judged (is_safe_callable(obj) is True for it).  Filters/tests that the "
    "application registers and that call their arguments are application code and out of scope.",
    "design_ref": "DESIGN.md §4 C18",
}

# ------------------------------------------------------------------ unsafe callables

CALLS: list = []


def _body(tag):
    def run(*a, **k):
        CALLS.append(tag)
        return "RAN"

    return run


def make_callable(marking: str):
    """-> (callable, extra env blocklist entries)"""
    from jinja2 import pass_context
    from jinja2.sandbox import unsafe

    run = _body(marking)
    if marking == "safe":
        def f(*a, **k):
            return run()
        return f
    if marking == "unsafe-func":
        @unsafe
        def f(*a, **k):
            return run()
        return f
    if marking == "alters-func":
        def f(*a, **k):
            return run()
        f.alters_data = True
        return f
    if marking == "unsafe-lambda":
        f = lambda *a, **k: run()  # noqa: E731
        f.unsafe_callable = True
        return f
    if marking in ("unsafe-method", "alters-method", "unsafe-classmethod", "alters-classmethod", "unsafe-staticmethod"):
        class K:
            @unsafe
            def um(self, *a, **k):
                return run()

            def am(self, *a, **k):
                return run()

            am.alters_data = True

            @classmethod
            @unsafe
            def ucm(cls, *a, **k):
                return run()

            def _acm(cls, *a, **k):
                return run()

            _acm.alters_data = True
            acm = classmethod(_acm)

            @staticmethod
            @unsafe
            def usm(*a, **k):
                return run()

            def __repr__(self):
                return "<K>"

        inst = K()
        return {"unsafe-method": inst.um, "alters-method": inst.am, "unsafe-classmethod": inst.ucm,
                "alters-classmethod": K.acm, "unsafe-staticmethod": inst.usm}[marking]
    if marking in ("unsafe-callable-obj", "alters-callable-obj", "alters-callable-cls-attr", "observed-call-method"):
        class C:
            if marking == "alters-callable-cls-attr":
                alters_data = True

            if marking == "observed-call-method":
                @unsafe
                def __call__(self, *a, **k):
                    return run()
            else:
                def __call__(self, *a, **k):
                    return run()

            def __repr__(self):
                return "<C>"

        c = C()
        if marking == "unsafe-callable-obj":
            c.unsafe_callable = True
        if marking == "alters-callable-obj":
            c.alters_data = True
        return c
    if marking in ("alters-class", "unsafe-class"):
        class D:
            def __init__(self, *a, **k):
                run()

            def __repr__(self):
                return "<D>"

            def __iter__(self):
                return iter(())

        if marking == "alters-class":
            D.alters_data = True
        else:
            D.unsafe_callable = True
        return D
    if marking == "unsafe-partial":
        f = functools.partial(lambda *a, **k: run())
        f.unsafe_callable = True
        return f
    if marking == "unsafe-passcontext":
        @pass_context
        @unsafe
        def f(ctx, *a, **k):
            return run()
        return f
    if marking == "alters-passcontext":
        @pass_context
        def f(ctx, *a, **k):
            return run()
        f.alters_data = True
        return f
    if marking == "unsafe-async-func":
        @unsafe
        async def f(*a, **k):
            return run()
        return f
    if marking == "alters-async-func":
        async def f(*a, **k):
            return run()
        f.alters_data = True
        return f
    if marking == "unsafe-async-method":
        class A:
            @unsafe
            async def um(self, *a, **k):
                return run()

            def __repr__(self):
                return "<A>"
        return A().um
    if marking == "custom-attr":
        def f(*a, **k):
            return run()
        f.blocked = True
        return f
    if marking == "custom-name":
        def danger(*a, **k):
            return run()
        return danger
    if marking == "custom-registry":
        def f(*a, **k):
            return run()
        return f
    if marking == "custom-async-attr":
        async def f(*a, **k):
            return run()
        f.blocked = True
        return f
    if marking == "custom-method-registry":
        class R:
            def m(self, *a, **k):
                return run()

            def __repr__(self):
                return "<R>"
        return R().m
    raise AssertionError(marking)


STD_MARKINGS = ["unsafe-func", "alters-func", "unsafe-lambda", "unsafe-method", "alters-method", "unsafe-classmethod",
                "alters-classmethod", "unsafe-staticmethod", "unsafe-callable-obj", "alters-callable-obj",
                "alters-callable-cls-attr", "alters-class", "unsafe-class", "unsafe-partial", "unsafe-passcontext",
                "alters-passcontext"]
ASYNC_MARKINGS = ["unsafe-async-func", "alters-async-func", "unsafe-async-method"]
CUSTOM_MARKINGS = ["custom-attr", "custom-name", "custom-registry", "custom-method-registry"]
CUSTOM_ASYNC_MARKINGS = ["custom-async-attr"]
OBSERVED = ["observed-call-method"]


class Holder:
    def __init__(self, f):
        self.f = f

    def __repr__(self):
        return "<holder>"


def env_class(name):
    from jinja2.sandbox import ImmutableSandboxedEnvironment, SandboxedEnvironment

    if name == "sandboxed":
        return SandboxedEnvironment
    if name == "immutable":
        return ImmutableSandboxedEnvironment

    class CustomEnv(SandboxedEnvironment):
        registry: list = []

        def is_safe_callable(self, obj):
            if getattr(obj, "blocked", False) or getattr(obj, "__name__", "") == "danger":
                return False
            if any(obj == r for r in self.registry):
                return False
            return super().is_safe_callable(obj)

    return CustomEnv


def make_env(cls_name, asy, autoescape=False, extra_templates=None):
    import jinja2

    env = env_class(cls_name)(
        enable_async=asy, autoescape=autoescape, cache_size=0,
        extensions=["jinja2.ext.do", "jinja2.ext.i18n"],
        loader=jinja2.DictLoader(dict(extra_templates or {}, RAN="included")),
    )
    env.install_null_translations()
    env.globals["ident"] = lambda *a, **k: "ID"
    if cls_name == "custom":
        env.registry = []
    return env


# ------------------------------------------------------------------ reference forms and slots

# reference form: S(callee_expr) -> slot text;   returns template or (template, {"name": included source})
REFS = [
    ("direct", lambda S: S("f")),
    ("attr", lambda S: S("o.f")),
    ("subscript-attr", lambda S: S('o["f"]')),
    ("dict-dot", lambda S: S("d.f")),
    ("dict-item", lambda S: S('d["f"]')),
    ("dict-get", lambda S: S('d.get("f")')),
    ("list-item", lambda S: S("l[0]")),
    ("attr-filter", lambda S: S('(o|attr("f"))')),
    ("set", lambda S: "{% set g = f %}" + S("g")),
    ("set-attr", lambda S: "{% set g = o.f %}" + S("g")),
    ("with", lambda S: "{% with g = f %}" + S("g") + "{% endwith %}"),
    ("namespace", lambda S: "{% set ns = namespace(g=f) %}" + S("ns.g")),
    ("namespace-set", lambda S: "{% set ns = namespace() %}{% set ns.g = f %}" + S("ns.g")),
    ("dict-fn", lambda S: S("dict(g=f).g")),
    ("literal-dict", lambda S: S('{"g": f}.g')),
    ("literal-list", lambda S: S("[f][0]")),
    ("macro-arg", lambda S: "{% macro m(g) %}" + S("g") + "{% endmacro %}{{ m(f) }}"),
    ("macro-default", lambda S: "{% macro m(g=f) %}" + S("g") + "{% endmacro %}{{ m() }}"),
    ("macro-kwargs", lambda S: "{% macro m() %}" + S("kwargs.g") + "{% endmacro %}{{ m(g=f) }}"),
    ("macro-varargs", lambda S: "{% macro m() %}" + S("varargs[0]") + "{% endmacro %}{{ m(f) }}"),
    ("macro-closure", lambda S: "{% macro m() %}" + S("f") + "{% endmacro %}{{ m() }}"),
    ("caller-arg", lambda S: "{% macro m() %}{{ caller(f) }}{% endmacro %}{% call(g) m() %}" + S("g") + "{% endcall %}"),
    ("as-caller", lambda S: "{% macro m() %}" + S("caller") + "{% endmacro %}{{ m(caller=f) }}"),
    ("in-call-block", lambda S: "{% macro m() %}{{ caller() }}{% endmacro %}{% call m() %}" + S("f") + "{% endcall %}"),
    ("loop-var", lambda S: "{% for g in [f] %}" + S("g") + "{% endfor %}"),
    ("loop-list", lambda S: "{% for g in l %}" + S("g") + "{% endfor %}"),
    ("loop-items", lambda S: "{% for k, g in d|items %}" + S("g") + "{% endfor %}"),
    ("loop-else", lambda S: "{% for g in [] %}{% else %}" + S("f") + "{% endfor %}"),
    ("condexpr", lambda S: S("(f if true else none)")),
    ("or", lambda S: S("(none or f)")),
    ("first", lambda S: S("(l|first)")),
    ("last", lambda S: S("(l|last)")),
    ("map-attr", lambda S: S('([o]|map(attribute="f")|first)')),
    ("default-filter", lambda S: S("(zz|default(f))")),
    ("block", lambda S: "{% block b %}" + S("f") + "{% endblock %}"),
    ("include", lambda S: ('{% include "inc" %}', {"inc": S("f")})),
    ("import-ctx", lambda S: ('{% import "inc" as lib with context %}{{ lib.m() }}',
                              {"inc": "{% macro m() %}" + S("f") + "{% endmacro %}"})),
    ("filter-block", lambda S: "{% filter upper %}" + S("f") + "{% endfilter %}"),
    ("autoescape-block", lambda S: "{% autoescape true %}" + S("f") + "{% endautoescape %}"),
]

# slot: (id, fn(call_expr) -> text);  call_expr is callee + args
SLOTS = [
    ("out", lambda c: "{{ %s }}" % c),
    ("out-filter", lambda c: "{{ %s|string }}" % c),
    ("filter-arg", lambda c: "{{ 1|default(%s) }}" % c),
    ("filter-arg-undef", lambda c: "{{ zz|default(%s) }}" % c),
    ("filter-kwarg", lambda c: "{{ [1]|join(d=%s) }}" % c),
    ("test-arg", lambda c: "{{ 1 is eq(%s) }}" % c),
    ("test-subject", lambda c: "{{ %s is none }}" % c),
    ("if", lambda c: "{%% if %s %%}x{%% endif %%}" % c),
    ("elif", lambda c: "{%% if false %%}{%% elif %s %%}x{%% endif %%}" % c),
    ("for-iter", lambda c: "{%% for i in %s %%}{%% endfor %%}" % c),
    ("for-filter", lambda c: "{%% for i in [1] if %s %%}x{%% endfor %%}" % c),
    ("for-body-cycle", lambda c: "{%% for i in [1] %%}{{ loop.cycle(%s) }}{%% endfor %%}" % c),
    ("set", lambda c: "{%% set v = %s %%}" % c),
    ("set-block", lambda c: "{%% set v %%}{{ %s }}{%% endset %%}" % c),
    ("with", lambda c: "{%% with v = %s %%}{%% endwith %%}" % c),
    ("call-block", lambda c: "{%% call %s %%}x{%% endcall %%}" % c),
    ("call-block-args", lambda c: "{%% call(a) %s %%}x{%% endcall %%}" % c),
    ("macro-default", lambda c: "{%% macro q(a=%s) %%}{{ a }}{%% endmacro %%}{{ q() }}" % c),
    ("macro-call-arg", lambda c: "{%% macro q(a) %%}{%% endmacro %%}{{ q(%s) }}" % c),
    ("nested-arg", lambda c: "{{ ident(%s) }}" % c),
    ("nested-kwarg", lambda c: "{{ ident(k=%s) }}" % c),
    ("list-literal", lambda c: "{{ [%s] }}" % c),
    ("dict-literal", lambda c: '{{ {"k": %s} }}' % c),
    ("concat", lambda c: '{{ %s ~ "x" }}' % c),
    ("add", lambda c: "{{ %s + 1 }}" % c),
    ("compare", lambda c: "{{ %s == 1 }}" % c),
    ("condexpr-value", lambda c: "{{ %s if true else 0 }}" % c),
    ("condexpr-test", lambda c: "{{ 0 if %s else 1 }}" % c),
    ("not", lambda c: "{{ not %s }}" % c),
    ("format-arg", lambda c: '{{ "%%s"|format(%s) }}' % c),
    ("str-format-arg", lambda c: '{{ "{}".format(%s) }}' % c),
    ("getattr-of-result", lambda c: "{{ %s.x }}" % c),
    ("getitem-of-result", lambda c: "{{ %s[0] }}" % c),
    ("call-of-result", lambda c: "{{ %s() }}" % c),
    ("slice-bound", lambda c: "{{ [1, 2][:%s] }}" % c),
    ("do", lambda c: "{%% do %s %%}" % c),
    ("include-target", lambda c: "{%% include %s ignore missing %%}" % c),
    ("autoescape-arg", lambda c: "{%% autoescape %s %%}{%% endautoescape %%}" % c),
    ("trans-var", lambda c: "{%% trans a=%s %%}x{{ a }}{%% endtrans %%}" % c),
]

ARG_SHAPES = ["()", "(1)", "(a=1)", "(*[1])", '(**{"a": 1})']


def build(ref_fn, slot_fn, args):
    t = ref_fn(lambda callee: slot_fn(callee + args))
    return t if isinstance(t, tuple) else (t, None)


def make_data(f):
    return {"f": f, "o": Holder(f), "d": {"f": f}, "l": [f]}


def run_case(cls_name, asy, src, extra, marking, compiled=None, autoescape=False):
    env = make_env(cls_name, asy, autoescape, extra)
    f = make_callable(marking)
    if cls_name == "custom" and marking in ("custom-registry", "custom-method-registry"):
        env.registry = [f]
    del CALLS[:]
    if compiled is None:
        compiled = sbx.compile_src(env, src)
    res = sbx.render_code(env, compiled, make_data(f))
    return res, list(CALLS)


def script_for(cls_name, asy, src, extra, marking, autoescape):
    return (
        "from checks import c18\n"
        f"res, calls = c18.run_case({cls_name!r}, {asy!r}, {src!r}, {extra!r}, {marking!r}, autoescape={autoescape!r})\n"
        f"print('template:', {src!r}, {extra!r})\n"
        "print('result  :', res)\n"
        "print('unsafe callable ran', len(calls), 'time(s)')\n"
        "# plain: env.from_string(src).render(f=f, o=Holder(f), d={'f': f}, l=[f]) with f = c18.make_callable(marking)\n"
    )


def family(marking):
    return marking.split("-")[0]


def shard(arg):
    cls_name, asy, autoescape, ref_ids, shapes_everywhere = arg
    core.import_all_jinja()
    p = core.Part()
    refs = dict(REFS)
    markings = list(STD_MARKINGS)
    if asy:
        markings += ASYNC_MARKINGS
    if cls_name == "custom":
        markings += CUSTOM_MARKINGS + (CUSTOM_ASYNC_MARKINGS if asy else [])
    for rid in ref_ids:
        for sid, sfn in SLOTS:
            shapes = ARG_SHAPES if (shapes_everywhere or sid == "out") else ARG_SHAPES[:1]
            for args in shapes:
                src, extra = build(refs[rid], sfn, args)
                comp = sbx.compile_src(make_env(cls_name, asy, autoescape, extra), src)
                if comp[0] != "code":
                    # `{% call (expr)() %}` parses the parenthesis as the call block's own parameter list:
                    # a parenthesised callee cannot stand in a call-block slot
                    if comp[1] == "TemplateSyntaxError" and sid.startswith("call-block") and "{% call (" in src + str(extra) \
                            or "{% call(a) (" in src + str(extra):
                        p.count("combinations_not_expressible")
                        continue
                    raise core.HarnessError(f"template does not compile: {src!r}: {comp}")
                # structural: calls of template values go through environment.call
                viol, st = sbx.structural(comp[2])
                p.count("struct_programs")
                p.count("struct_environment_call", st["environment.call"])
                for kind, code in viol:
                    if kind in ("call", "context.call"):
                        p.violation(f"C18/struct/{kind}/{sid}", {
                            "msg": f"generated code calls a template-controlled value outside environment.call: {code!r} "
                                   f"in program {src!r}",
                            "script": "from checks import c18\n"
                                      f"print(c18.make_env({cls_name!r}, {asy!r}).compile({src!r}, raw=True))\n",
                        })
                # liveness: an unmarked twin is really called on this route
                res, calls = run_case(cls_name, asy, src, extra, "safe", comp, autoescape)
                if not calls:
                    raise core.HarnessError(f"route {rid}/{sid}{args} [{cls_name} async={asy}] never calls a safe callable: "
                                            f"{src!r} {extra!r} -> {res!r}")
                p.sig(("safe", sid, res[0] if res[0] == "ok" else res[1]))
                for marking in markings:
                    p.evals += 1
                    res, calls = run_case(cls_name, asy, src, extra, marking, comp, autoescape)
                    bad = None
                    if calls:
                        bad = ("called", f"the unsafe callable ran {len(calls)} time(s)")
                    elif not (res[0] == "exc" and res[1] == "SecurityError"):
                        bad = ("no-security-error", f"the callable did not run but the outcome is {res!r}, not SecurityError")
                    if bad:
                        p.violation(f"C18/{bad[0]}/{family(marking)}/{rid}", {
                            "msg": f"[{cls_name} async={asy}] {marking} via {rid} in slot {sid}{args}: {bad[1]}; "
                                   f"template {src!r} {extra or ''} -> {res!r}",
                            "env": cls_name, "async": asy, "marking": marking, "reference": rid, "slot": sid, "args": args,
                            "template": src, "script": script_for(cls_name, asy, src, extra, marking, autoescape),
                        })
                    p.sig((marking, rid, "called" if calls else res[1] if res[0] == "exc" else "ok"))
                    if marking == "unsafe-method" and sid in ("call-block", "filter-arg") and args == "()":
                        p.sample({"env": cls_name, "async": asy, "marking": marking, "reference": rid, "slot": sid,
                                  "template": src, "outcome": res[1] if res[0] == "exc" else "ok",
                                  "callable_ran": len(calls)}, cap=1)
                for marking in OBSERVED:
                    res, calls = run_case(cls_name, asy, src, extra, marking, comp, autoescape)
                    p.count("observed_unsafe___call___method_ran" if calls else "observed_unsafe___call___method_blocked")
    return p


def chunks(xs, n):
    return [xs[i:i + n] for i in range(0, len(xs), n)]


def run(ctx: core.Ctx):
    core.import_all_jinja()
    ctx.rule = ("full product marking x reference form x slot (x argument shape) x environment class x sync/async; every "
                "case is non-trivial because the same template was first shown to call an unmarked twin; distinct = "
                "(marking, reference form, outcome) plus (slot, outcome of the safe twin)")
    ctx.assumptions += [
        "a callable counts as unsafe when is_safe_callable(obj) is false: unsafe_callable / alters_data visible on the "
        "object called, or the subclass override rejects it",
        "an instance whose __call__ method alone is decorated with @unsafe is observed, not judged",
    ]
    ref_ids = [r[0] for r in REFS]
    plan = []
    for cls_name in ("sandboxed", "custom") if ctx.quick else ("sandboxed", "immutable", "custom"):
        for asy in (False, True):
            plan.append((cls_name, asy, False, ctx.quick is False))
    if not ctx.quick:
        plan += [("sandboxed", False, True, True), ("sandboxed", True, True, True), ("custom", True, True, True)]
    shards = [(c, a, esc, ids, everywhere) for (c, a, esc, everywhere) in plan for ids in chunks(ref_ids, 3)]
    ctx.pmap(shard, shards)
    ctx.cov["bounds"] = {
        "environments": [list(x[:3]) for x in plan], "reference_forms": len(REFS), "slots": len(SLOTS),
        "arg_shapes": len(ARG_SHAPES), "arg_shapes_in_every_slot": not ctx.quick,
        "markings": {"standard": len(STD_MARKINGS), "async": len(ASYNC_MARKINGS),
                     "custom": len(CUSTOM_MARKINGS) + len(CUSTOM_ASYNC_MARKINGS)},
    }
