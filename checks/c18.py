"""C18 — a sandboxed template never calls a callable the sandbox deems unsafe.

Space: MARKING (how the callable is unsafe) x REFERENCE (how the template gets
hold of it) x SLOT (where the call expression stands) x environment class x
sync/async, full product.
"""
from __future__ import annotations

import functools

from vf import core, sbx

META = {
    "level": "exploration",
    "engine": "E1",
    "technique": "bounded-exhaustive enumeration of the full product marking x reference-form x call-slot x environment "
    "(class, sync/async) with recording callables; oracle: recorder stays empty and SecurityError is raised; every "
    "reference x slot pair is first shown to reach the call with an unmarked twin; taint walk over the compiled code "
    "requires every call of a template-controlled value to be an environment.call",
    "text": "Recording callables that are unsafe in ~20 ways (@unsafe / alters_data on functions, lambdas, bound, class and "
    "static methods, callable instances, classes, partials, pass_context functions, async functions and methods, or "
    "rejected by an overridden is_safe_callable by attribute, name or registry) are reached through ~30 reference forms "
    "(direct, attribute, dict/list item, attr filter, set/with alias, namespace, macro argument/default/kwargs/varargs, "
    "caller argument, used as caller, loop variables, conditional expressions, first/last/map, include, block) and called "
    "in ~35 slots (output, filter/test arguments, if/for/loop-filter/set/with, call blocks, macro defaults, include "
    "targets, trans variables, do, nested arguments, 5 argument shapes).  For every combination in SandboxedEnvironment, "
    "ImmutableSandboxedEnvironment and a subclass overriding is_safe_callable, sync and async: the callable never runs "
    "and SecurityError is raised.",
    "note": "Bounded: one unsafe call per template; a callable whose __call__ *method* is decorated while the instance "
    "itself carries no mark is observed but not judged (is_safe_callable(obj) is True for it).  Filters/tests that the "
    "application registers and that call their arguments are application code and out of scope.",
    "design_ref": "DESIGN.md §4 C18",
}

# ------------------------------------------------------------------ unsafe callables

CALLS: list = []


def _body(tag):
    def run(*a, **k):
        CALLS.append(tag)
        return "RAN"

    return run


def make_callable(marking: str):
    """-> (callable, extra env blocklist entries)"""
    from jinja2 import pass_context
    from jinja2.sandbox import unsafe

    run = _body(marking)
    if marking == "safe":
        def f(*a, **k):
            return run()
        return f
    if marking == "unsafe-func":
        @unsafe
        def f(*a, **k):
            return run()
        return f
    if marking == "alters-func":
        def f(*a, **k):
            return run()
        f.alters_data = True
        return f
    if marking == "unsafe-lambda":
        f = lambda *a, **k: run()  # noqa: E731
        f.unsafe_callable = True
        return f
    if marking in ("unsafe-method", "alters-method", "unsafe-classmethod", "alters-classmethod", "unsafe-staticmethod"):
        class K:
            @unsafe
            def um(self, *a, **k):
                return run()

            def am(self, *a, **k):
                return run()

            am.alters_data = True

            @classmethod
            @unsafe
            def ucm(cls, *a, **k):
                return run()

            def _acm(cls, *a, **k):
                return run()

            _acm.alters_data = True
            acm = classmethod(_acm)

            @staticmethod
            @unsafe
            def usm(*a, **k):
                return run()

            def __repr__(self):
                return "<K>"

        inst = K()
        return {"unsafe-method": inst.um, "alters-method": inst.am, "unsafe-classmethod": inst.ucm,
                "alters-classmethod": K.acm, "unsafe-staticmethod": inst.usm}[marking]
    if marking in ("unsafe-callable-obj", "alters-callable-obj", "alters-callable-cls-attr", "observed-call-method"):
        class C:
            if marking == "alters-callable-cls-attr":
                alters_data = True

            if marking == "observed-call-method":
                @unsafe
                def __call__(self, *a, **k):
                    return run()
            else:
                def __call__(self, *a, **k):
                    return run()

            def __repr__(self):
                return "<C>"

        c = C()
        if marking == "unsafe-callable-obj":
            c.unsafe_callable = True
        if marking == "alters-callable-obj":
            c.alters_data = True
        return c
    if marking in ("alters-class", "unsafe-class"):
        class D:
            def __init__(self, *a, **k):
                run()

            def __repr__(self):
                return "<D>"

            def __iter__(self):
                return iter(())

        if marking == "alters-class":
            D.alters_data = True
        else:
            D.unsafe_callable = True
        return D
    if marking == "unsafe-partial":
        f = functools.partial(lambda *a, **k: run())
        f.unsafe_callable = True
        return f
    if marking == "unsafe-passcontext":
        @pass_context
        @unsafe
        def f(ctx, *a, **k):
            return run()
        return f
    if marking == "alters-passcontext":
        @pass_context
        def f(ctx, *a, **k):
            return run()
        f.alters_data = True
        return f
    if marking == "unsafe-async-func":
        @unsafe
        async def f(*a, **k):
            return run()
        return f
    if marking == "alters-async-func":
        async def f(*a, **k):
            return run()
        f.alters_data = True
        return f
    if marking == "unsafe-async-method":
        class A:
            @unsafe
            async def um(self, *a, **k):
                return run()

            def __repr__(self):
                return "<A>"
        return A().um
    if marking == "custom-attr":
        def f(*a, **k):
            return run()
        f.blocked = True
        return f
    if marking == "custom-name":
        def danger(*a, **k):
            return run()
        return danger
    if marking == "custom-registry":
        def f(*a, **k):
            return run()
        return f
    if marking == "custom-async-attr":
        async def f(*a, **k):
            return run()
        f.blocked = True
        return f
    if marking == "custom-method-registry":
        class R:
            def m(self, *a, **k):
                return run()

            def __repr__(self):
                return "<R>"
        return R().m
    raise AssertionError(marking)


STD_MARKINGS = ["unsafe-func", "alters-func", "unsafe-lambda", "unsafe-method", "alters-method", "unsafe-classmethod",
                "alters-classmethod", "unsafe-staticmethod", "unsafe-callable-obj", "alters-callable-obj",
                "alters-callable-cls-attr", "alters-class", "unsafe-class", "unsafe-partial", "unsafe-passcontext",
                "alters-passcontext"]
ASYNC_MARKINGS = ["unsafe-async-func", "alters-async-func", "unsafe-async-method"]
CUSTOM_MARKINGS = ["custom-attr", "custom-name", "custom-registry", "custom-method-registry"]
CUSTOM_ASYNC_MARKINGS = ["custom-async-attr"]
OBSERVED = ["observed-call-method"]


CURRENT: dict = {}


class Holder:
    def __init__(self, f):
        self.f = f

    def __repr__(self):
        return "<holder>"


def env_class(name):
    from jinja2.sandbox import ImmutableSandboxedEnvironment, SandboxedEnvironment

    if name == "sandboxed":
        return SandboxedEnvironment
    if name == "immutable":
        return ImmutableSandboxedEnvironment

    class CustomEnv(SandboxedEnvironment):
        registry: list = []

        def is_safe_callable(self, obj):
            if getattr(obj, "blocked", False) or getattr(obj, "__name__", "") == "danger":
                return False
            if any(obj == r for r in self.registry):
                return False
            return super().is_safe_callable(obj)

    if name == "custom":
        return CustomEnv
    # the override is INHERITED: from an intermediate class, or from a mix-in listed before the sandbox class
    if name == "custom-inherited":
        class Tenant(CustomEnv):
            def is_safe_attribute(self, obj, attr, value):   # overrides another hook only
                return super().is_safe_attribute(obj, attr, value)

        return Tenant

    class Policy:
        registry: list = []

        def is_safe_callable(self, obj):
            if getattr(obj, "blocked", False) or getattr(obj, "__name__", "") == "danger":
                return False
            if any(obj == r for r in self.registry):
                return False
            return super().is_safe_callable(obj)

    if name == "custom-mixin":
        class Mixed(Policy, SandboxedEnvironment):
            pass

        return Mixed
    if name == "custom-mixin-immutable":
        class MixedImmutable(Policy, ImmutableSandboxedEnvironment):
            pass

        return MixedImmutable
    raise AssertionError(name)


def make_env(cls_name, asy, autoescape=False, extra_templates=None):
    import jinja2

    env = env_class(cls_name)(
        enable_async=asy, autoescape=autoescape, cache_size=0,
        extensions=["jinja2.ext.do", "jinja2.ext.i18n"],
        loader=jinja2.DictLoader(dict(extra_templates or {}, RAN="included")),
    )
    env.install_null_translations()
    env.globals["ident"] = lambda *a, **k: "ID"
    if cls_name.startswith("custom"):
        env.registry = []
    env.filters["c18pick"] = lambda key: CURRENT.get("f") or (lambda *a, **k: "ID")
    return env


# ------------------------------------------------------------------ reference forms and slots

# reference form: S(callee_expr) -> slot text;   returns template or (template, {"name": included source})
REFS = [
    ("direct", lambda S: S("f")),
    ("attr", lambda S: S("o.f")),
    ("subscript-attr", lambda S: S('o["f"]')),
    ("dict-dot", lambda S: S("d.f")),
    ("dict-item", lambda S: S('d["f"]')),
    ("dict-get", lambda S: S('d.get("f")')),
    ("list-item", lambda S: S("l[0]")),
    ("attr-filter", lambda S: S('(o|attr("f"))')),
    ("set", lambda S: "{% set g = f %}" + S("g")),
    ("set-attr", lambda S: "{% set g = o.f %}" + S("g")),
    ("with", lambda S: "{% with g = f %}" + S("g") + "{% endwith %}"),
    ("namespace", lambda S: "{% set ns = namespace(g=f) %}" + S("ns.g")),
    ("namespace-set", lambda S: "{% set ns = namespace() %}{% set ns.g = f %}" + S("ns.g")),
    ("dict-fn", lambda S: S("dict(g=f).g")),
    ("literal-dict", lambda S: S('{"g": f}.g')),
    ("literal-list", lambda S: S("[f][0]")),
    ("macro-arg", lambda S: "{% macro m(g) %}" + S("g") + "{% endmacro %}{{ m(f) }}"),
    ("macro-default", lambda S: "{% macro m(g=f) %}" + S("g") + "{% endmacro %}{{ m() }}"),
    ("macro-kwargs", lambda S: "{% macro m() %}" + S("kwargs.g") + "{% endmacro %}{{ m(g=f) }}"),
    ("macro-varargs", lambda S: "{% macro m() %}" + S("varargs[0]") + "{% endmacro %}{{ m(f) }}"),
    ("macro-closure", lambda S: "{% macro m() %}" + S("f") + "{% endmacro %}{{ m() }}"),
    ("caller-arg", lambda S: "{% macro m() %}{{ caller(f) }}{% endmacro %}{% call(g) m() %}" + S("g") + "{% endcall %}"),
    ("as-caller", lambda S: "{% macro m() %}" + S("caller") + "{% endmacro %}{{ m(caller=f) }}"),
    ("in-call-block", lambda S: "{% macro m() %}{{ caller() }}{% endmacro %}{% call m() %}" + S("f") + "{% endcall %}"),
    ("loop-var", lambda S: "{% for g in [f] %}" + S("g") + "{% endfor %}"),
    ("loop-list", lambda S: "{% for g in l %}" + S("g") + "{% endfor %}"),
    ("loop-items", lambda S: "{% for k, g in d|items %}" + S("g") + "{% endfor %}"),
    ("loop-else", lambda S: "{% for g in [] %}{% else %}" + S("f") + "{% endfor %}"),
    ("condexpr", lambda S: S("(f if true else none)")),
    ("or", lambda S: S("(none or f)")),
    ("first", lambda S: S("(l|first)")),
    ("last", lambda S: S("(l|last)")),
    ("map-attr", lambda S: S('([o]|map(attribute="f")|first)')),
    ("default-filter", lambda S: S("(zz|default(f))")),
    ("block", lambda S: "{% block b %}" + S("f") + "{% endblock %}"),
    ("include", lambda S: ('{% include "inc" %}', {"inc": S("f")})),
    ("import-ctx", lambda S: ('{% import "inc" as lib with context %}{{ lib.m() }}',
                              {"inc": "{% macro m() %}" + S("f") + "{% endmacro %}"})),
    ("filter-block", lambda S: "{% filter upper %}" + S("f") + "{% endfilter %}"),
    ("autoescape-block", lambda S: "{% autoescape true %}" + S("f") + "{% endautoescape %}"),
    # the callee expression contains no name at all: a plain filter maps a literal to the callable
    ("const-filter", lambda S: S('("k"|c18pick)')),
    ("const-filter-set", lambda S: '{% set g = "k"|c18pick %}' + S("g")),
    ("const-filter-cond", lambda S: S('("k"|c18pick if true else none)')),
]
CONST_REFS = ("const-filter", "const-filter-set", "const-filter-cond")

# slot: (id, fn(call_expr) -> text);  call_expr is callee + args
SLOTS = [
    ("out", lambda c: "{{ %s }}" % c),
    ("out-filter", lambda c: "{{ %s|string }}" % c),
    ("filter-arg", lambda c: "{{ 1|default(%s) }}" % c),
    ("filter-arg-undef", lambda c: "{{ zz|default(%s) }}" % c),
    ("filter-kwarg", lambda c: "{{ [1]|join(d=%s) }}" % c),
    ("test-arg", lambda c: "{{ 1 is eq(%s) }}" % c),
    ("test-subject", lambda c: "{{ %s is none }}" % c),
    ("if", lambda c: "{%% if %s %%}x{%% endif %%}" % c),
    ("elif", lambda c: "{%% if false %%}{%% elif %s %%}x{%% endif %%}" % c),
    ("for-iter", lambda c: "{%% for i in %s %%}{%% endfor %%}" % c),
    ("for-filter", lambda c: "{%% for i in [1] if %s %%}x{%% endfor %%}" % c),
    ("for-body-cycle", lambda c: "{%% for i in [1] %%}{{ loop.cycle(%s) }}{%% endfor %%}" % c),
    ("set", lambda c: "{%% set v = %s %%}" % c),
    ("set-block", lambda c: "{%% set v %%}{{ %s }}{%% endset %%}" % c),
    ("with", lambda c: "{%% with v = %s %%}{%% endwith %%}" % c),
    ("call-block", lambda c: "{%% call %s %%}x{%% endcall %%}" % c),
    ("call-block-args", lambda c: "{%% call(a) %s %%}x{%% endcall %%}" % c),
    ("macro-default", lambda c: "{%% macro q(a=%s) %%}{{ a }}{%% endmacro %%}{{ q() }}" % c),
    ("macro-call-arg", lambda c: "{%% macro q(a) %%}{%% endmacro %%}{{ q(%s) }}" % c),
    ("nested-arg", lambda c: "{{ ident(%s) }}" % c),
    ("nested-kwarg", lambda c: "{{ ident(k=%s) }}" % c),
    ("list-literal", lambda c: "{{ [%s] }}" % c),
    ("dict-literal", lambda c: '{{ {"k": %s} }}' % c),
    ("concat", lambda c: '{{ %s ~ "x" }}' % c),
    ("add", lambda c: "{{ %s + 1 }}" % c),
    ("compare", lambda c: "{{ %s == 1 }}" % c),
    ("condexpr-value", lambda c: "{{ %s if true else 0 }}" % c),
    ("condexpr-test", lambda c: "{{ 0 if %s else 1 }}" % c),
    ("not", lambda c: "{{ not %s }}" % c),
    ("format-arg", lambda c: '{{ "%%s"|format(%s) }}' % c),
    ("str-format-arg", lambda c: '{{ "{}".format(%s) }}' % c),
    ("getattr-of-result", lambda c: "{{ %s.x }}" % c),
    ("getitem-of-result", lambda c: "{{ %s[0] }}" % c),
    ("call-of-result", lambda c: "{{ %s() }}" % c),
    ("slice-bound", lambda c: "{{ [1, 2][:%s] }}" % c),
    ("do", lambda c: "{%% do %s %%}" % c),
    ("include-target", lambda c: "{%% include %s ignore missing %%}" % c),
    ("autoescape-arg", lambda c: "{%% autoescape %s %%}{%% endautoescape %%}" % c),
    ("trans-var", lambda c: "{%% trans a=%s %%}x{{ a }}{%% endtrans %%}" % c),
]

ARG_SHAPES = ["()", "(1)", "(a=1)", "(*[1])", '(**{"a": 1})']


def build(ref_fn, slot_fn, args):
    t = ref_fn(lambda callee: slot_fn(callee + args))
    return t if isinstance(t, tuple) else (t, None)


def make_data(f):
    return {"f": f, "o": Holder(f), "d": {"f": f}, "l": [f]}


def run_case(cls_name, asy, src, extra, marking, compiled=None, autoescape=False):
    env = make_env(cls_name, asy, autoescape, extra)
    f = make_callable(marking)
    if cls_name.startswith("custom") and marking in ("custom-registry", "custom-method-registry"):
        env.registry = [f]
    CURRENT["f"] = f   # what the plain filter c18pick hands out for a CONSTANT key (also while compiling)
    del CALLS[:]
    if compiled is None:
        compiled = sbx.compile_src(env, src)
    res = sbx.render_code(env, compiled, make_data(f))
    return res, list(CALLS)


def script_for(cls_name, asy, src, extra, marking, autoescape):
    return (
        "from checks import c18\n"
        f"res, calls = c18.run_case({cls_name!r}, {asy!r}, {src!r}, {extra!r}, {marking!r}, autoescape={autoescape!r})\n"
        f"print('template:', {src!r}, {extra!r})\n"
        "print('result  :', res)\n"
        "print('unsafe callable ran', len(calls), 'time(s)')\n"
        "# plain: env.from_string(src).render(f=f, o=Holder(f), d={'f': f}, l=[f]) with f = c18.make_callable(marking)\n"
    )


def family(marking):
    return marking.split("-")[0]


def shard(arg):
    cls_name, asy, autoescape, ref_ids, shapes_everywhere = arg
    core.import_all_jinja()
    p = core.Part()
    refs = dict(REFS)
    markings = list(STD_MARKINGS)
    if asy:
        markings += ASYNC_MARKINGS
    if cls_name == "custom":
        markings += CUSTOM_MARKINGS + (CUSTOM_ASYNC_MARKINGS if asy else [])
    elif cls_name.startswith("custom"):
        # same override, inherited: the marks that only the override rejects, and two standard ones
        markings = ["unsafe-func", "alters-method"] + CUSTOM_MARKINGS + (CUSTOM_ASYNC_MARKINGS if asy else [])
    for rid in ref_ids:
        for sid, sfn in SLOTS:
            shapes = ARG_SHAPES if (shapes_everywhere or sid == "out") else ARG_SHAPES[:1]
            for args in shapes:
                src, extra = build(refs[rid], sfn, args)
                comp = sbx.compile_src(make_env(cls_name, asy, autoescape, extra), src)
                if comp[0] != "code":
                    # `{% call (expr)() %}` parses the parenthesis as the call block's own parameter list:
                    # a parenthesised callee cannot stand in a call-block slot
                    if comp[1] == "TemplateSyntaxError" and sid.startswith("call-block") and "{% call (" in src + str(extra) \
                            or "{% call(a) (" in src + str(extra):
                        p.count("combinations_not_expressible")
                        continue
                    raise core.HarnessError(f"template does not compile: {src!r}: {comp}")
                # structural: calls of template values go through environment.call
                viol, st = sbx.structural(comp[2])
                p.count("struct_programs")
                p.count("struct_environment_call", st["environment.call"])
                for kind, code in viol:
                    if kind in ("call", "context.call"):
                        p.violation(f"C18/struct/{kind}/{sid}", {
                            "msg": f"generated code calls a template-controlled value outside environment.call: {code!r} "
                                   f"in program {src!r}",
                            "script": "from checks import c18\n"
                                      f"print(c18.make_env({cls_name!r}, {asy!r}).compile({src!r}, raw=True))\n",
                        })
                # liveness: an unmarked twin is really called on this route
                if rid in CONST_REFS:
                    comp = None     # compile again for every marking: the constant part may be evaluated while compiling
                res, calls = run_case(cls_name, asy, src, extra, "safe", comp, autoescape)
                if not calls:
                    raise core.HarnessError(f"route {rid}/{sid}{args} [{cls_name} async={asy}] never calls a safe callable: "
                                            f"{src!r} {extra!r} -> {res!r}")
                p.sig(("safe", sid, res[0] if res[0] == "ok" else res[1]))
                for marking in markings:
                    p.evals += 1
                    res, calls = run_case(cls_name, asy, src, extra, marking, comp, autoescape)
                    bad = None
                    if calls:
                        bad = ("called", f"the unsafe callable ran {len(calls)} time(s)")
                    elif not (res[0] == "exc" and res[1] == "SecurityError"):
                        bad = ("no-security-error", f"the callable did not run but the outcome is {res!r}, not SecurityError")
                    if bad:
                        p.violation(f"C18/{bad[0]}/{family(marking)}/{rid}", {
                            "msg": f"[{cls_name} async={asy}] {marking} via {rid} in slot {sid}{args}: {bad[1]}; "
                                   f"template {src!r} {extra or ''} -> {res!r}",
                            "env": cls_name, "async": asy, "marking": marking, "reference": rid, "slot": sid, "args": args,
                            "template": src, "script": script_for(cls_name, asy, src, extra, marking, autoescape),
                        })
                    p.sig((marking, rid, "called" if calls else res[1] if res[0] == "exc" else "ok"))
                    if marking == "unsafe-method" and sid in ("call-block", "filter-arg") and args == "()":
                        p.sample({"env": cls_name, "async": asy, "marking": marking, "reference": rid, "slot": sid,
                                  "template": src, "outcome": res[1] if res[0] == "exc" else "ok",
                                  "callable_ran": len(calls)}, cap=1)
                for marking in OBSERVED:
                    res, calls = run_case(cls_name, asy, src, extra, marking, comp, autoescape)
                    p.count("observed_unsafe___call___method_ran" if calls else "observed_unsafe___call___method_blocked")
    return p


# ------------------------------------------------------------------ sequences: a safe temporary, then an unsafe temporary
#
# The safety decision must be taken for every call on the object actually called.  Temporaries (bound methods
# created by attribute access, callables returned by calls) die right after the call, so a later temporary can
# occupy the same address; any per-identity shortcut shows up only in a SEQUENCE of calls.

SEQ_KINDS = ["unsafe-method", "alters-method", "unsafe-classmethod", "alters-classmethod", "unsafe-lambda", "alters-lambda",
             "unsafe-partial", "unsafe-callable-obj", "alters-callable-obj", "unsafe-closure"]
SEQ_KINDS_ASYNC = ["unsafe-async-method", "alters-async-method"]
SEQ_KINDS_CUSTOM = ["custom-registry-method", "custom-attr-lambda"]


class _Inst:
    """unmarked / marked instances of one class (same size, same allocator pool)"""

    def __init__(self, run):
        self._run = run

    def __call__(self, *a, **k):
        return self._run()


def make_resource(kind, marked=True):
    """An object `r` with safe temporaries (r.safe, r.mk_safe()) and, under `danger` / `mk_danger()`, a temporary
    of the same python type that is unsafe in the way `kind` says (or unmarked when marked=False: the twin)."""
    from jinja2.sandbox import unsafe

    run = _body(kind)
    mark_unsafe = unsafe if marked else (lambda f: f)

    def alters(f):
        if marked:
            f.alters_data = True
        return f

    class R:
        def safe(self, *a, **k):
            return "safe"

        @classmethod
        def csafe(cls, *a, **k):
            return "safe"

        async def asafe(self, *a, **k):
            return "safe"

        def mk_safe(self):
            if kind == "unsafe-partial":
                return functools.partial(lambda *a, **k: "safe")
            if kind in ("unsafe-callable-obj", "alters-callable-obj"):
                return _Inst(lambda: "safe")
            return lambda *a, **k: "safe"

        def mk_danger(self):
            if kind == "unsafe-partial":
                f = functools.partial(lambda *a, **k: run())
                if marked:
                    f.unsafe_callable = True
                return f
            if kind in ("unsafe-callable-obj", "alters-callable-obj"):
                f = _Inst(run)
                if marked:
                    setattr(f, "unsafe_callable" if kind.startswith("unsafe") else "alters_data", True)
                return f
            f = lambda *a, **k: run()  # noqa: E731
            if marked:
                if kind in ("unsafe-lambda", "unsafe-closure"):
                    f.unsafe_callable = True
                elif kind == "alters-lambda":
                    f.alters_data = True
                elif kind == "custom-attr-lambda":
                    f.blocked = True
            return f

        def __repr__(self):
            return "<R>"

    if kind in ("unsafe-method", "custom-registry-method"):
        def d_impl(self, *a, **k):
            return run()
        R.danger = mark_unsafe(d_impl) if kind == "unsafe-method" else d_impl
    elif kind == "alters-method":
        def d_impl(self, *a, **k):
            return run()
        R.danger = alters(d_impl)
    elif kind == "unsafe-classmethod":
        def d_impl(cls, *a, **k):
            return run()
        R.danger = classmethod(mark_unsafe(d_impl))
    elif kind == "alters-classmethod":
        def d_impl(cls, *a, **k):
            return run()
        R.danger = classmethod(alters(d_impl))
    elif kind == "unsafe-async-method":
        async def d_impl(self, *a, **k):
            return run()
        R.danger = mark_unsafe(d_impl)
    elif kind == "alters-async-method":
        async def d_impl(self, *a, **k):
            return run()
        R.danger = alters(d_impl)
    return R()


def seq_danger_expr(kind):
    return "r.danger" if "method" in kind else "r.mk_danger()"


def seq_safe_exprs(kind):
    if "async" in kind:
        return ["r.asafe", "r.safe"]
    if "classmethod" in kind:
        return ["r.csafe", "r.safe"]
    if "method" in kind:
        return ["r.safe"]
    return ["r.mk_safe()"]


#: @S = a call through a safe temporary, @D = the callee expression of the unsafe temporary
SEQ_FORMS = [
    ("one-then", "{{ @S() }}{{ @D() }}"),
    ("two-then", "{{ @S() }}{{ @S() }}{{ @D() }}"),
    ("loop-then", "{% for i in range(4) %}{{ @S() }}{% endfor %}{{ @D() }}"),
    ("set-then", "{% set a = @S() %}{{ @D() }}"),
    ("if-then", "{% if @S() %}{{ @D() }}{% endif %}"),
    ("arg-then", "{{ ident(@S()) }}{{ @D() }}"),
    ("nested", "{{ ident(@S(), @D()) }}"),
    ("attr-filter", '{{ (r|attr("safe"))() }}{{ @D() }}'),
    ("subscript", '{{ r["safe"]() }}{{ @D() }}'),
    ("builtin-then", '{{ d.get("k") }}{{ "a".upper() }}{{ [1].count(1) }}{{ @D() }}'),
    ("macro-then", "{% macro m() %}x{% endmacro %}{{ m() }}{{ @D() }}"),
    ("in-macro", "{% macro m() %}{{ @S() }}{% endmacro %}{{ m() }}{{ @D() }}"),
    ("danger-in-loop", "{% for i in range(3) %}{{ @S() }}{% if loop.last %}{{ @D() }}{% endif %}{% endfor %}"),
    ("alias-then", "{% set g = @S %}{{ g() }}{% set g = none %}{{ @D() }}"),
    ("filter-arg", "{{ 1|default(@S()) }}{{ 2|default(@D()) }}"),
]


def seq_case(cls_name, asy, kind, src_list, marked=True, fresh_each_render=False):
    """Render the templates of src_list one after another on ONE environment."""
    env = make_env(cls_name, asy)
    r = make_resource(kind, marked)
    if cls_name == "custom" and kind == "custom-registry-method" and marked:
        env.registry = [r.danger]
    del CALLS[:]
    out = []
    for src in src_list:
        if fresh_each_render:
            r = make_resource(kind, marked)
            if cls_name == "custom" and kind == "custom-registry-method" and marked:
                env.registry = [r.danger]
        comp = sbx.compile_src(env, src)
        out.append(sbx.render_code(env, comp, {"r": r, "d": {"k": 1}}))
    return out, list(CALLS)


def seq_shard(arg):
    cls_name, asy = arg
    core.import_all_jinja()
    p = core.Part()
    kinds = SEQ_KINDS + (SEQ_KINDS_ASYNC if asy else []) + (SEQ_KINDS_CUSTOM if cls_name == "custom" else [])
    for kind in kinds:
        D = seq_danger_expr(kind)
        plans = []
        for S in seq_safe_exprs(kind):
            for fid, pat in SEQ_FORMS:
                if fid in ("attr-filter", "subscript") and S != "r.safe":
                    continue
                plans.append((f"template/{fid}", [pat.replace("@S", S).replace("@D", D)], False))
            # across renders on one environment
            plans.append(("renders/safe-then-unsafe", ["{{ %s() }}" % S, "{{ %s() }}" % D], False))
            plans.append(("renders/safe-x3-then-unsafe", ["{{ %s() }}" % S] * 3 + ["{{ %s() }}" % D], False))
            plans.append(("renders/fresh-objects", ["{{ %s() }}" % S, "{{ %s() }}" % D], True))
            plans.append(("renders/same-template", ["{{ %s() }}{{ %s() if go }}" % (S, D)] * 2, False))
        for pid, srcs, fresh in plans:
            if pid == "renders/same-template":
                srcs = [srcs[0].replace(" if go", " if false"), srcs[1].replace(" if go", "")]
            # liveness with the unmarked twin
            res, calls = seq_case(cls_name, asy, kind, srcs, marked=False, fresh_each_render=fresh)
            if not calls:
                raise core.HarnessError(f"sequence {pid} [{cls_name} async={asy}] {kind}: twin never called: {srcs!r} -> {res!r}")
            p.evals += 1
            res, calls = seq_case(cls_name, asy, kind, srcs, fresh_each_render=fresh)
            last = res[-1]
            bad = None
            if calls:
                bad = ("called", f"the unsafe callable ran {len(calls)} time(s)")
            elif not (last[0] == "exc" and last[1] == "SecurityError"):
                bad = ("no-security-error", f"outcome {last!r}, not SecurityError")
            elif any(x[0] != "ok" for x in res[:-1]):
                bad = ("no-security-error", f"an earlier render of safe calls failed: {res!r}")
            if bad:
                p.violation(f"C18/{bad[0]}/sequence/{family(kind)}/{pid}", {
                    "msg": f"[{cls_name} async={asy}] {kind}, {pid}: {bad[1]}; templates {srcs!r} -> {res!r}",
                    "env": cls_name, "async": asy, "marking": kind, "sequence": pid, "templates": srcs,
                    "script": "from checks import c18\n"
                              f"res, calls = c18.seq_case({cls_name!r}, {asy!r}, {kind!r}, {srcs!r}, fresh_each_render={fresh!r})\n"
                              "print('results:', res)\nprint('unsafe callable ran', len(calls), 'time(s)')\n"
                              "# plain: one SandboxedEnvironment, r = c18.make_resource(kind); render the templates in order with r=r\n",
                })
            p.sig(("seq", kind, pid, "called" if calls else last[1] if last[0] == "exc" else "ok"))
            if kind == "unsafe-method" and pid in ("template/one-then", "renders/safe-then-unsafe"):
                p.sample({"env": cls_name, "async": asy, "marking": kind, "sequence": pid, "templates": srcs,
                          "outcome": last[1] if last[0] == "exc" else "ok", "callable_ran": len(calls)}, cap=2)
    return p


# ------------------------------------------------------------------ overrides that reject macros

BODY: list = []
MACRO_OVERRIDES = ["deny-all", "deny-macros", "allow-list", "deny-by-name"]
DEF = "{% macro target() %}{{ c18v|c18body }}{{ varargs }}{{ kwargs }}{% endmacro %}"
DEFC = "{% macro target() %}{{ c18v|c18body }}{{ caller() }}{% endmacro %}"
LIB = DEF
#: (id, template, overrides under which the *target* (or the call block body) must be refused)
MACRO_FORMS = [
    ("local", DEF + "{{ target() }}"),
    ("local-args", DEF + "{{ target(1, a=2) }}"),
    ("alias-set", DEF + "{% set g = target %}{{ g() }}"),
    ("alias-with", DEF + "{% with g = target %}{{ g() }}{% endwith %}"),
    ("call-block", DEFC + "{% call target() %}x{% endcall %}"),
    ("from-import", '{% from "lib" import target %}{{ target() }}'),
    ("from-import-alias", '{% from "lib" import target as t2 %}{{ t2() }}'),
    ("from-import-ctx", '{% from "lib" import target with context %}{{ target() }}'),
    ("module-attr", '{% import "lib" as lib %}{{ lib.target() }}'),
    ("module-attr-filter", '{% import "lib" as lib %}{{ (lib|attr("target"))() }}'),
    ("in-loop", DEF + "{% for i in [1, 2] %}{{ target() }}{% endfor %}"),
    ("filter-arg", DEF + "{{ 1|default(target()) }}"),
    ("test-arg", DEF + "{{ 1 is eq(target()) }}"),
    ("if", DEF + "{% if target() %}x{% endif %}"),
    ("do", DEF + "{% do target() %}"),
    ("set-block", DEF + "{% set v %}{{ target() }}{% endset %}"),
    ("list-item", DEF + "{{ [target][0]() }}"),
    ("dict-item", DEF + '{{ {"t": target}.t() }}'),
    ("condexpr", DEF + "{{ (target if true else 0)() }}"),
    ("in-block", DEF + "{% block b %}{{ target() }}{% endblock %}"),
    ("macro-default", DEF + "{% macro q(a=target()) %}{{ a }}{% endmacro %}{{ q() }}"),
    ("nested-macro", DEF + "{% macro outer() %}{{ target() }}{% endmacro %}{{ outer() }}"),
    ("passed-to-macro", DEF + "{% macro outer(g) %}{{ g() }}{% endmacro %}{{ outer(target) }}"),
    ("caller", "{% macro wrap() %}{{ caller() }}{% endmacro %}{% call wrap() %}{{ c18v|c18body }}{% endcall %}"),
    ("caller-args", "{% macro wrap() %}{{ caller(1) }}{% endmacro %}{% call(a) wrap() %}{{ c18v|c18body }}{% endcall %}"),
    ("caller-alias", "{% macro wrap() %}{% set c = caller %}{{ c() }}{% endmacro %}{% call wrap() %}{{ c18v|c18body }}{% endcall %}"),
]


def macro_env(override, asy, autoescape=False):
    import jinja2
    from jinja2.runtime import Macro
    from jinja2.sandbox import SandboxedEnvironment

    class Env(SandboxedEnvironment):
        allowed: list = []

        def is_safe_callable(self, obj):
            if override == "none":
                return super().is_safe_callable(obj)
            if override == "deny-all":
                return False
            if override == "deny-macros":
                return not isinstance(obj, Macro) and super().is_safe_callable(obj)
            if override == "allow-list":
                return any(obj is a for a in self.allowed)
            if override == "deny-by-name":
                if isinstance(obj, Macro) and obj.name in ("target", None):
                    return False
                return super().is_safe_callable(obj)
            raise AssertionError(override)

    def body(v):
        BODY.append(1)
        return ""

    env = Env(enable_async=asy, autoescape=autoescape, cache_size=0, extensions=["jinja2.ext.do"],
              loader=jinja2.DictLoader({"lib": LIB}))
    env.filters["c18body"] = body
    env.globals["ident"] = ident = lambda *a, **k: "ID"
    env.allowed = [ident]
    return env


def macro_case(override, asy, src, autoescape=False):
    env = macro_env(override, asy, autoescape)
    comp = sbx.compile_src(env, src)
    del BODY[:]  # after compiling, in case the optimizer evaluates a filter early
    res = sbx.render_code(env, comp, {})
    return res, len(BODY)


def macro_shard(arg):
    asy, autoescape = arg
    core.import_all_jinja()
    p = core.Part()
    for fid, src in MACRO_FORMS:
        res, n = macro_case("none", asy, src, autoescape)
        if not n or res[0] != "ok":
            raise core.HarnessError(f"macro form {fid} [async={asy}] does not run the macro body without an override: {src!r} -> {res!r}")
        for override in MACRO_OVERRIDES:
            p.evals += 1
            res, n = macro_case(override, asy, src, autoescape)
            bad = None
            if n:
                bad = ("called", f"the macro body ran {n} time(s) although is_safe_callable rejects the macro")
            elif not (res[0] == "exc" and res[1] == "SecurityError"):
                bad = ("no-security-error", f"outcome {res!r}, not SecurityError")
            if bad:
                p.violation(f"C18/{bad[0]}/macro/{override}/{fid}", {
                    "msg": f"[override={override} async={asy} autoescape={autoescape}] macro call form {fid}: {bad[1]}; "
                           f"template {src!r} -> {res!r}",
                    "override": override, "async": asy, "form": fid, "template": src,
                    "script": "from checks import c18\n"
                              f"print(c18.macro_case({override!r}, {asy!r}, {src!r}, {autoescape!r}))\n"
                              "# plain: a SandboxedEnvironment subclass whose is_safe_callable rejects jinja2.runtime.Macro objects\n",
                })
            p.sig(("macro", override, fid, "called" if n else res[1] if res[0] == "exc" else "ok"))
            if fid in ("local", "caller") and override == "deny-by-name":
                p.sample({"override": override, "async": asy, "form": fid, "template": src,
                          "outcome": res[1] if res[0] == "exc" else "ok", "macro_body_ran": n}, cap=1)
    return p



# ------------------------------------------------------------------ methods of literals under a restrictive override
#
# A call whose callee and arguments are all compile-time constants ('a b'.split(), {'a': 1}.get('a')) involves no
# template variable at all, yet it is a call made by the template: an is_safe_callable override that rejects the
# bound method must be consulted, and must win, wherever the call stands - in particular it must not be evaluated
# while compiling.

LITERAL_CALLS = [("'a b'.split", "()"), ("'a b'.split", "(' ')"), ("'x'.upper", "()"), ("{'a': 1}.get", "('a')"),
                 ("[1, 2].count", "(1)"), ("(1, 2).index", "(2)"), ("(5).bit_length", "()"),
                 ("('a'|upper).lower", "()"), ("('a' ~ 'b').title", "()"), ("[1, 2][0].bit_length", "()"),
                 ("{'a': 'x'}.a.upper", "()"), ("{'a': 'x'}['a'].upper", "()")]
LITERAL_OVERRIDES = ["deny-all", "deny-builtin-methods", "allow-list"]
CONSULTED: list = []


def literal_env(override, asy):
    import types

    from jinja2.sandbox import SandboxedEnvironment

    class Env(SandboxedEnvironment):
        allowed: list = []

        def is_safe_callable(self, obj):
            CONSULTED.append(1)
            if override == "none":
                return super().is_safe_callable(obj)
            if override == "deny-all":
                return False
            if override == "deny-builtin-methods":
                return not isinstance(obj, types.BuiltinMethodType) and super().is_safe_callable(obj)
            if override == "allow-list":
                return any(obj is a for a in self.allowed)
            raise AssertionError(override)

    env = Env(enable_async=asy, cache_size=0, extensions=["jinja2.ext.do", "jinja2.ext.i18n"])
    env.install_null_translations()
    env.globals["ident"] = ident = lambda *a, **k: "ID"
    env.allowed = [ident]
    return env


def literal_case(override, asy, src):
    env = literal_env(override, asy)
    del CONSULTED[:]
    comp = sbx.compile_src(env, src)
    res = sbx.render_code(env, comp, {})
    return res, len(CONSULTED)


def literal_shard(arg):
    asy, override = arg
    core.import_all_jinja()
    p = core.Part()
    for callee, args in LITERAL_CALLS:
        for sid, sfn in SLOTS:
            src = sfn(callee + args)
            res0, n0 = literal_case("none", asy, src)
            if res0[0] == "exc" and res0[1] in ("TemplateSyntaxError", "TemplateAssertionError"):
                p.count("combinations_not_expressible")
                continue
            if not n0:
                # the template made a call (it is there in the source) and the sandbox was never asked about it
                p.violation(f"C18/literal/not-consulted/{sid}", {
                    "msg": f"[async={asy}] {callee}{args} in slot {sid}: is_safe_callable was never consulted for the call "
                           f"in template {src!r} (outcome {res0!r})",
                    "script": "from checks import c18\n"
                              f"print(c18.literal_case('none', {asy!r}, {src!r}), '<- (outcome, number of is_safe_callable consultations)')\n"})
                continue
            p.evals += 1
            res, n = literal_case(override, asy, src)
            bad = None
            if not (res[0] == "exc" and res[1] == "SecurityError"):
                bad = ("no-security-error", f"outcome {res!r}, not SecurityError (is_safe_callable consulted {n} time(s))")
            if bad:
                p.violation(f"C18/literal/{bad[0]}/{override}/{sid}", {
                    "msg": f"[override {override} async={asy}] {callee}{args} in slot {sid}: {bad[1]}; template {src!r}",
                    "script": "from checks import c18\n"
                              f"print(c18.literal_case({override!r}, {asy!r}, {src!r}))\n"
                              "# plain: a SandboxedEnvironment subclass whose is_safe_callable rejects the bound method\n"})
            p.sig(("literal", override, callee, sid, res[1] if res[0] == "exc" else "ok"))
    return p


def dispatch(arg):
    kind, payload = arg
    return {"product": shard, "seq": seq_shard, "macro": macro_shard, "literal": literal_shard}[kind](payload)


def chunks(xs, n):
    return [xs[i:i + n] for i in range(0, len(xs), n)]


def run(ctx: core.Ctx):
    core.import_all_jinja()
    ctx.rule = ("full product marking x reference form x slot (x argument shape) x environment class x sync/async; every "
                "case is non-trivial because the same template was first shown to call an unmarked twin; distinct = "
                "(marking, reference form, outcome) plus (slot, outcome of the safe twin)")
    ctx.assumptions += [
        "a callable counts as unsafe when is_safe_callable(obj) is false: unsafe_callable / alters_data visible on the "
        "object called, or the subclass override rejects it",
        "an instance whose __call__ method alone is decorated with @unsafe is observed, not judged",
    ]
    ref_ids = [r[0] for r in REFS]
    plan = []
    for cls_name in ("sandboxed", "custom") if ctx.quick else ("sandboxed", "immutable", "custom"):
        for asy in (False, True):
            plan.append((cls_name, asy, False, ctx.quick is False))
    for cls_name in ("custom-inherited", "custom-mixin", "custom-mixin-immutable"):
        for asy in (False, True):
            plan.append((cls_name, asy, False, False))
    if not ctx.quick:
        plan += [("sandboxed", False, True, True), ("sandboxed", True, True, True), ("custom", True, True, True)]
    shards = [("product", (c, a, esc, ids, everywhere)) for (c, a, esc, everywhere) in plan for ids in chunks(ref_ids, 3)]
    shards += [("seq", (c, a)) for c in ("sandboxed", "immutable", "custom") for a in (False, True)]
    shards += [("macro", (a, esc)) for a in (False, True) for esc in (False, True)]
    shards += [("literal", (a, o)) for a in (False, True) for o in LITERAL_OVERRIDES]
    ctx.pmap(dispatch, shards)
    ctx.cov["bounds"] = {
        "environments": [list(x[:3]) for x in plan], "reference_forms": len(REFS), "slots": len(SLOTS),
        "arg_shapes": len(ARG_SHAPES), "arg_shapes_in_every_slot": not ctx.quick,
        "sequence_forms": len(SEQ_FORMS) + 4, "sequence_markings": len(SEQ_KINDS) + len(SEQ_KINDS_ASYNC) + len(SEQ_KINDS_CUSTOM),
        "macro_call_forms": len(MACRO_FORMS), "macro_overrides": MACRO_OVERRIDES,
        "literal_callees": [c for c, _a in LITERAL_CALLS], "literal_overrides": LITERAL_OVERRIDES,
        "override_inherited_from": ["intermediate class", "mix-in before SandboxedEnvironment", "mix-in before ImmutableSandboxedEnvironment"],
        "markings": {"standard": len(STD_MARKINGS), "async": len(ASYNC_MARKINGS),
                     "custom": len(CUSTOM_MARKINGS) + len(CUSTOM_ASYNC_MARKINGS)},
    }
