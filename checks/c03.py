"""C03 — statements and variable scoping follow Jinja's documented scoping rules;
alpha-renaming invariance; distinct identifiers never alias."""
from __future__ import annotations

import contextlib
import gc
import signal
import sys
import unicodedata

from vf import core
from vf import gen_stmt as G

META = {
    "level": "exploration",
    "engine": "E1",
    "technique": "bounded-exhaustive enumeration of statement ASTs (all programs up to a node bound over layered "
    "label alphabets) x all data assignments, compared with an independent lexical-scope reference interpreter "
    "(R-stmt), plus a metamorphic alpha-renaming relation over a menu of identifier bijections",
    "text": "Every program of the statement mini-language (output, set, block set, if/elif/else, for with else / "
    "loop filter / break / continue, with, macro + call with parameters and defaults, call block + caller, filter "
    "block, namespace creation and attribute assignment, recursive loop) with at most N statement nodes and nesting "
    "<= 3 is printed, compiled in a fresh Environment and rendered on every data assignment (each pool variable "
    "absent or 7, each used flag True/False); output or exception class must equal what R-stmt computes from the "
    "documented scoping rules.  Each program is also re-printed under identifier bijections (ASCII, names that "
    "look like generated-code identifiers or Python keywords, Unicode, and deliberately NFKC-colliding pairs) and "
    "must render identically.",
    "note": "Bounds (statement nodes, nesting <= 3): quick = full alphabet N<=2, tiny N<=4, macro5 N<=5, tiny2 / tiny3 / "
    "alias(3 variables) N<=3; thorough = full and mid N<=3, core / tiny / tiny2 / tiny3 / alias(3 variables) N<=4, deep1 "
    "and alias5(3 variables) N<=5, macro5 N<=6 (alphabets: vf/gen_stmt.py alphabet()).  For alphabets closed under "
    "permuting the pool only the representative whose variables first occur in pool order is run.  One renaming per "
    "program, rotating through the menu (ordinary and NFKC-colliding alternately; alias profiles one of each).  Errors "
    "are compared by exception class only.  R-stmt rules not stated in the docs are tagged CALIBRATED in "
    "vf/gen_stmt.py and listed under assumptions.  Known deviations are labelled by a structural predicate on the "
    "program AND equality with a variant interpreter; they are still reported as violations.",
    "design_ref": "DESIGN.md §4 C03, §3 R-stmt",
}

IDS = ("a", "b", "c", G.MACRO, G.NS)


def _m(**kw):
    return {{"m": G.MACRO, "ns": G.NS}.get(k, k): v for k, v in kw.items()}


# Non-colliding renamings: every image is a distinct identifier and no two images are
# NFKC-equal (uni-b uses NFKC-non-normal names on purpose, but without a partner).
MENU = [
    ("swap", _m(a="b", b="a")),
    ("rot", _m(a="b", b="c", c="a")),
    ("ascii", _m(a="q", b="a1", c="z_9", m="mm", ns="n1")),
    ("kw-a", _m(a="class", b="def", c="None_", m="t_1", ns="l_0_a")),
    ("kw-b", _m(a="context", b="missing", c="environment", m="resolve", ns="concat")),
    ("kw-c", _m(a="undefined", b="_loop_vars", c="l_0_a", m="class", ns="def")),
    ("kw-d", _m(b="l_0_a", c="l_1_a", m="l_0_b", ns="t_1")),
    ("kw-e", _m(a="l_1_b", b="l_0_l_1_b", c="l_2_a", m="macro_", ns="l_0_m")),
    ("uni-a", _m(a="é", b="变量", c="ℌ", m="мак", ns="名")),
    ("uni-b", _m(a="ℌ", b="ﬁ", c="é", m="变量", ns="ñ")),
]
# NFKC-colliding pairs, used deliberately with both members in one program
COLLIDE = [
    ("nfkc-ab", _m(a="ﬁ", b="fi")),
    ("nfkc-ba", _m(a="fi", b="ﬁ")),
    ("nfkc-abH", _m(a="ℌ", b="H")),
    ("nfkc-ac", _m(a="ﬁ", c="fi")),
    ("nfkc-bc", _m(b="ℌ", c="H")),
    ("nfkc-am", _m(a="ﬁ", m="fi")),
    ("nfkc-bm", _m(b="H", m="ℌ")),
    ("nfkc-ans", _m(a="ℌ", ns="H")),
    ("nfkc-mns", _m(m="ﬁ", ns="fi")),
]


def nfkc(x):
    return unicodedata.normalize("NFKC", x)


def _check_menus():
    for name, mp in MENU + COLLIDE:
        img = [mp.get(i, i) for i in IDS]
        if len(set(img)) != len(img):
            raise core.HarnessError(f"menu entry {name} is not a bijection: {img}")
        if set(img) & G.SPECIAL_NAMES:
            raise core.HarnessError(f"menu entry {name} uses a special name")
        coll = len({nfkc(x) for x in img}) != len(img)
        if coll != ((name, mp) in COLLIDE):
            raise core.HarnessError(f"menu entry {name}: NFKC collision status is wrong")


def applicable(entry, ids):
    """a renaming is applied only if it changes at least one identifier of the program;
    a colliding one only if both members of (one of) its pair(s) occur."""
    name, mp = entry
    if name.startswith("nfkc-"):
        return all(k in ids for k in mp)
    return any(k in ids and mp[k] != k for k in mp)


def colliding_pairs(mp, ids):
    img = [mp.get(i, i) for i in ids]
    return [(x, y) for i, x in enumerate(img) for y in img[i + 1:] if x != y and nfkc(x) == nfkc(y)]


def kwarg_names(prog):
    out = []

    def ex(e):
        if e[0] == "call":
            out.extend(k for k, _ in e[3])

    def walk(stmts):
        for st in stmts:
            if st[0] == "out":
                ex(st[1])
            elif st[0] == "callblock":
                ex(st[2])
            for b in G.bodies(st):
                walk(b)

    walk(prog)
    return out


TREE_SRC = (
    "class T(int):\n"
    "    def __new__(cls, n, c=()):\n"
    "        o = int.__new__(cls, n); o.c = list(c); return o\n"
    "    def __str__(self):\n"
    "        return str(int(self))\n"
    "data['tree'] = [T(3, [T(4), T(5)]), T(6)]\n"
)


def script_for(src, data, expected, src0=None, uses_tree=False):
    if isinstance(expected, G.Failure):
        expected = "raises " + expected.cls
    elif isinstance(expected, str) and not expected.startswith("<"):
        expected = repr(expected)
    s = ("import jinja2\n"
         "env = jinja2.Environment(extensions=['jinja2.ext.loopcontrols'])\n"
         f"src = {src!r}\n"
         f"data = {data!r}\n")
    if uses_tree:
        s += TREE_SRC
    s += ("def run(s, d):\n"
          "    try:\n"
          "        return env.from_string(s).render(**d)\n"
          "    except Exception as e:\n"
          "        return 'raises ' + type(e).__name__ + ': ' + str(e)\n"
          "print('source  :', src)\n"
          "print('data    :', {k: v for k, v in data.items() if k != 'tree'})\n"
          "print('got     :', repr(run(src, data)))\n"
          f"print('expected:', {expected!r})\n")
    if src0 is not None:
        s += f"print('(expected = output of the same program before renaming: %r)' % ({src0!r},))\n"
    return s


def _on_cpu_alarm(signum, frame):
    raise core.CaseTimeout()


@contextlib.contextmanager
def cpu_alarm(seconds):
    """hang guard on the CPU time of this process (a wall-clock guard misfires on a loaded machine)."""
    old = signal.signal(signal.SIGVTALRM, _on_cpu_alarm)
    signal.setitimer(signal.ITIMER_VIRTUAL, seconds)
    try:
        yield
    finally:
        signal.setitimer(signal.ITIMER_VIRTUAL, 0)
        signal.signal(signal.SIGVTALRM, old)


RENDER_STACK = 160  # frames available to one render; endless macro recursion hits it quickly


def _stack_depth():
    f = sys._getframe()
    n = 0
    while f is not None:
        n += 1
        f = f.f_back
    return n


def run_real(env_cls, src, datas, rename=None):
    """compile in a fresh Environment, render on each data assignment."""
    env = env_cls(**G.ENV_KWARGS)
    try:
        tpl = env.from_string(src)
    except Exception as e:  # noqa: BLE001
        return None, type(e).__name__ + ": " + str(e)
    outs = []
    old_limit = sys.getrecursionlimit()
    sys.setrecursionlimit(_stack_depth() + RENDER_STACK)
    try:
        for d in datas:
            try:
                outs.append(tpl.render(**G.render_data(d, rename)))
            except Exception as e:  # noqa: BLE001
                outs.append(G.Failure(type(e).__name__))
    finally:
        sys.setrecursionlimit(old_limit)
    return outs, None


def lv_script(src, expected):
    return ("import jinja2\n"
            f"src = {src!r}\n"
            "try:\n"
            "    got = jinja2.Environment().from_string(src).render()\n"
            "except Exception as e:\n"
            "    got = 'raises ' + type(e).__name__ + ': ' + str(e)\n"
            "print('source  :', src)\n"
            "print('got     :', repr(got))\n"
            f"print('expected:', {expected!r})\n")


def shard_lv(arg) -> core.Part:
    """loop-variable visibility family: nests of for loops whose `loop` is read only through
    the chosen readers, against plain Python loop counters."""
    _, depth, readers, kmax, k, K = arg
    import jinja2

    p = core.Part()
    for idx, levels in enumerate(G.lv_programs(depth, readers, kmax)):
        if idx % K != k:
            continue
        p.evals += 1
        p.count("loopvis_programs")
        src = G.lv_source(levels)
        exp = G.lv_expected(levels)
        wrappers = sorted({w for lv in levels for w, _ in lv})
        indirect = [i for i, lv in enumerate(levels) if lv and all(w in ("macro", "macro2", "callblock") for w, _ in lv)]
        if indirect:
            p.count("loopvis_closure_only_level")  # a loop whose `loop` is read only from macro / call-block bodies
            if any(i > 0 and any(w == "direct" for w, _ in levels[i - 1]) for i in indirect):
                p.count("loopvis_closure_only_inside_direct")
        try:
            with cpu_alarm(30):
                got = jinja2.Environment().from_string(src).render()
        except core.CaseTimeout:
            got = G.Failure("CaseTimeout")
        except Exception as e:  # noqa: BLE001
            got = G.Failure(type(e).__name__)
        p.sig(("lv", depth, "+".join(wrappers), got.cls if isinstance(got, G.Failure) else "ok"))
        if got != exp:
            where = "closure-only" if indirect else "mixed"
            p.violation("C03/loopvis/%s/%s" % (where, got.cls if isinstance(got, G.Failure) else "wrong-loop"), {
                "msg": f"{src!r}: rendered {got!r}, each reader must report the loop it is written in: {exp!r}",
                "source": src, "got": repr(got), "expected": repr(exp), "profile": "loopvis",
                "script": lv_script(src, exp)})
        if idx % 97 == k:
            p.sample({"source": src, "output": repr(got)})
    return p


def shard(arg) -> core.Part:
    if arg[0] == "loopvis":
        return shard_lv(arg)
    profile, pool, nmax, nmin, k, K, nren, ncol, alternate = arg
    import jinja2

    p = core.Part()
    per_sig = {}

    def report(sig, make_detail):
        # known findings fire on very many cases: keep 3 details per signature and shard so
        # that Part's overall cap can never hide a different signature
        n = per_sig[sig] = per_sig.get(sig, 0) + 1
        p.count("cases:" + sig)
        if n <= 3:
            p.violation(sig, make_detail())

    idx = -1
    for prog in G.programs(nmax, pool, profile, shard=(k, K), min_nodes=nmin):
        idx += 1
        pe = G.with_epilogue(prog, pool)
        ids = G.identifiers(pe)
        src = G.to_source(pe)
        datas = G.data_assignments(pool, pe)
        kinds = sorted(G.kinds(prog))
        uses_tree = "recfor" in kinds
        p.count("programs")
        try:
            with cpu_alarm(30):
                got, cerr = run_real(jinja2.Environment, src, datas)
        except core.CaseTimeout:
            got, cerr = None, "CaseTimeout: more than 30 s of CPU time"
        if got is None:
            p.evals += 1
            report("C03/compile-error/" + cerr.split(":")[0], lambda: {
                "msg": f"{src!r} does not compile: {cerr}",
                "script": script_for(src, {}, "<compiles>")})
            continue
        # ---- oracle 1: reference interpreter
        pattern = None
        for d, g in zip(datas, got):
            p.evals += 1
            exp = G.interpret(pe, d)
            p.sig(("o1", "+".join(kinds), g.cls if isinstance(g, G.Failure) else "ok"))
            if g == exp:
                continue
            if pattern is None:
                pattern = (G.late_store_pattern(pe), G.loopctl_else_pattern(pe))
            sig = "C03/mismatch/" + "+".join(kinds)
            why = ""
            if pattern[0] and g == G.interpret(pe, d, "late-store"):
                sig = "C03/late-store-hides-context"
                why = (f" [name(s) {pattern[0]} are read in a nested scope before a later unconditional "
                       "assignment in an enclosing scope]")
            elif pattern[1] and g == G.interpret(pe, d, "ctl-else"):
                sig = "C03/loopctl-else-after-break"
                why = " [for-else ran although iterations took place (break/continue)]"
            elif pattern[0] and pattern[1] and g == G.interpret(pe, d, ("late-store", "ctl-else")):
                sig = "C03/late-store-hides-context+loopctl-else-after-break"
            dd = {kk: v for kk, v in d.items() if v is not False}
            report(sig, lambda: {
                "msg": f"{src!r} on {dd}: rendered {g!r}, scoping rules give {exp!r}{why}",
                "source": src, "data": dd, "got": repr(g), "expected": repr(exp), "profile": profile,
                "script": script_for(src, d, exp, uses_tree=uses_tree)})
        p.sample({"source": src, "data": {kk: v for kk, v in datas[-1].items() if v is not False},
                  "output": repr(got[-1])})
        # ---- oracle 2: alpha-renaming
        gen = [e for e in MENU if applicable(e, ids)]
        col = [e for e in COLLIDE if applicable(e, ids)]
        chosen = []
        if gen:
            n = len(gen) if nren is None else min(nren, len(gen))
            step = 1 + (idx // len(gen)) % max(1, len(gen) - 1)
            j = idx % len(gen)
            for _ in range(n):
                if gen[j] not in chosen:
                    chosen.append(gen[j])
                j = (j + step) % len(gen)
        if alternate and col and chosen and idx % 2:
            chosen = []  # odd programs get the colliding renaming instead of the ordinary one
        if col and not (alternate and chosen):
            n = len(col) if ncol is None else min(ncol, len(col))
            for t in range(n):
                chosen.append(col[(idx + t) % len(col)])
        kws = None
        for name, mp in chosen:
            src2 = G.to_source(pe, mp)
            try:
                with cpu_alarm(30):
                    got2, cerr = run_real(jinja2.Environment, src2, datas, mp)
            except core.CaseTimeout:
                got2, cerr = None, "CaseTimeout: more than 30 s of CPU time"
            p.count("renamed_programs")
            if got2 is None:
                got2 = [G.Failure(cerr.split(":")[0])] * len(datas)
            for d, g, g2 in zip(datas, got, got2):
                p.evals += 1
                if g2 == g:
                    p.sig(("o2", name, g.cls if isinstance(g, G.Failure) else "ok"))
                    continue
                if kws is None:
                    kws = kwarg_names(pe)
                pairs = colliding_pairs(mp, ids)
                odd_kw = [mp.get(x, x) for x in kws if nfkc(mp.get(x, x)) != mp.get(x, x)]
                d2 = {kk: v for kk, v in G.render_data(d, mp).items() if kk != G.TREE}
                if odd_kw and isinstance(g2, G.Failure) and g2.cls == "TypeError":
                    sig = "C03/nfkc-kwarg"
                    why = f"keyword argument {odd_kw[0]!r} is not NFKC-normal and reaches the macro as {nfkc(odd_kw[0])!r}"
                elif pairs:
                    sig = "C03/nfkc-alias"
                    why = "distinct identifiers {%s,%s} are NFKC-equal and alias" % pairs[0]
                else:
                    sig = "C03/alias/" + name
                    why = "renaming changed the output"
                report(sig, lambda: {
                    "msg": f"{src2!r} on {d2}: rendered {g2!r}, but {src!r} renders {g!r} ({why})",
                    "source": src2, "data": d2, "got": repr(g2), "expected": repr(g), "original": src,
                    "renaming": name, "profile": profile,
                    "script": script_for(src2, d2, g, src0=src, uses_tree=uses_tree)})
    return p


# (profile, pool, max nodes, shards): each alphabet is enumerated completely up to its bound
# alternate=True: one renaming per program (ordinary / NFKC-colliding alternately);
# alternate=False: one ordinary and one colliding renaming per program
QUICK = [
    ("full", G.POOL2, 2, 16, True),
    ("macro5", G.POOL2, 5, 16, True),
    ("tiny2", G.POOL2, 3, 8, True),
    ("tiny3", G.POOL2, 3, 16, True),
    ("alias", G.POOL3, 3, 8, False),
    ("tiny", G.POOL2, 4, 64, True),
]
THOROUGH = [
    ("full", G.POOL2, 3, 512, True),
    ("mid", G.POOL2, 3, 128, True),
    ("core", G.POOL2, 4, 128, True),
    ("tiny", G.POOL2, 4, 64, True),
    ("tiny2", G.POOL2, 4, 64, True),
    ("tiny3", G.POOL2, 4, 128, True),
    ("deep1", G.POOL2, 5, 256, True),
    ("macro5", G.POOL2, 6, 128, True),
    ("alias", G.POOL3, 4, 128, False),
    ("alias5", G.POOL3, 5, 256, True),
]


def run(ctx: core.Ctx):
    core.import_all_jinja()
    _check_menus()
    ctx.rule = ("all programs (tuples of statement ASTs) with <= N statement nodes and nesting <= 3 over each label "
                "alphabet, simplest first; each is rendered on every assignment of its pool variables (absent / 7) and "
                "used flags; a case is one (program, data) pair under the original or a renamed spelling; distinct = "
                "distinct (set of statement kinds in the program, outcome class ok / exception class) for the reference "
                "oracle and (renaming, outcome class) for the metamorphic oracle")
    ctx.assumptions += [
        "R-stmt is written from docs/templates.rst (Assignments/Scoping Behavior, For, Macros, Call, Filters, Block "
        "Assignments, With Statement, Loop Controls); exceptions are compared by class name only",
        "CALIBRATED: macro parameters are local from the start of the call and defaults are evaluated left to right in "
        "the macro's scope (a default may read an earlier parameter; a later one is still undefined)",
        "CALIBRATED: `set ns.x = e` checks that ns is a namespace before evaluating e",
        "CALIBRATED: a macro accepts a call block iff `caller` is mentioned anywhere inside its body (nested macros included)",
        "CALIBRATED: macro call errors - too many positional arguments, an unknown keyword argument, or a call block "
        "for a macro that never mentions caller - raise TypeError; calling a macro that mentions caller without a "
        "call block gives an undefined caller (UndefinedError when called)",
        "arithmetic follows Python: str + 1 raises TypeError, True + 1 == 2; `x.c` on a non-tree value is undefined and "
        "iterating undefined yields nothing",
        "endless macro / loop recursion is expected to end in RecursionError (model: call depth > 40)",
        "break/continue are generated only at loop-body level (directly or inside if), never inside nested scopes of the loop body",
        "programs of alphabets closed under permuting the pool are represented by the member whose variables first occur in pool order",
    ]
    plan = QUICK if ctx.quick else THOROUGH
    nren, ncol = 1, 1
    shards = []
    bounds = {}
    for profile, pool, nmax, K, alternate in plan:
        en = G._enum(pool, profile, 3)
        for n in range(nmax + 1):  # built once here, shared by the forked workers
            en.stmts(n, G.TOP)
            if n < nmax:
                en.lists(n, G.TOP)
        shards += [(profile, pool, nmax, 0, k, K, nren, ncol, alternate) for k in range(K)]
        bounds[profile] = {"pool": list(pool), "max_nodes": nmax, "max_nesting": 3,
                           "labels": {kk: len(v) for kk, v in G.alphabet(pool, profile).items()}}
    # loop-variable visibility family (depth of the nest, readers, readers per level, shards)
    if ctx.quick:
        lv_plan = [(1, G.lv_readers(), 2, 2),
                   (2, G.lv_readers(attrs=("index",), extra=(("direct", "length"), ("macro", "length"))), 2, 14)]
    else:
        lv_plan = [(1, G.lv_readers(), 3, 16),
                   (2, G.lv_readers(), 2, 64),
                   (3, G.lv_readers(attrs=("index",), extra=(("direct", "length"), ("macro", "length"))), 1, 16)]
    for depth, readers, kmax, K in lv_plan:
        shards += [("loopvis", depth, readers, kmax, k, K) for k in range(K)]
    bounds["loopvis"] = [{"nest_depth": d, "readers": len(r), "max_readers_per_level": km} for d, r, km, _ in lv_plan]
    gc.collect()
    gc.freeze()  # the enumeration tables are permanent: keep the cyclic GC (and copy-on-write) off them
    ctx.pmap(shard, shards)
    ctx.cov["bounds"] = bounds
    ctx.cov["renamings_per_program"] = {"rule": "one per program, ordinary and NFKC-colliding alternately (alias profiles: one of each)",
                                        "menu": [n for n, _ in MENU], "colliding_menu": [n for n, _ in COLLIDE]}
    ctx.cov["loopvis"] = {kk: ctx.counters.get(kk, 0) for kk in
                          ("loopvis_programs", "loopvis_closure_only_level", "loopvis_closure_only_inside_direct")}
    for kk, v in ctx.cov["loopvis"].items():
        if not v:
            raise core.HarnessError(f"loopvis family is vacuous: {kk} == 0")
    ctx.cov["programs"] = ctx.counters.get("programs", 0)
    ctx.cov["renamed_programs"] = ctx.counters.get("renamed_programs", 0)
