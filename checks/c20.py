"""C20 — sandbox operator interception sees every intercepted operator application."""
from __future__ import annotations

import itertools
import operator
import os
import warnings

from vf import core
from vf import gen_expr as G

META = {
    "level": "exploration",
    "engine": "E1",
    "technique": "bounded-exhaustive enumeration of arithmetic expression shapes x template placements x subsets of "
    "intercepted operators, against the reference evaluator run with the same logging/perturbing hook",
    "text": "For every subset of the 7 binary and 2 unary interceptable operators (quick: sizes 0,1,2,9) a "
    "SandboxedEnvironment subclass intercepts exactly that subset; call_binop/call_unop log (operator, operands) and "
    "perturb the result (+1000 / +0.25 / +'!'), so an application that is folded at compile time or compiled to the "
    "native operator shows up as a missing log entry and a different output. Every arithmetic shape of depth <= 2 over "
    "the 9 operators, filled with constants, variables and both mixtures, and every operator applied to every ordered pair "
    "of a 10-element menu of literal dicts/lists/tuples/format strings/scalars, is placed in output, filter argument, macro "
    "default, loop filter, set and if-test position; the hook log (in evaluation order) and the rendered text must equal "
    "what the reference evaluator produces with the same hook; operators outside the subset must never be logged.",
    "note": "Environments come in two flavours (hook delegating to the stock operator tables / hook computing the result "
    "itself with the intercepted operators removed from binop_table/unop_table); templates are built from source and, for "
    "shapes with constant leaves, also from a node tree parsed by a plain non-sandboxed Environment (thorough, subsets of size 0,1,2,9: "
    "also a tree with no environment attached, and both flavours on every case). Bounded: depth <= 2, 4 leaf vectors, 2 data assignments (ints; a string for x), 6 placements (quick: one "
    "placement per template in rotation, thorough: all); the one shape with three `**` is excluded. Trusts Python's "
    "operators on ints/floats/strings.",
    "design_ref": "DESIGN.md §4 C20",
}

BINOPS = ("+", "-", "*", "/", "//", "**", "%")
UNOPS = ("+", "-")
ALL_OPS = tuple("b" + o for o in BINOPS) + tuple("u" + o for o in UNOPS)
FORMS9 = [G.FORM_BY_NAME["bin:" + o] for o in BINOPS] + [G.FORM_BY_NAME["un:+"], G.FORM_BY_NAME["un:-"]]
SPACE = G.ShapeSpace([FORMS9, FORMS9])
LEAF_VECS = {
    "const": [G.Int(2), G.Int(3), G.Int(1), G.Int(2)],
    "var": [G.Name("x"), G.Name("y"), G.Name("y"), G.Name("x")],
    "cv": [G.Int(2), G.Name("x"), G.Int(3), G.Name("y")],
    "vc": [G.Name("y"), G.Int(3), G.Name("x"), G.Int(0)],
}
DATA = [{"x": 5, "y": 2}, {"x": "ab", "y": 2}]
# literal containers (and format strings) as operands: every binop on every ordered pair, every unop on every element
LIT_MENU = [G.Str("%(n)s|%(m)s"), G.Str("%s"), G.Dict((G.Str("n"), G.Name("x")), (G.Str("m"), G.Int(2))),
            G.Dict((G.Str("n"), G.Int(1)), (G.Str("m"), G.Int(2))), G.List(G.Int(1), G.Name("x")), G.List(G.Int(1), G.Int(2)),
            G.Tuple(G.Int(2), G.Name("x")), G.Tuple(G.Int(1)), G.Int(2), G.Name("x")]


def literal_operand_cases():
    out = []
    for op in BINOPS:
        for l in LIT_MENU:
            for r in LIT_MENU:
                out.append(G.Bin(op, l, r))
    for op in UNOPS:
        for a in LIT_MENU:
            out.append(G.Un(op, a))
    return out


LIT_CASES = literal_operand_cases()
PLACEMENTS = ("output", "filterarg", "macrodefault", "loopfilter", "set", "iftest")


def template_for(placement, src):
    if placement == "output":
        return "{{ " + src + " }}"
    if placement == "filterarg":
        return "{{ u|default(" + src + ") }}"
    if placement == "macrodefault":
        return "{% macro m(a=" + src + ") %}[{{ a }}]{% endmacro %}{{ m() }}"
    if placement == "loopfilter":
        return "{% for i in [1, 2] if " + src + " %}<{{ i }}>{% else %}none{% endfor %}"
    if placement == "set":
        return "{% set v = " + src + " %}{{ v }}"
    if placement == "iftest":
        return "{% if " + src + " %}T{% else %}F{% endif %}"
    raise AssertionError(placement)


def perturb(r):
    if isinstance(r, bool):
        return r
    if isinstance(r, int):
        return r + 1000
    if isinstance(r, (float, complex)):
        return r + 0.25
    if isinstance(r, str):
        return r + "!"
    if isinstance(r, list):
        return r + ["!"]
    if isinstance(r, tuple):
        return r + ("!",)
    return r


def subsets(quick):
    sizes = (0, 1, 2, 9) if quick else range(10)
    out = []
    for k in sizes:
        out += [frozenset(c) for c in itertools.combinations(ALL_OPS, k)]
    return out


_PY_BIN = {"+": operator.add, "-": operator.sub, "*": operator.mul, "/": operator.truediv, "//": operator.floordiv,
           "**": operator.pow, "%": operator.mod}
_PY_UN = {"+": operator.pos, "-": operator.neg}


def make_env_class(subset, tables="stock"):
    """tables="stock": the hook delegates to the inherited call_binop/call_unop (binop_table/unop_table);
    tables="removed": the hook computes the result itself and the intercepted operators have NO table entry."""
    from jinja2.sandbox import SandboxedEnvironment

    class LoggingSandbox(SandboxedEnvironment):
        intercepted_binops = frozenset(o[1:] for o in subset if o[0] == "b")
        intercepted_unops = frozenset(o[1:] for o in subset if o[0] == "u")
        log = None
        table_mode = tables

        def __init__(self, *a, **k):
            SandboxedEnvironment.__init__(self, *a, **k)
            if tables == "removed":
                for o in self.intercepted_binops:
                    del self.binop_table[o]
                for o in self.intercepted_unops:
                    del self.unop_table[o]

        def call_binop(self, context, operator, left, right):
            self.log.append(("b" + operator, G.canon(left), G.canon(right)))
            if tables == "removed":
                return perturb(_PY_BIN[operator](left, right))
            return perturb(SandboxedEnvironment.call_binop(self, context, operator, left, right))

        def call_unop(self, context, operator, arg):
            self.log.append(("u" + operator, G.canon(arg)))
            if tables == "removed":
                return perturb(_PY_UN[operator](arg))
            return perturb(SandboxedEnvironment.call_unop(self, context, operator, arg))

    return LoggingSandbox


def expected(ast, subset, data):
    """-> (('ok', value) | ('exc', name), log) from R-expr with the same hook."""
    log = []

    def hb(op, l, r):
        log.append(("b" + op, G.canon(l), G.canon(r)))
        return perturb(G._BINOPS[op](l, r))

    def hu(op, v):
        log.append(("u" + op, G.canon(v)))
        return perturb(-v if op == "-" else +v)

    try:
        v = G.Ev(data, intercepted=subset, hook_bin=hb, hook_un=hu).ev(ast)
        return ("ok", v), log
    except (G.TooBig, G.Unspecified):
        return ("skip", None), log
    except Exception as e:  # noqa: BLE001
        return ("exc", G.exc_name(e)), log


def expected_render(placement, res, log):
    """what the placement shows of the value, and how often the expression is evaluated."""
    if res[0] == "exc":
        return ("exc", res[1]), log
    v = res[1]
    if placement in ("output", "filterarg", "set"):
        return ("ok", str(v)), log
    if placement == "macrodefault":
        return ("ok", "[" + str(v) + "]"), log
    if placement == "iftest":
        return ("ok", "T" if v else "F"), log
    if placement == "loopfilter":
        return ("ok", "<1><2>" if v else "none"), log + log
    raise AssertionError(placement)


def script_for(subset, tsrc, data, tables="stock", route="source"):
    make = "E().from_string(src)" if route == "source" else (
        "E().from_string(jinja2.Environment().parse(src))" if route == "foreign-ast" else
        "E().from_string(detached(jinja2.Environment().parse(src)))")
    drop = "" if tables == "stock" else (
        "    def __init__(self, *a, **k):\n        super().__init__(*a, **k)\n"
        "        for o in self.intercepted_binops: del self.binop_table[o]\n"
        "        for o in self.intercepted_unops: del self.unop_table[o]\n")
    calc_b = "super().call_binop(context, operator, left, right)" if tables == "stock" else "BIN[operator](left, right)"
    calc_u = "super().call_unop(context, operator, arg)" if tables == "stock" else "UN[operator](arg)"
    return (
        "import jinja2, operator as op\n"
        "BIN = {'+': op.add, '-': op.sub, '*': op.mul, '/': op.truediv, '//': op.floordiv, '**': op.pow, '%': op.mod}\n"
        "UN = {'+': op.pos, '-': op.neg}\n"
        "def detached(tree):\n    tree.set_environment(None)\n    return tree\n"
        "from jinja2.sandbox import SandboxedEnvironment\n"
        "class E(SandboxedEnvironment):\n"
        f"    intercepted_binops = frozenset({sorted(o[1:] for o in subset if o[0] == 'b')!r})\n"
        f"    intercepted_unops = frozenset({sorted(o[1:] for o in subset if o[0] == 'u')!r})\n"
        + drop +
        "    def call_binop(self, context, operator, left, right):\n"
        "        print('  call_binop', operator, repr(left), repr(right))\n"
        f"        return {calc_b}\n"
        "    def call_unop(self, context, operator, arg):\n"
        "        print('  call_unop', operator, repr(arg))\n"
        f"        return {calc_u}\n"
        f"src = {tsrc!r}\nprint(src)\nprint('->', repr({make}.render(**{data!r})))\n"
    )


_CACHE = {}


def guarded(fn, first=15, second=180):
    """per-case alarm; a stalled machine is not a finding, so one retry with a long limit."""
    try:
        with core.alarm(first):
            return fn()
    except core.CaseTimeout:
        with core.alarm(second):
            return fn()


def build(env, tsrc, route):
    """route "source": env.from_string(source).  "foreign-ast": the source is parsed by a plain, non-sandboxed
    Environment and the node tree is handed to the intercepting sandbox; "detached-ast": same, with no environment
    attached to the nodes."""
    if route == "source":
        return env.from_string(tsrc)
    import jinja2

    tree = jinja2.Environment().parse(tsrc)
    if route == "detached-ast":
        tree.set_environment(None)
    return env.from_string(tree)


def compiled(cls, tsrc, route="source"):
    """one fresh environment + compiled template per template source (reused for the data assignments)."""
    hit = _CACHE.get((cls, tsrc, route))
    if hit is None:
        if len(_CACHE) > 32:
            _CACHE.clear()
        env = cls()
        try:
            hit = (env, guarded(lambda: build(env, tsrc, route)), None)
        except core.CaseTimeout:
            hit = (env, None, "CaseTimeout")
        except Exception as e:  # noqa: BLE001
            hit = (env, None, type(e).__name__)
        _CACHE[(cls, tsrc, route)] = hit
    return hit


def judge(cls, subset, ast, placement, di, p=None, route="source"):
    """run one (expression, placement, data) through jinja2 and the reference;
    -> None (agree / undefined by the model) or (kind, message)."""
    data = DATA[di]
    res, elog = expected(ast, subset, data)
    if res[0] == "skip":
        if p is not None:
            p.count("skipped")
        return None
    want, wlog = expected_render(placement, res, elog)
    tsrc = template_for(placement, G.to_src(ast))
    env, tmpl, cerr = compiled(cls, tsrc, route)
    env.log = glog = []
    if tmpl is None:
        got = ("exc", cerr)
    else:
        def once():
            del glog[:]
            return tmpl.render(**data)

        try:
            got = ("ok", guarded(once))
        except core.CaseTimeout:
            got = ("exc", "CaseTimeout")
        except Exception as e:  # noqa: BLE001
            got = ("exc", type(e).__name__)
    if p is not None:
        p.evals += 1
        if wlog:
            p.sig((placement, tuple(sorted({e[0] for e in wlog})), type(res[1]).__name__ if want[0] == "ok" else want[1]))
    kind = None
    gops = [e[0] for e in glog]
    wops = [e[0] for e in wlog]
    if gops != wops:
        stray = [o for o in gops if o not in subset]
        if stray:
            kind = "spurious/" + stray[0]
        else:
            missing = [o for o in wops if wops.count(o) > gops.count(o)]
            kind = ("unrouted/" + missing[0]) if missing else "order"
    elif glog != wlog:
        kind = "operands/" + next(g[0] for g, w in zip(glog, wlog) if g != w)
    elif got[0] != want[0] or (got[0] == "exc" and got[1] != want[1]):
        kind = "exception"
    elif got != want:
        kind = "output"
    if kind is None:
        return None
    return kind, (f"intercepted={sorted(subset)} tables={cls.table_mode} route={route} {tsrc!r} data={data!r}: log {glog!r} result {got!r}; "
                  f"reference log {wlog!r} result {want!r}"), tsrc


def root_op(ast):
    return ast[1] if ast[0] in ("bin", "un") else ast[0]


def run_case(p, classes, subset, ast, modes, routes, placements):
    for mode in modes:
        cls = classes[mode]
        for placement in placements:
            for route in routes:
                for di in range(len(DATA)):
                    bad = judge(cls, subset, ast, placement, di, p, route)
                    if bad is None:
                        continue
                    # signature from the smallest sub-expression that still disagrees in the same placement
                    small = ast
                    while True:
                        for _, child in G.subnodes(small):
                            cb = judge(cls, subset, child, placement, di, None, route)
                            if cb is not None and cb[0].split("/")[0] == bad[0].split("/")[0]:
                                small, bad = child, cb
                                break
                        else:
                            break
                    kind, msg, tsrc = bad
                    tag = ("" if mode == "stock" else "/tables-removed") + ("" if route == "source" else "/" + route)
                    p.violation(f"C20/{kind}/{placement}/{root_op(small)}{tag}", {
                        "msg": msg + f"  (found in {G.to_src(ast)!r})", "subset": sorted(subset), "template": tsrc,
                        "data": DATA[di], "tables": mode, "route": route,
                        "script": script_for(subset, tsrc, DATA[di], mode, route)})


def shard(arg):
    quick, subset_idx, subset = arg
    warnings.filterwarnings("ignore", category=SyntaxWarning)
    p = core.Part()
    classes = {"stock": make_env_class(subset, "stock"), "removed": make_env_class(subset, "removed")}
    n = SPACE.count()
    case = subset_idx
    for i in range(n):
        shape = SPACE.unrank(i)
        if G.shape_pows(shape) > 2:
            p.count("excluded_three_pow")
            continue
        for vname, vec in LEAF_VECS.items():
            ast = G.fill(shape, vec)
            case += 1
            # the two table modes alternate over the cases (thorough: both for subsets of size 0,1,2,9);
            # quick: one placement per case in rotation, thorough: all placements
            rich = (not quick) and len(subset) in (0, 1, 2, 9)
            modes = ("stock", "removed") if rich else (("stock", "removed")[case % 2],)
            # templates whose expression has only constant leaves are additionally built from a node tree that was
            # parsed by a plain Environment; for the small/full subsets in thorough also the mixed shapes, and a tree
            # with no environment attached
            routes = ["source"]
            if (vname == "const" and (quick or rich or case % 2 == 0)) or (rich and vname in ("cv", "vc")):
                routes.append("foreign-ast")
            if rich and vname == "const":
                routes.append("detached-ast")
            run_case(p, classes, subset, ast, modes, routes, (PLACEMENTS[case % 6],) if quick else PLACEMENTS)
            p.sample({"intercepted": sorted(subset), "expr": G.to_src(ast),
                      "template": template_for(PLACEMENTS[case % 6], G.to_src(ast))}, cap=1)
    # literal containers as operands (one operator application each)
    for j, ast in enumerate(LIT_CASES):
        case += 1
        rich = (not quick) and len(subset) in (0, 1, 2, 9)
        modes = ("stock", "removed") if rich else (("stock", "removed")[case % 2],)
        placements = PLACEMENTS if rich else ((PLACEMENTS[case % 6], PLACEMENTS[(case + 3) % 6]) if not quick else (PLACEMENTS[case % 6],))
        run_case(p, classes, subset, ast, modes, ["source"], placements)
        p.count("literal_operand_cases")
    p.count("subsets")
    return p


def run(ctx: core.Ctx):
    core.import_all_jinja()
    ctx.rule = ("case = (intercepted subset, arithmetic shape of depth<=2 over 9 operators, leaf vector of constants/"
                "variables, placement, data); non-trivial = the reference routes at least one application through the hook; "
                "distinct = (placement, set of logged operators, result type or exception class)")
    ctx.assumptions += ["the hook perturbs results (+1000 for ints, +0.25 for floats, +'!' for strings) identically in the "
                        "reference and in the SandboxedEnvironment subclass",
                        "exceptions compared by class name; log operands compared by (type, value)"]
    subs = subsets(ctx.quick)
    if os.environ.get("VERIF_SMOKE"):
        subs = subs[::int(os.environ["VERIF_SMOKE"])]
        ctx.cap_hit("VERIF_SMOKE: only every n-th subset was run")
    ctx.pmap(shard, [(ctx.quick, i, s) for i, s in enumerate(subs)])
    ctx.cov["bounds"] = {"subsets": len(subs), "subset_sizes": "0,1,2,9" if ctx.quick else "all 512",
                         "shapes": SPACE.count(), "leaf_vectors": list(LEAF_VECS), "data_assignments": len(DATA),
                         "placements": list(PLACEMENTS), "literal_operand_expressions": len(LIT_CASES), "placements_per_template": "1 (rotating)" if ctx.quick else "6",
                         "table_modes": "stock / intercepted entries removed, alternating over the cases"
                         + ("" if ctx.quick else "; both for subsets of size 0,1,2,9"),
                         "build_routes": "source; + AST parsed by a plain Environment for constant-leaf shapes"
                         + ("" if ctx.quick else " (every second one for subsets of size 3..8); for subsets of size "
                                                 "0,1,2,9 also mixed shapes and a detached AST")}
