"""C02 — compiled expressions evaluate as the documented expression semantics."""
from __future__ import annotations

import itertools
import os
import sys
import time
import warnings

from vf import core
from vf import gen_expr as G

META = {
    "level": "exploration",
    "engine": "E1",
    "technique": "bounded-exhaustive enumeration of expression ASTs of a private mini-language (flat operator strings over "
    "all operator tuples, all one-operator expressions over the atom menu, all operator shapes of depth 2/3) printed with "
    "minimal parentheses and evaluated by jinja2, against an independent reference evaluator (R-expr)",
    "text": "Every enumerated expression is printed to Jinja source with the fewest parentheses the precedence table allows, "
    "compiled by the real jinja2 (compile_expression and a `{{ }}` template) in default / optimized=False / async / "
    "sandboxed environments and evaluated on three data assignments; value (type and value) and rendered text must equal "
    "what the reference evaluator computes from the AST, or both must raise the same exception class. Flat operator "
    "strings `a op b op c (op d)` cover every operator tuple with operand tuples selected so that different parse trees "
    "give different values, which decides relative precedence and associativity of every operator pair.",
    "note": "Bounded: operator tuples of length <=3 over 18 operators (+ unary/not prefixed variants), length 4 over 9 operators "
    "(thorough: all 18); every operator form (186) with all atom tuples at depth 1 (21 atoms; 8 for three-hole forms); "
    "depth-2 shapes (thorough also depth-3 on a 7-operator sub-grammar) are filled from six fixed leaf vectors (two of them "
    "mixing constants and variables) rather than from all atom tuples; trees with more than two `**` are excluded and "
    "numeric literals in `**` trees are <=3 so that no re-association can blow up (per-case alarm as backstop, one retry). "
    "quick rotates the four environments over the cases, thorough runs all four except on the largest shape spaces. The "
    "reference evaluator trusts Python's operators on Python values and markupsafe. Rules the docs are silent about are "
    "calibrated from the pinned tree (listed in assumptions). Under enable_async the value channel is `{{ rec(expr) }}` "
    "driven without an event loop, plus a small compile_expression probe.",
    "design_ref": "DESIGN.md §4 C02, §3 E1/R-expr",
}

ENVS = ("default", "noopt", "async", "sandbox")
FLAT_OPS = G.ARITH_OPS + ("~",) + G.CMP_OPS + ("and", "or")
FLAT_OPS_SMALL = ("+", "*", "**", "~", "<", "==", "in", "and", "or")
LEVEL_NAME = {G.L_OR: "or", G.L_AND: "and", G.L_CMP: "cmp", G.L_ADD: "add", G.L_CAT: "cat", G.L_MUL: "mul", G.L_POW: "pow"}


def make_env(kind, rec=None):
    import jinja2
    from jinja2.sandbox import SandboxedEnvironment

    if kind == "default":
        env = jinja2.Environment()
    elif kind == "noopt":
        env = jinja2.Environment(optimized=False)
    elif kind == "async":
        env = jinja2.Environment(enable_async=True)
    elif kind == "sandbox":
        env = SandboxedEnvironment()
    else:
        raise AssertionError(kind)
    if rec is not None:
        env.globals["rec"] = rec
    return env


ENV_CODE = {
    "default": "jinja2.Environment()",
    "noopt": "jinja2.Environment(optimized=False)",
    "async": "jinja2.Environment(enable_async=True)",
    "sandbox": "SandboxedEnvironment()",
}


def drive(coro):
    """run a coroutine that never really suspends (no event loop involved)."""
    try:
        coro.send(None)
    except StopIteration as e:
        return e.value
    coro.close()
    raise RuntimeError("template coroutine suspended")


def jinja_outcomes(kind, src, datas, limit=20):
    """-> [(value_outcome, render_outcome)] per data assignment, from the real jinja2."""
    box = []

    def rec(v):
        box.append(v)
        return ""

    out = []
    with core.alarm(limit):
        try:
            env = make_env(kind, rec if kind == "async" else None)
            if kind == "async":
                vexpr = env.from_string("{{ rec(" + src + ") }}")
            else:
                vexpr = env.compile_expression(src, undefined_to_none=False)
            tmpl = env.from_string("{{ " + src + " }}")
        except Exception as e:  # noqa: BLE001
            o = ("exc", type(e).__name__)
            return [(o, o) for _ in datas]
        for data in datas:
            try:
                if kind == "async":
                    del box[:]
                    drive(vexpr.render_async(**data))
                    v = box[0]
                else:
                    v = vexpr(**data)
                vo = ("ok", G.canon(v))
            except Exception as e:  # noqa: BLE001
                vo = ("exc", type(e).__name__)
            try:
                if kind == "async":
                    ro = ("ok", G.norm_text(drive(tmpl.render_async(**data))))
                else:
                    ro = ("ok", G.norm_text(tmpl.render(**data)))
            except Exception as e:  # noqa: BLE001
                ro = ("exc", type(e).__name__)
            out.append((vo, ro))
    return out


def _kind(o):
    if o[0] == "exc":
        return o[1]
    if o[0] == "ok":
        return o[1][0] if isinstance(o[1], tuple) else "text"
    return o[0]


def _cls(label):
    f = G.FORM_BY_NAME.get(label)
    return f.klass if f is not None else "flat:" + label


def script_for(kind, src, di):
    return (
        "import jinja2\nfrom jinja2.sandbox import SandboxedEnvironment\nfrom vf import gen_expr as G\n"
        f"src = {src!r}\nenv = {ENV_CODE[kind]}\ndata = G.make_data({di}) if {di} >= 0 else {{}}\n"
        "print('source      :', src)\n"
        "try:\n    print('{{ src }}   ->', repr(env.from_string('{{ ' + src + ' }}').render(**data)))\n"
        "except Exception as e:\n    print('{{ src }}   raises', type(e).__name__, e)\n"
        "try:\n    print('compile_expression ->', repr(env.compile_expression(src, undefined_to_none=False)(**data)))\n"
        "except Exception as e:\n    print('compile_expression raises', type(e).__name__, e)\n"
    )


def compare_one(ast, kind, di):
    """-> None if jinja2 agrees with the reference on (ast, env kind, data), else
    (channel, expected, got)."""
    ref = G.reference(ast, G.make_data(di) if di >= 0 else {}, sandbox=kind == "sandbox")
    if ref[0] == "skip":
        return None
    (vo, ro), = jinja_outcomes(kind, G.to_src(ast), [G.make_data(di) if di >= 0 else {}])
    if ref[0] == "exc":
        ev = er = ("exc", ref[1])
    else:
        ev, er = ("ok", ref[1]), ("ok", ref[2])
    if vo != ev:
        return ("value", ev, vo)
    if ro != er:
        return ("render", er, ro)
    return None


def minimize(ast, kind, di, info):
    """descend into the first violating sub-expression until none violates on
    its own; the signature is taken from that minimal expression."""
    cur = ast
    while True:
        for _, child in G.subnodes(cur):
            try:
                ci = compare_one(child, kind, di)
            except core.CaseTimeout:
                ci = None
            if ci is not None:
                cur, info = child, ci
                break
        else:
            return cur, info


def root_class(ast):
    k = ast[0]
    if k in ("bin", "un"):
        return k + ast[1]
    if k == "filter" or k == "test":
        return k + ":" + ast[2]
    if k == "cmp":
        return "chain" if len(ast[2]) > 1 else "cmp"
    if k in ("and", "or"):
        return "logic"
    if k in ("not",):
        return "un"
    if k in ("list", "tuple", "dict"):
        return "lit"
    if k in ("int", "float", "str", "true", "false", "none", "name"):
        return "atom"
    return k


def check_case(p, section, label, ast, src, kind, data_ids):
    """evaluate one source in one environment on the given data assignments."""
    datas = [G.make_data(i) if i >= 0 else {} for i in data_ids]
    refs = [G.reference(ast, G.make_data(i) if i >= 0 else {}, sandbox=kind == "sandbox") for i in data_ids]
    if all(r[0] == "skip" for r in refs):
        p.count("skipped_unspecified", len(refs))
        return
    try:
        try:
            got = jinja_outcomes(kind, src, datas)
        except core.CaseTimeout:  # a stalled machine is not a finding: one retry with a long limit
            p.count("retried_after_timeout")
            got = jinja_outcomes(kind, src, [G.make_data(i) if i >= 0 else {} for i in data_ids], limit=180)
    except core.CaseTimeout:
        p.evals += 1
        p.violation(f"C02/hang/{root_class(ast)}", {"msg": f"[{kind}] {src!r}: no answer within 20 s and, retried, within 180 s",
                                                    "script": script_for(kind, src, data_ids[0])})
        return
    for di, ref, (vo, ro) in zip(data_ids, refs, got):
        if ref[0] == "skip":
            p.count("skipped_unspecified")
            continue
        p.evals += 1
        if ref[0] == "exc":
            ev = er = ("exc", ref[1])
        else:
            ev, er = ("ok", ref[1]), ("ok", ref[2])
        p.sig((label.split(":")[0], _kind(ref)))
        if ref[0] == "ok":
            p.count("evaluated_to_value")
        if vo != ev or ro != er:
            info = ("value", ev, vo) if vo != ev else ("render", er, ro)
            small, (ch, exp, g) = minimize(ast, kind, di, info)
            ssrc = G.to_src(small)
            p.violation(f"C02/{ch}/{root_class(small)}/{_kind(exp)}->{_kind(g)}", {
                "msg": f"[{kind}, data {di}] {ssrc!r}: {ch} {g!r}, reference {exp!r}  (found in {src!r}, section {section})",
                "env": kind, "source": ssrc, "found_in": src, "data": di, "channel": ch, "got": repr(g),
                "expected": repr(exp), "form": label, "section": section, "script": script_for(kind, ssrc, di)})


def envs_for(quick, n):
    return (ENVS[n % 4],) if quick else ENVS


# ------------------------------------------------------------------ flat strings

MENU3 = [G.Int(2), G.Int(3), G.Int(1), G.Int(0), G.Str("ab"), G.List(G.Int(1), G.TRUE)]
MENU4 = [G.Int(2), G.Int(3), G.Str("ab")]
MENU_POW3 = [G.Int(2), G.Int(1)]
_PH = [G.Name("p%d" % i) for i in range(5)]


def _fast(ev, tree):
    try:
        v = ev.ev(tree)
        return (type(v).__name__, repr(v))
    except (G.TooBig, G.Unspecified):
        return ("skip", "")
    except Exception as e:  # noqa: BLE001
        return ("exc", type(e).__name__)


def pick_operands(ops, k):
    """the k operand tuples (from a fixed candidate list: all tuples over a
    small atom menu) on which the parse trees of `a ops[0] b ops[1] c ...` are
    told apart best: first those where the value of the expected tree is
    produced by no other bracketing, then by number of distinct outcomes."""
    n = len(ops) + 1
    npow = sum(1 for o in ops if o == "**")
    menu = MENU_POW3 if npow >= 3 else (MENU3 if n <= 3 else MENU4)
    toks = [("atom", _PH[0])]
    for i, o in enumerate(ops):
        toks += [("op", o), ("atom", _PH[i + 1])]
    want_tree = G.parse_flat(toks)
    trees = G.all_bracketings(_PH[:n], list(ops))
    vals = [G.Ev({}).ev(a) for a in menu]
    in_trees = 1 if want_tree in trees else 0  # comparison chains are not among the binary bracketings
    scored = []
    for idx, cand in enumerate(itertools.product(range(len(menu)), repeat=n)):
        ev = G.Ev({"p%d" % i: vals[c] for i, c in enumerate(cand)})
        want = _fast(ev, want_tree)
        if want[0] == "skip":
            continue
        outs = [_fast(ev, t) for t in trees]
        unique = sum(1 for o in outs if o == want) == in_trees
        scored.append((-(2 if unique else 0) - (0 if want[0] == "exc" else 1), -len(set(outs)), idx, cand))
    scored.sort()
    full = 0
    if scored:
        full = (1 if scored[0][0] <= -2 else 0) + (2 if -scored[0][1] == len(trees) else 0)
    return [tuple(menu[c] for c in s[3]) for s in scored[:k]], full


def flat_variants(ops, cand, prefixes):
    base = [("atom", cand[0])]
    for o, a in zip(ops, cand[1:]):
        base += [("op", o), ("atom", a)]
    yield "", base
    if not prefixes:
        return
    yield "not", [("pre", "not")] + base
    pos = 0
    for i, t in enumerate(base):
        if t[0] == "atom":
            if t[1][0] in ("int", "float"):
                yield "neg%d" % pos, base[:i] + [("pre", "-")] + base[i:]
            pos += 1


def flat_shard(arg):
    quick, n_ops, first, opset, k, prefixes = arg
    p = core.Part()
    counter = 0
    for rest in itertools.product(opset, repeat=n_ops - 1):
        ops = (first,) + rest
        cands, full = pick_operands(ops, k)
        p.count("flat_operator_tuples")
        if full & 1:
            p.count("flat_tuples_expected_tree_value_unique")
        if full & 2:
            p.count("flat_tuples_all_parse_trees_distinct")
        label = ".".join(sorted({LEVEL_NAME[G.FLAT_LEVEL[o]] for o in ops}))
        for cand in cands:
            for vname, toks in flat_variants(ops, cand, prefixes):
                ast = G.parse_flat(toks)
                src = G.flat_src(toks)
                if G.to_src(ast) != src:
                    raise core.HarnessError(f"printer and Pratt parser disagree: {src!r} vs {G.to_src(ast)!r}")
                counter += 1
                for kind in envs_for(quick, counter):
                    check_case(p, "flat", label + ("+" + vname.rstrip("0123") if vname else ""), ast, src, kind, (-1,))
                p.sample({"flat": src, "expected": repr(G.reference(ast, {})[:2])}, cap=1)
    return p


# ------------------------------------------------------------------ depth 1: every form x every atom tuple

def depth1_shard(arg):
    quick, form_idx = arg
    p = core.Part()
    f = G.FORMS[form_idx]
    atoms = G.ATOMS if f.arity <= 2 else G.ATOMS_SMALL
    n = 0
    for tup in itertools.product(atoms, repeat=f.arity):
        ast = f.build(*tup)
        if f.pow:
            ast = G.clamp_for_pow(ast, 3)
        src = G.to_src(ast)
        n += 1
        for kind in envs_for(quick, n + form_idx):
            check_case(p, "d1", f.name, ast, src, kind, (0, 1, 2))
        p.sample({"expr": src, "form": f.name}, cap=1)
    p.count("depth1_sources", n)
    return p


# ------------------------------------------------------------------ depth 2/3 shapes x leaf vectors

SPACES = {}


def space(name):
    if name not in SPACES:
        SPACES[name] = {
            "d2-quick": lambda: G.ShapeSpace([G.FORMS_FEW_CHAINS, G.FORMS_REP_SMALL], 2),
            "d2-all-x-rep": lambda: G.ShapeSpace([G.FORMS, G.FORMS_REP], 2),
            "d2-rep-x-all": lambda: G.ShapeSpace([G.FORMS_REP_SMALL, G.FORMS], 2),
            "d3-ops": lambda: G.ShapeSpace([G.FORMS_OPS3, G.FORMS_OPS3, G.FORMS_OPS3], None),
            "d2-ops": lambda: G.ShapeSpace([G.FORMS_OPS, G.FORMS_OPS], None),
        }[name]()
    return SPACES[name]


def shape_shard(arg):
    quick, sname, lo, hi, vec_ids, all_envs, rotate_vecs = arg
    p = core.Part()
    sp = space(sname)
    for i in range(lo, hi):
        shape = sp.unrank(i)
        if G.shape_pows(shape) > 2:
            p.count("excluded_more_than_two_pow")
            continue
        has_pow = G.shape_pows(shape) > 0
        label = shape[0].name
        if rotate_vecs == "mixed2+1":
            use = G.MIXED_VECTORS + (vec_ids[i % len(vec_ids)],)
        elif rotate_vecs == "mixed1+1":
            use = (G.MIXED_VECTORS[i % 2], vec_ids[i % len(vec_ids)])
        elif rotate_vecs == "1":
            use = (vec_ids[i % len(vec_ids)],)
        else:
            assert rotate_vecs == "all", rotate_vecs
            use = vec_ids
        for vi in use:
            ast = G.fill(shape, G.LEAF_VECTORS[vi])
            if has_pow:
                ast = G.clamp_for_pow(ast, 3 if sname.startswith("d2") else 2)
            src = G.to_src(ast)
            for kind in (ENVS if all_envs else (ENVS[(i + vi) % 4],)):
                check_case(p, sname.split("-")[0], label, ast, src, kind, (0, 1, 2))
            p.sample({"expr": src, "shape": G.shape_name(shape), "space": sname}, cap=1)
        p.count("shapes_" + sname)
    return p


def ranges(n, size):
    return [(a, min(n, a + size)) for a in range(0, n, size)]


# ------------------------------------------------------------------ attribute vs item syntax on CONSTANT containers

def _attrsyntax():
    I, S = G.Int, G.Str
    targets = [
        G.Dict((S("items"), I(5)), (S("keys"), I(1)), (S("values"), I(3)), (S("get"), I(7))),
        G.Dict((S("items"), S("it")), (S("k"), S("dk"))),
        G.Dict((S("k"), I(1))),
        G.Dict(),
        G.List(I(1), I(2)), G.Tuple(I(1), I(2)), S("ab"), I(7), G.NONE,
        G.Name("d"), G.Name("o"), G.Name("u"), G.Name("du"), G.Dict((S("_id"), I(7)), (S("__x"), I(8))),
        G.List(G.Dict((S("items"), I(5)), (S("keys"), I(1)))),  # reached through [0] below
    ]
    names = ("items", "keys", "values", "get", "k", "z", "index", "count", "upper", "real", "_id", "__x", "_p", "_i")
    access = [
        ("attr", lambda t, n: G.Attr(t, n)),
        ("item", lambda t, n: G.Item(t, S(n))),
        ("attr()", lambda t, n: G.Call(G.Attr(t, n))),
        ("attr(k)", lambda t, n: G.Call(G.Attr(t, n), (S("k"),))),
        ("item()", lambda t, n: G.Call(G.Item(t, S(n)))),
        ("|attr", lambda t, n: G.Filter(t, "attr", (S(n),))),
        ("|attr()", lambda t, n: G.Call(G.Filter(t, "attr", (S(n),)))),
    ]
    wraps = [
        ("id", lambda e: e), ("callable", lambda e: G.Test(e, "callable")), ("defined", lambda e: G.Test(e, "defined")),
        ("==5", lambda e: G.Cmp(e, ("==", I(5)))), ("~", lambda e: G.Bin("~", e, S(""))), ("|list", lambda e: G.Filter(e, "list")),
        ("|default", lambda e: G.Filter(e, "default", (S("z"),))), ("[e]", lambda e: G.List(e)), ("if", lambda e: G.Cond(G.TRUE, e, I(0))),
        ("+1", lambda e: G.Bin("+", e, I(1))),
    ]
    return targets, names, access, wraps


ATTRSYNTAX = _attrsyntax()


def attrsyntax_shard(arg):
    """`t.name`, `t["name"]`, `t.name()`, `t|attr("name")` ... on constant dict/list/tuple/str literals whose keys collide
    with attribute names, bare (all four environments) and under one consumer (quick: environments in rotation)."""
    quick, ti = arg
    p = core.Part()
    targets, names, access, wraps = ATTRSYNTAX
    c = 0
    t = targets[ti]
    if ti == len(targets) - 1:
        t = G.Item(t, G.Int(0))
    for n in names:
        for aname, acc in access:
            for wname, w in wraps:
                ast = w(acc(t, n))
                if wname == "~" and aname in ("attr", "item", "|attr"):
                    continue  # would stringify a bound method together with its address inside the expression
                src = G.to_src(ast)
                c += 1
                for kind in (ENVS if (wname == "id" or not quick) else (ENVS[(c + ti) % 4],)):
                    check_case(p, "attrsyntax", "attrsyntax:" + aname, ast, src, kind, (0,))
                p.count("attrsyntax_sources")
                p.sample({"expr": src}, cap=1)
    return p


# ------------------------------------------------------------------ subscripts and slices of CONSTANT subjects under a consumer

def _constsub():
    I, S = G.Int, G.Str
    subjects = [I(0), G.NONE, G.TRUE, G.Float(1.5), S("ab"), G.List(I(1), I(2)), G.Tuple(), G.Dict((S("a"), I(1))), G.Name("x"),
                G.Name("u")]
    subs = [f for f in G.FORMS if f.klass == "slice" and f.arity == 1] + [
        G.FORM_BY_NAME[n] for n in ("item:0", "item:5", "item:-1", "item:k", "iitem:0", "attr:k")]
    wraps = [
        ("id", lambda e: e), ("==1", lambda e: G.Cmp(e, ("==", I(1)))), ("in", lambda e: G.Cmp(I(1), ("in", G.List(e)))),
        ("~", lambda e: G.Bin("~", e, S("!"))), ("and", lambda e: G.And(I(1), e)), ("or", lambda e: G.Or(e, I(2))),
        ("not", lambda e: G.Not(e)), ("defined", lambda e: G.Test(e, "defined")), ("|default", lambda e: G.Filter(e, "default", (S("z"),))),
        ("|length", lambda e: G.Filter(e, "length")), ("if", lambda e: G.Cond(G.TRUE, e, I(0))), ("[e]", lambda e: G.List(e)),
        ("+", lambda e: G.Bin("+", e, e)), ("slice", lambda e: G.Slice(e, None, I(1), None)),
    ]
    return subjects, subs, wraps


CONSTSUB = _constsub()


def constsub_shard(si):
    """`c[i:j]`, `c[0]`, `c.0`, `c["k"]`, `c.k` on constant subjects of every type (subscriptable or not), bare and under
    one consumer that can absorb an undefined, in all four environments (catches folding that disagrees with run time)."""
    p = core.Part()
    subjects, subs, wraps = CONSTSUB
    subj = subjects[si]
    for f in subs:
        for wname, w in wraps:
            ast = w(f.build(subj))
            src = G.to_src(ast)
            for kind in ENVS:
                check_case(p, "constsub", f.name, ast, src, kind, (0, 2))
            p.count("constsub_sources")
            p.sample({"expr": src}, cap=1)
    return p


# ------------------------------------------------------------------ async compile_expression

ASYNC_CE_PROBES = [G.Bin("+", G.Int(1), G.Name("x")), G.Name("u"), G.Attr(G.Name("o"), "k"), G.Filter(G.Name("y"), "length"),
                   G.Cond(G.Name("u"), G.Int(1), None), G.Call(G.Name("f"), (G.Name("x"),)), G.Bin("//", G.Int(1), G.Int(0))]


def async_ce_shard(_):
    """compile_expression under enable_async (the bulk of the async cases goes through `{{ rec(expr) }}`)."""
    p = core.Part()
    import jinja2

    for ast in ASYNC_CE_PROBES:
        src = G.to_src(ast)
        for di in range(G.N_DATA):
            p.evals += 1
            ref = G.reference(ast, G.make_data(di))
            want = ("exc", ref[1]) if ref[0] == "exc" else ("ok", ref[1])
            try:
                with core.alarm(60):
                    v = jinja2.Environment(enable_async=True).compile_expression(src, undefined_to_none=False)(**G.make_data(di))
                got = ("ok", G.canon(v))
            except Exception as e:  # noqa: BLE001
                got = ("exc", type(e).__name__)
            if got != want:
                p.violation("C02/async/compile_expression-unusable", {
                    "msg": f"Environment(enable_async=True).compile_expression({src!r})(**data{di}) -> {got!r}, reference {want!r}",
                    "script": "import jinja2\nfrom vf import gen_expr as G\n"
                              f"print(jinja2.Environment(enable_async=True).compile_expression({src!r})(**G.make_data({di})))\n"})
    return p


def _phase(name, t0=[None]):
    if os.environ.get("VERIF_DEBUG"):
        now = time.time()  # progress display only, never part of an oracle
        if t0[0] is not None:
            sys.stderr.write("  phase %s: %.1fs\n" % (name, now - t0[0]))
        t0[0] = now


def run(ctx: core.Ctx):
    core.import_all_jinja()
    warnings.filterwarnings("ignore", category=SyntaxWarning)  # python's own warning about `0[1:]` in generated code
    quick = ctx.quick
    _phase("start")
    ctx.rule = ("cases = (source, environment, data assignment); sources are (a) flat operator strings for every operator "
                "tuple with selected discriminating operand tuples (+ unary/not prefixed variants), (b) every operator form "
                "applied to every atom tuple, (c) every operator shape of depth 2 (thorough: + depth 3 operator-only) filled "
                "from fixed leaf vectors; non-trivial = the reference defines the case; distinct = distinct (root form class, "
                "result type or exception class)")
    ctx.assumptions += ["reference evaluator trusts Python's own operators on Python values and markupsafe.Markup",
                        "exceptions are compared by class name only"]
    ctx.assumptions += ["CALIBRATED from the pinned tree: " + r for r in G.CALIBRATED_RULES]
    ctx.pmap(async_ce_shard, [0])
    # (a) flat strings
    shards = []
    for n_ops in (1, 2, 3):
        shards += [(quick, n_ops, f, FLAT_OPS, 3 if quick else 4, n_ops <= 3 if not quick else n_ops <= 2) for f in FLAT_OPS]
    if quick:
        shards += [(quick, 4, f, FLAT_OPS_SMALL, 1, False) for f in FLAT_OPS_SMALL]
    else:
        for f in FLAT_OPS:
            for g in FLAT_OPS:
                shards.append((quick, 4, f, None, 2, False, g))
    if os.environ.get("VERIF_SMOKE"):
        shards = shards[::int(os.environ["VERIF_SMOKE"])]
    ctx.pmap(flat_dispatch, shards)
    _phase("flat")
    ctx.pmap(attrsyntax_shard, [(quick, i) for i in range(len(ATTRSYNTAX[0]))])
    _phase("attrsyntax")
    ctx.pmap(constsub_shard, list(range(len(CONSTSUB[0]))))
    _phase("constsub")
    # (b) depth 1
    d1 = [(quick, i) for i in range(len(G.FORMS))]
    if os.environ.get("VERIF_SMOKE"):
        d1 = d1[::int(os.environ["VERIF_SMOKE"])]
    ctx.pmap(depth1_shard, d1)
    _phase("depth1")
    # (c) shapes: (space, leaf vectors, all four environments?, one vector per shape in rotation?, shard size)
    # vectors per shape: "mixed2+1" = both mixed constant/variable vectors + one of the listed vectors in rotation;
    # "mixed1+1" = one mixed + one listed; "1" = one listed; "all" = every listed vector
    if quick:
        plan = [("d2-quick", (0, 1, 2, 3), False, "mixed2+1", 500), ("d2-ops", (0, 1, 4), True, "all", 100)]
    else:
        plan = [("d2-all-x-rep", (0, 1, 2, 3), False, "mixed1+1", 1000), ("d2-rep-x-all", (0, 1, 2, 3), False, "mixed1+1", 1000),
                ("d2-quick", (0, 1, 2, 3), True, "mixed2+1", 300), ("d2-ops", (0, 1, 2, 3, 4, 5), True, "all", 100),
                ("d3-ops", (0, 4, 1, 5), False, "1", 3000)]
    shards = []
    bounds = {}
    for sname, vecs, all_envs, rotate, chunk in plan:
        n = space(sname).count()
        bounds[sname] = {"shapes": n, "leaf_vectors": len(vecs), "vectors_per_shape": {"mixed2+1": 3, "mixed1+1": 2, "1": 1, "all": len(vecs)}[rotate],
                         "all_four_environments": all_envs}
        shards += [(quick, sname, a, b, vecs, all_envs, rotate) for a, b in ranges(n, chunk)]
    if os.environ.get("VERIF_SMOKE"):
        shards = shards[::int(os.environ["VERIF_SMOKE"])]
        ctx.cap_hit("VERIF_SMOKE: only every n-th shape shard was run")
    ctx.pmap(shape_shard, shards)
    _phase("shapes")
    ctx.cov["bounds"] = {
        "flat_operator_alphabet": len(FLAT_OPS), "flat_tuple_lengths": "1..3 over 18 operators; 4 over "
        + ("9 operators" if quick else "18 operators"),
        "attrsyntax": {"targets": len(ATTRSYNTAX[0]), "names": len(ATTRSYNTAX[1]), "access_forms": len(ATTRSYNTAX[2]),
                       "consumers": len(ATTRSYNTAX[3])},
        "constsub": {"subjects": len(CONSTSUB[0]), "subscript_forms": len(CONSTSUB[1]), "consumers": len(CONSTSUB[2])},
        "forms": len(G.FORMS), "atoms": len(G.ATOMS), "atoms_for_arity3": len(G.ATOMS_SMALL),
        "data_assignments": G.N_DATA, "environments": list(ENVS), "environment_mode": "rotating" if quick else "all four "
        "(rotating on the largest shape spaces)", "shape_spaces": bounds,
    }


def flat_dispatch(arg):
    if len(arg) == 7:  # thorough 4-operator tuples are sharded by the first two operators
        quick, n_ops, f, _, k, prefixes, g = arg
        return flat_shard2(quick, f, g, k)
    return flat_shard(arg)


def flat_shard2(quick, f, g, k):
    p = core.Part()
    counter = 0
    for rest in itertools.product(FLAT_OPS, repeat=2):
        ops = (f, g) + rest
        cands, full = pick_operands(ops, k)
        p.count("flat_operator_tuples")
        if full & 1:
            p.count("flat_tuples_expected_tree_value_unique")
        if full & 2:
            p.count("flat_tuples_all_parse_trees_distinct")
        label = ".".join(sorted({LEVEL_NAME[G.FLAT_LEVEL[o]] for o in ops}))
        for cand in cands:
            for vname, toks in flat_variants(ops, cand, False):
                ast = G.parse_flat(toks)
                src = G.flat_src(toks)
                if G.to_src(ast) != src:
                    raise core.HarnessError(f"printer and Pratt parser disagree: {src!r} vs {G.to_src(ast)!r}")
                counter += 1
                check_case(p, "flat", label, ast, src, ENVS[counter % 4], (-1,))
                p.sample({"flat": src, "expected": repr(G.reference(ast, {})[:2])}, cap=1)
    return p
