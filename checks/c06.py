"""C06 — macro argument binding follows the documented macro calling rules."""
from __future__ import annotations

from vf import core
from vf import gen_macro as G

META = {
    "level": "exploration",
    "engine": "E1",
    "technique": "bounded-exhaustive enumeration of macro signatures x call shapes, each call executed from a template, "
    "from Python through template.module, and inline in one template, compared with an executable binding specification (R-bind)",
    "text": "Every macro signature with <= 4 parameters (quick <= 3) and <= 3 trailing defaults (constant / any earlier "
    "parameter / outer template variable re-assigned after the definition), bodies that print every parameter and "
    "reference every subset of {varargs, kwargs, caller} (caller invoked with 0 or 1 argument), plus signatures with "
    "explicit caller/varargs/kwargs parameters and with a parameter named like a Python keyword, crossed with every "
    "call of 0-5 positional arguments, every subset of <= 4 keywords from parameter names + one unknown name, *seq of "
    "length 0-2 before/after the keywords, **map (empty, unknown name, a parameter, a name colliding with an explicit "
    "keyword), as expression, {% call %}, {% call(x) %} and with caller=<macro> keyword.  The rendered body shows every "
    "bound value, the varargs tuple, the sorted kwargs and the caller result; it must equal R-bind on all three routes.  "
    "Family site: every body x a small call alphabet (<= 2 positional, <= 1 keyword (thorough 2), **map, all four call forms) "
    "written at each of 14 enclosing frames (top, if, for, block, block+if/for/with, for+block, with, set block, filter "
    "block, autoescape, macro body, call-block body) must bind exactly as the bare call.  Family mutdef: macros "
    "m(x, acc=<list default>, seen=<dict default>) (constant literals, literals naming x or an outer variable) whose body "
    "mutates the bound value, every history of <= 3 (thorough 4) calls that pass or leave out each parameter, run inline, "
    "in a loop, through template.module and as call-block parameters; every call must start from a fresh default.",
    "note": "Values are distinct short strings; literal duplicate keywords are C01's (F12); async environments are C09's; "
    "autoescape off.  Route 'template' renders a call template compiled once per worker with the macro passed in as a "
    "variable (the imported-macro situation); route 'inline' compiles definition and call in one template in a fresh "
    "Environment per case and is run on the diagonal sub-family (signature index + call index) % K == 0 (K=151 quick, 61 "
    "thorough; every pair for signatures with <= 1 parameter).  quick additionally limits positional arguments to 4, "
    "*seq to {2 after, 1 before the keywords}, drops the empty **{} and lets a default name only the preceding parameter.",
    "design_ref": "DESIGN.md §4 C06, §3 R-bind",
}

FAMILIES = ("plain", "explicit", "pykw", "selfref")


def family_param_lists(fam, nmax, quick=False):
    if fam == "plain":
        return list(G.plain_param_lists(nmax, earlier="prev" if quick else "all"))
    if fam == "explicit":
        return list(G.EXPLICIT_PARAM_LISTS)
    if fam == "selfref":
        return list(G.SELFREF_PARAM_LISTS)
    return list(G.PYKW_PARAM_LISTS)


def call_list(params, quick, fam="plain"):
    if fam == "selfref":
        # same call shapes, plus a call block whose own parameters have self/later-naming defaults
        return list(G.calls_for(params, max_pos=4, seqs=G.QUICK_SEQS, empty_map=False,
                                forms=("expr", "call0", "callx", "callv")))
    if quick:
        return list(G.calls_for(params, max_pos=4, seqs=G.QUICK_SEQS, empty_map=False))
    return list(G.calls_for(params))


def names_of(params):
    return tuple(n for n, _ in params)


def _outcome(f):
    try:
        return ("ok", str(f()))
    except Exception as e:  # noqa: BLE001
        return ("exc", type(e).__name__)


def _py_call(mod, call):
    pos, kw, mp, form = G.python_args(call)
    kws = list(kw)
    if form is not None:
        kws.append(("caller", getattr(mod, G.CB_MACRO[form])))
    # the same call written in Python: m(*pos, k=v, ..., **map)
    first = dict(kws)
    if mp is None:
        return mod.m(*pos, **first)
    return mod.m(*pos, **first, **dict(mp))


def _flags(call):
    fl = []
    if G.call_has_map_collision(call):
        fl.append("mapdup")
    import keyword

    if any(keyword.iskeyword(k) for k in call[1]):
        fl.append("pykw")
    return "+".join(fl) or "plain"


def _script_template(sig, call):
    return ("import jinja2\nenv = jinja2.Environment()\n"
            f"src = {G.macro_source(sig) + G.call_source(call)!r}\n"
            "print(repr(env.from_string(src).render()))\n")


def _script_python(sig, call):
    pos, kw, mp, form = G.python_args(call)
    kwsrc = "".join(f", {k}={v!r}" if k.isidentifier() and k != "class" else f", **{{{k!r}: {v!r}}}" for k, v in kw)
    if form is not None:
        kwsrc += ", caller=mod." + G.CB_MACRO[form]
    if mp is not None:
        kwsrc += ", **" + repr(dict(mp))
    args = ", ".join(repr(x) for x in pos)
    return ("import jinja2\nenv = jinja2.Environment()\n"
            f"mod = env.from_string({G.macro_source(sig)!r}).module\n"
            f"print(repr(str(mod.m({args}{kwsrc}))))\n").replace("mod.m(, ", "mod.m(")


def shard_site(arg) -> core.Part:
    """family "site": one parameter list x one enclosing frame; every body x every call shape."""
    _, params, site, inline_k, quick = arg
    import jinja2

    p = core.Part()
    mods = []
    for sig in G.signatures([params]):
        mods.append((sig, jinja2.Environment().from_string(G.macro_source(sig)).module))
    env = jinja2.Environment()
    outcomes = set()
    n = ninline = ncb = 0
    for ci, call in enumerate(G.site_calls(params, quick)):
        csrc = G.site_source(site, G.call_source(call))
        tmpl = env.from_string(csrc)
        rf, newctx = tmpl.root_render_func, tmpl.new_context
        for si, (sig, mod) in enumerate(mods):
            want = G.ref_call(sig, call)
            try:
                got_t = ("ok", "".join(rf(newctx({"m": mod.m, "cbx": mod.cbx, "q": "OUTq", "r": "OUTr"}))))
            except Exception as e:  # noqa: BLE001
                got_t = ("exc", type(e).__name__)
            routes = [("template", got_t)]
            if (si + ci) % inline_k == 0:
                full = G.macro_source(sig) + csrc
                routes.append(("inline", _outcome(lambda: jinja2.Environment().from_string(full).render())))
                ninline += 1
            n += 1
            if call[4] != "expr":
                ncb += 1
            outcomes.add(want)
            for route, got in routes:
                if got != want:
                    e = want[1] if want[0] == "exc" else "ok"
                    g = got[1] if got[0] == "exc" else ("ok" if want[0] == "exc" else "wrong-output")
                    src = G.macro_source(sig) + csrc
                    p.violation(f"C06/site/{site}/{route}/{call[4]}/exp-{e}-got-{g}", {
                        "msg": f"macro m({G.sig_source(sig[0])}) body uses {sorted(sig[1])}; call written at site "
                               f"{site!r}: {csrc!r} [{route}]: got {got!r}, expected {want!r}",
                        "macro": G.macro_source(sig), "call": csrc, "route": route,
                        "script": "import jinja2\nenv = jinja2.Environment()\n"
                                  f"src = {src!r}\nprint(repr(env.from_string(src).render()))\n"})
        if mods and site != "top" and call[4] != "expr" and len(p.samples) < 2:
            p.sample({"family": "site", "site": site, "macro_params": G.sig_source(params), "call": csrc})
    for o in outcomes:
        p.sig(("site", o))
    p.evals += n + ninline
    p.count("site_cases", n)
    p.count("site_inline_cases", ninline)
    p.count("site_call_block_cases", ncb)
    p.count("site_call_block_cases:" + site, ncb)
    return p


def shard_mutdef(arg) -> core.Part:
    """family "mutdef": one macro with list/dict defaults x every history of calls x every route."""
    _, msig, hmax = arg
    import jinja2

    p = core.Part()
    n = nshared = 0
    for hist in G.mut_histories(msig, hmax):
        want = G.mut_ref(msig, hist)
        # a constant list/dict default left out by >= 2 calls of the same macro object
        shared = any(G.mut_is_constant(d) and sum(1 for c in hist if not c[j]) >= 2 for j, (_, d) in enumerate(msig))
        routes = ["inline", "callblock", "python"]
        if not any(e for c in hist for e in c):
            routes.append("loop")
        for route in routes:
            if route == "python":
                msrc = G.mut_macro_source(msig)

                def f():
                    mod = jinja2.Environment().from_string(msrc).module
                    return "|".join(str(mod.m("v%d" % (i + 1), **G.mut_python_kwargs(msig, c))) for i, c in enumerate(hist))
                calls = ", ".join("str(mod.m(%r%s))" % ("v%d" % (i + 1), "".join(
                    f", {k}={v!r}" for k, v in G.mut_python_kwargs(msig, c).items())) for i, c in enumerate(hist))
                script = ("import jinja2\n"
                          f"mod = jinja2.Environment().from_string({msrc!r}).module\nprint(repr('|'.join([{calls}])))\n")
                shown = f"module of {msrc!r}: {calls}"
            else:
                src = G.mut_source(msig, hist, route)

                def f(src=src):
                    return jinja2.Environment().from_string(src).render()
                script = f"import jinja2\nprint(repr(jinja2.Environment().from_string({src!r}).render()))\n"
                shown = repr(src)
            got = _outcome(f)
            n += 1
            if shared:
                nshared += 1
            if got != want:
                g = got[1] if got[0] == "exc" else "wrong-output"
                kinds = "+".join(nm + ("-const" if G.mut_is_constant(d) else "-dyn") for nm, d in msig)
                p.violation(f"C06/mutdef/{route}/{kinds}/got-{g}", {
                    "msg": f"m({G.mut_params_source(msig)}) called {len(hist)}x, explicit={hist!r} [{route}] {shown}: "
                           f"got {got!r}, expected {want!r} (defaults are evaluated at every call)",
                    "route": route, "script": script})
        p.sig(("mutdef", want))
        if shared and len(hist) == 2 and len(p.samples) < 1:
            p.sample({"family": "mutdef", "source": G.mut_source(msig, hist, "inline"), "expected": list(want)})
    p.evals += n
    p.count("mutdef_cases", n)
    p.count("mutdef_cases_repeating_an_omitted_constant_default", nshared)
    return p


def shard(arg) -> core.Part:
    if arg[0] == "site":
        return shard_site(arg)
    if arg[0] == "mutdef":
        return shard_mutdef(arg)
    fam, names, lo, hi, inline_k, quick = arg
    npairs = ninline = 0
    import jinja2

    p = core.Part()
    plists = [pl for pl in family_param_lists(fam, 4, quick) if names_of(pl) == names]
    sigs = list(G.signatures(plists))
    calls = call_list(plists[0], quick, fam)[lo:hi]
    env = jinja2.Environment()
    mods = []
    for sig in sigs:
        src = G.macro_source(sig)
        exp_err = G.compile_error(sig)
        try:
            t = jinja2.Environment().from_string(src)
            got = ("ok", "")
            mod = t.module
        except Exception as e:  # noqa: BLE001
            got = ("exc", type(e).__name__)
            mod = None
        want = ("exc", "TemplateAssertionError") if exp_err else ("ok", "")
        if lo == 0:
            p.evals += 1
            p.count("signatures")
            if exp_err:
                p.sig(("compile", want))
                p.count("signatures_rejected_at_compile_time")
            if got != want:
                p.violation(f"C06/define/{fam}/exp-{want[1] or 'ok'}-got-{got[1] or 'ok'}", {
                    "msg": f"macro definition {src!r}: got {got!r}, expected {want!r}",
                    "script": f"import jinja2\nprint(jinja2.Environment().from_string({src!r}).module)\n"})
        if mod is not None and not exp_err:
            mods.append((sig, mod))
    outcomes = set()
    for ci, call in enumerate(calls, lo):
        csrc = G.call_source(call)
        tmpl = env.from_string(csrc)
        rf, newctx = tmpl.root_render_func, tmpl.new_context
        flags = None
        for si, (sig, mod) in enumerate(mods):
            want = G.ref_call(sig, call)
            # route "template": what Template.render does, minus the traceback rewriting of failures
            try:
                got_t = ("ok", "".join(rf(newctx({"m": mod.m, "cbx": mod.cbx, "q": "OUTq", "r": "OUTr"}))))
            except Exception as e:  # noqa: BLE001
                got_t = ("exc", type(e).__name__)
            try:
                got_p = ("ok", str(_py_call(mod, call)))
            except Exception as e:  # noqa: BLE001
                got_p = ("exc", type(e).__name__)
            routes = [("template", got_t), ("python", got_p)]
            if inline_k == 1 or (si + ci) % inline_k == 0:
                full = G.macro_source(sig) + csrc
                routes.append(("inline", _outcome(lambda: jinja2.Environment().from_string(full).render())))
                ninline += 1
            npairs += 1
            outcomes.add(want)
            for route, got in routes:
                if got != want:
                    if flags is None:
                        flags = _flags(call)
                    e = want[1] if want[0] == "exc" else "ok"
                    g = got[1] if got[0] == "exc" else ("ok" if want[0] == "exc" else "wrong-output")
                    vsig = f"C06/{route}/{fam}/exp-{e}-got-{g}/{flags}"
                    if flags == "mapdup+pykw" and route != "python" and want[0] == "exc" and got[0] == "ok":
                        vsig = "C06/pykeyword-kwarg/dyn-kwargs-override"
                    p.violation(vsig, {
                        "msg": f"macro m({G.sig_source(sig[0])}) body uses {sorted(sig[1])}; call {csrc!r} [{route}]: "
                               f"got {got!r}, expected {want!r}",
                        "macro": G.macro_source(sig), "call": csrc, "route": route,
                        "script": _script_python(sig, call) if route == "python" else _script_template(sig, call)})
        if mods and len(p.samples) < 3 and call[0] + len(call[1]) >= 2:
            sig = mods[len(mods) // 2][0]
            p.sample({"macro": "{% macro m(" + G.sig_source(sig[0]) + ") %}...uses " + ",".join(sorted(sig[1])) + "{% endmacro %}",
                      "call": csrc, "expected": list(G.ref_call(sig, call))})
    for o in outcomes:
        p.sig((fam, o))
    p.evals += 2 * npairs + ninline
    p.count("calls", npairs)
    p.count("inline_cases", ninline)
    return p


def plan(quick):
    nmax = 3 if quick else 4
    shards = []
    groups = []
    for fam in FAMILIES:
        seen = []
        for pl in family_param_lists(fam, nmax, quick):
            ns = names_of(pl)
            if ns not in seen:
                seen.append(ns)
                groups.append((fam, ns, pl))
    for fam, ns, pl in groups:
        ncalls = len(call_list(pl, quick, fam))
        nsig = sum(1 for q in family_param_lists(fam, nmax, quick) if names_of(q) == ns) * 12
        inline_k = 1 if len(ns) <= 1 else (151 if quick else 61)
        # aim at shards of comparable work: calls x signatures
        per = max(8, int(100000 / max(1, nsig)))
        for lo in range(0, ncalls, per):
            shards.append((fam, ns, lo, min(ncalls, lo + per), inline_k, quick))
    for pl in G.site_param_lists(quick):
        for site, _, _ in G.SITES:
            shards.append(("site", pl, site, 3 if quick else 1, quick))
    for msig in G.mut_signatures():
        shards.append(("mutdef", msig, 3 if quick else 4))
    return nmax, shards


def run(ctx: core.Ctx):
    core.import_all_jinja()
    nmax, shards = plan(ctx.quick)
    ctx.rule = ("case = (macro signature, body's use of varargs/kwargs/caller, call shape, route); every case is executed and "
                "compared with R-bind; distinct_nontrivial counts distinct expected outcomes (the full text showing bound "
                "values, varargs tuple, sorted kwargs, caller result, or the error class) per signature family")
    ctx.assumptions += [
        "argument values are distinct strings; autoescape off; sync environments (async parity is C09)",
        "CALIBRATED: a call block passes its body as keyword argument `caller`; for a macro that does not access `caller` "
        "this is an ordinary unconsumed keyword (kwargs, else TypeError) — docs only say such a macro 'may not' be used with call",
        "a keyword naming a parameter that was already filled positionally is an unconsumed keyword (docs: 'All unconsumed "
        "keyword arguments are stored in kwargs'): kwargs if the body uses it, else TypeError",
        "only the exception class is compared for failing calls, not the message",
        "CALIBRATED (docs silent): a default that names its own parameter or a later parameter sees that name as a local of "
        "the call — undefined unless the caller supplied the later parameter; an outer variable of the same name is not consulted",
        "route 'template' shares one Environment and compiled call templates inside a worker; routes 'python'/'inline' use a fresh Environment per signature / per case",
    ]
    ctx.assumptions += [
        "family site: a loop site iterates once and a block is rendered where it is defined (no inheritance), so the "
        "call happens exactly once at every site; what it binds is R-bind's answer for the bare call",
        "family mutdef: explicit arguments are fresh literals; `acc.append(x)` / `seen.update({x: 'S'})` are the only mutations",
    ]
    ctx.pmap(shard, shards)
    for site, _, _ in G.SITES:
        if not ctx.counters.get("site_call_block_cases:" + site):
            raise core.HarnessError(f"family site: no call block was exercised at site {site!r}")
    if not ctx.counters.get("site_inline_cases"):
        raise core.HarnessError("family site: inline route never ran")
    if not ctx.counters.get("mutdef_cases_repeating_an_omitted_constant_default"):
        raise core.HarnessError("family mutdef: no history left a constant list/dict default out twice")
    ctx.cov["site_family"] = {"sites": [n for n, _, _ in G.SITES], "cases": ctx.counters.get("site_cases", 0),
                              "inline_cases": ctx.counters.get("site_inline_cases", 0),
                              "call_block_cases": ctx.counters.get("site_call_block_cases", 0)}
    ctx.cov["mutdef_family"] = {"macros": len(list(G.mut_signatures())), "max_history": 3 if ctx.quick else 4,
                                "routes": ["inline", "callblock", "python", "loop"],
                                "cases": ctx.counters.get("mutdef_cases", 0),
                                "cases_repeating_an_omitted_constant_default":
                                    ctx.counters.get("mutdef_cases_repeating_an_omitted_constant_default", 0)}
    ctx.cov["bounds"] = {"max_parameters": nmax, "max_defaults": 3, "max_positional": 4 if ctx.quick else 5, "max_keywords": 4,
                         "quick_reductions": bool(ctx.quick), "families": list(FAMILIES) + ["site", "mutdef"],
                         "call_forms": ["expr", "call0", "callx", "kwcb", "callv (selfref family)"]}
    ctx.cov["signatures"] = ctx.counters.get("signatures", 0)
    ctx.cov["signature_x_call"] = ctx.counters.get("calls", 0)
