"""C06 — macro argument binding follows the documented macro calling rules."""
from __future__ import annotations

from vf import core
from vf import gen_macro as G

META = {
    "level": "exploration",
    "engine": "E1",
    "technique": "bounded-exhaustive enumeration of macro signatures x call shapes, each call executed from a template, "
    "from Python through template.module, and inline in one template, compared with an executable binding specification (R-bind)",
    "text": "Every macro signature with <= 4 parameters (quick <= 3) and <= 3 trailing defaults (constant / any earlier "
    "parameter / outer template variable re-assigned after the definition), bodies that print every parameter and "
    "reference every subset of {varargs, kwargs, caller} (caller invoked with 0 or 1 argument), plus signatures with "
    "explicit caller/varargs/kwargs parameters and with a parameter named like a Python keyword, crossed with every "
    "call of 0-5 positional arguments, every subset of <= 4 keywords from parameter names + one unknown name, *seq of "
    "length 0-2 before/after the keywords, **map (empty, unknown name, a parameter, a name colliding with an explicit "
    "keyword), as expression, {% call %}, {% call(x) %} and with caller=<macro> keyword.  The rendered body shows every "
    "bound value, the varargs tuple, the sorted kwargs and the caller result; it must equal R-bind on all three routes.",
    "note": "Values are distinct short strings; literal duplicate keywords are C01's (F12); async environments are C09's; "
    "autoescape off.  Route 'template' renders a call template compiled once per worker with the macro passed in as a "
    "variable (the imported-macro situation); route 'inline' compiles definition and call in one template in a fresh "
    "Environment per case and is run on the diagonal sub-family (signature index + call index) % K == 0 (K=151 quick, 61 "
    "thorough; every pair for signatures with <= 1 parameter).  quick additionally limits positional arguments to 4, "
    "*seq to {2 after, 1 before the keywords}, drops the empty **{} and lets a default name only the preceding parameter.",
    "design_ref": "DESIGN.md §4 C06, §3 R-bind",
}

FAMILIES = ("plain", "explicit", "pykw", "selfref")


def family_param_lists(fam, nmax, quick=False):
    if fam == "plain":
        return list(G.plain_param_lists(nmax, earlier="prev" if quick else "all"))
    if fam == "explicit":
        return list(G.EXPLICIT_PARAM_LISTS)
    if fam == "selfref":
        return list(G.SELFREF_PARAM_LISTS)
    return list(G.PYKW_PARAM_LISTS)


def call_list(params, quick, fam="plain"):
    if fam == "selfref":
        # same call shapes, plus a call block whose own parameters have self/later-naming defaults
        return list(G.calls_for(params, max_pos=4, seqs=G.QUICK_SEQS, empty_map=False,
                                forms=("expr", "call0", "callx", "callv")))
    if quick:
        return list(G.calls_for(params, max_pos=4, seqs=G.QUICK_SEQS, empty_map=False))
    return list(G.calls_for(params))


def names_of(params):
    return tuple(n for n, _ in params)


def _outcome(f):
    try:
        return ("ok", str(f()))
    except Exception as e:  # noqa: BLE001
        return ("exc", type(e).__name__)


def _py_call(mod, call):
    pos, kw, mp, form = G.python_args(call)
    kws = list(kw)
    if form is not None:
        kws.append(("caller", getattr(mod, G.CB_MACRO[form])))
    # the same call written in Python: m(*pos, k=v, ..., **map)
    first = dict(kws)
    if mp is None:
        return mod.m(*pos, **first)
    return mod.m(*pos, **first, **dict(mp))


def _flags(call):
    fl = []
    if G.call_has_map_collision(call):
        fl.append("mapdup")
    import keyword

    if any(keyword.iskeyword(k) for k in call[1]):
        fl.append("pykw")
    return "+".join(fl) or "plain"


def _script_template(sig, call):
    return ("import jinja2\nenv = jinja2.Environment()\n"
            f"src = {G.macro_source(sig) + G.call_source(call)!r}\n"
            "print(repr(env.from_string(src).render()))\n")


def _script_python(sig, call):
    pos, kw, mp, form = G.python_args(call)
    kwsrc = "".join(f", {k}={v!r}" if k.isidentifier() and k != "class" else f", **{{{k!r}: {v!r}}}" for k, v in kw)
    if form is not None:
        kwsrc += ", caller=mod." + G.CB_MACRO[form]
    if mp is not None:
        kwsrc += ", **" + repr(dict(mp))
    args = ", ".join(repr(x) for x in pos)
    return ("import jinja2\nenv = jinja2.Environment()\n"
            f"mod = env.from_string({G.macro_source(sig)!r}).module\n"
            f"print(repr(str(mod.m({args}{kwsrc}))))\n").replace("mod.m(, ", "mod.m(")


def shard(arg) -> core.Part:
    fam, names, lo, hi, inline_k, quick = arg
    npairs = ninline = 0
    import jinja2

    p = core.Part()
    plists = [pl for pl in family_param_lists(fam, 4, quick) if names_of(pl) == names]
    sigs = list(G.signatures(plists))
    calls = call_list(plists[0], quick, fam)[lo:hi]
    env = jinja2.Environment()
    mods = []
    for sig in sigs:
        src = G.macro_source(sig)
        exp_err = G.compile_error(sig)
        try:
            t = jinja2.Environment().from_string(src)
            got = ("ok", "")
            mod = t.module
        except Exception as e:  # noqa: BLE001
            got = ("exc", type(e).__name__)
            mod = None
        want = ("exc", "TemplateAssertionError") if exp_err else ("ok", "")
        if lo == 0:
            p.evals += 1
            p.count("signatures")
            if exp_err:
                p.sig(("compile", want))
                p.count("signatures_rejected_at_compile_time")
            if got != want:
                p.violation(f"C06/define/{fam}/exp-{want[1] or 'ok'}-got-{got[1] or 'ok'}", {
                    "msg": f"macro definition {src!r}: got {got!r}, expected {want!r}",
                    "script": f"import jinja2\nprint(jinja2.Environment().from_string({src!r}).module)\n"})
        if mod is not None and not exp_err:
            mods.append((sig, mod))
    outcomes = set()
    for ci, call in enumerate(calls, lo):
        csrc = G.call_source(call)
        tmpl = env.from_string(csrc)
        rf, newctx = tmpl.root_render_func, tmpl.new_context
        flags = None
        for si, (sig, mod) in enumerate(mods):
            want = G.ref_call(sig, call)
            # route "template": what Template.render does, minus the traceback rewriting of failures
            try:
                got_t = ("ok", "".join(rf(newctx({"m": mod.m, "cbx": mod.cbx, "q": "OUTq", "r": "OUTr"}))))
            except Exception as e:  # noqa: BLE001
                got_t = ("exc", type(e).__name__)
            try:
                got_p = ("ok", str(_py_call(mod, call)))
            except Exception as e:  # noqa: BLE001
                got_p = ("exc", type(e).__name__)
            routes = [("template", got_t), ("python", got_p)]
            if inline_k == 1 or (si + ci) % inline_k == 0:
                full = G.macro_source(sig) + csrc
                routes.append(("inline", _outcome(lambda: jinja2.Environment().from_string(full).render())))
                ninline += 1
            npairs += 1
            outcomes.add(want)
            for route, got in routes:
                if got != want:
                    if flags is None:
                        flags = _flags(call)
                    e = want[1] if want[0] == "exc" else "ok"
                    g = got[1] if got[0] == "exc" else ("ok" if want[0] == "exc" else "wrong-output")
                    vsig = f"C06/{route}/{fam}/exp-{e}-got-{g}/{flags}"
                    if flags == "mapdup+pykw" and route != "python" and want[0] == "exc" and got[0] == "ok":
                        vsig = "C06/pykeyword-kwarg/dyn-kwargs-override"
                    p.violation(vsig, {
                        "msg": f"macro m({G.sig_source(sig[0])}) body uses {sorted(sig[1])}; call {csrc!r} [{route}]: "
                               f"got {got!r}, expected {want!r}",
                        "macro": G.macro_source(sig), "call": csrc, "route": route,
                        "script": _script_python(sig, call) if route == "python" else _script_template(sig, call)})
        if mods and len(p.samples) < 3 and call[0] + len(call[1]) >= 2:
            sig = mods[len(mods) // 2][0]
            p.sample({"macro": "{% macro m(" + G.sig_source(sig[0]) + ") %}...uses " + ",".join(sorted(sig[1])) + "{% endmacro %}",
                      "call": csrc, "expected": list(G.ref_call(sig, call))})
    for o in outcomes:
        p.sig((fam, o))
    p.evals += 2 * npairs + ninline
    p.count("calls", npairs)
    p.count("inline_cases", ninline)
    return p


def plan(quick):
    nmax = 3 if quick else 4
    shards = []
    groups = []
    for fam in FAMILIES:
        seen = []
        for pl in family_param_lists(fam, nmax, quick):
            ns = names_of(pl)
            if ns not in seen:
                seen.append(ns)
                groups.append((fam, ns, pl))
    for fam, ns, pl in groups:
        ncalls = len(call_list(pl, quick, fam))
        nsig = sum(1 for q in family_param_lists(fam, nmax, quick) if names_of(q) == ns) * 12
        inline_k = 1 if len(ns) <= 1 else (151 if quick else 61)
        # aim at shards of comparable work: calls x signatures
        per = max(8, int(100000 / max(1, nsig)))
        for lo in range(0, ncalls, per):
            shards.append((fam, ns, lo, min(ncalls, lo + per), inline_k, quick))
    return nmax, shards


def run(ctx: core.Ctx):
    core.import_all_jinja()
    nmax, shards = plan(ctx.quick)
    ctx.rule = ("case = (macro signature, body's use of varargs/kwargs/caller, call shape, route); every case is executed and "
                "compared with R-bind; distinct_nontrivial counts distinct expected outcomes (the full text showing bound "
                "values, varargs tuple, sorted kwargs, caller result, or the error class) per signature family")
    ctx.assumptions += [
        "argument values are distinct strings; autoescape off; sync environments (async parity is C09)",
        "CALIBRATED: a call block passes its body as keyword argument `caller`; for a macro that does not access `caller` "
        "this is an ordinary unconsumed keyword (kwargs, else TypeError) — docs only say such a macro 'may not' be used with call",
        "a keyword naming a parameter that was already filled positionally is an unconsumed keyword (docs: 'All unconsumed "
        "keyword arguments are stored in kwargs'): kwargs if the body uses it, else TypeError",
        "only the exception class is compared for failing calls, not the message",
        "CALIBRATED (docs silent): a default that names its own parameter or a later parameter sees that name as a local of "
        "the call — undefined unless the caller supplied the later parameter; an outer variable of the same name is not consulted",
        "route 'template' shares one Environment and compiled call templates inside a worker; routes 'python'/'inline' use a fresh Environment per signature / per case",
    ]
    ctx.pmap(shard, shards)
    ctx.cov["bounds"] = {"max_parameters": nmax, "max_defaults": 3, "max_positional": 4 if ctx.quick else 5, "max_keywords": 4,
                         "quick_reductions": bool(ctx.quick), "families": list(FAMILIES),
                         "call_forms": ["expr", "call0", "callx", "kwcb", "callv (selfref family)"]}
    ctx.cov["signatures"] = ctx.counters.get("signatures", 0)
    ctx.cov["signature_x_call"] = ctx.counters.get("calls", 0)
