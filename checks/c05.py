"""C05 — include / import / from-import honour the documented context visibility.

Every scenario of vf/gen_ctx.py (main template x helper template) is built on a
fresh Environment, rendered, and compared with the reference model R-ctx
(gen_ctx.expected): rendered text, exception class, and for the module family
the names/values a TemplateModule exposes.
"""
from __future__ import annotations

import contextlib
import re
import signal

from vf import core, gen_ctx

META = {
    "level": "exploration",
    "engine": "E1",
    "technique": "bounded-exhaustive enumeration of include/import/from-import scenarios (statement form x context "
    "flag x target form x placement x template-globals x helper shape) against an independent context-propagation "
    "and module-export model (R-ctx)",
    "text": "Main template x helper template. include {default, with context, without context} x {ignore missing} x "
    "{literal, list with a missing first entry, variable, variable list, Template object from get_template / "
    "from_string, missing literal/list/variable, existing template that raises, existing template that includes a "
    "missing one}; import-as and from-import {default, with, without context} x {literal, variable, Template objects, "
    "missing}; each at top level, inside for, inside with, inside a macro, after a top-level set; main and helper with "
    "and without template-level globals; helper shapes = subsets of {public macro, private macro, top-level "
    "assignment, private assignment, assignment inside if, assignment inside for, own import-as, own from-import with "
    "context} (quick: empty, each single feature, all; thorough: all 256). Sequences: a first include / import with context "
    "inside for / with / macro where a local is live, followed after the scope by a second include / from-import / "
    "direct print that must no longer see that local (with and without a render variable of the same name; main "
    "template without top-level assignments). Shadowing: a top-level set that shadows a render argument or an "
    "environment global, followed by an include / import with context at top level or inside a block (the helper "
    "must see the assigned value). Extra helper shapes: from-import of h2's macro under an alias after the helper "
    "defined a public macro of the original name / a public variable of the alias name. Candidate lists: every list of "
    "length 1..3 (thorough 1..4) over {missing name, existing names a/b, Template object} given to include [literal list "
    "with the object in a variable] / include <variable> (each x ignore missing), Environment.select_template and "
    "get_or_select_template; reference = the first entry that exists. Tuple assignments: helper with {% set n1, n2, .. = "
    ".. %} for every ordered distinct tuple of length 1..3 (thorough 1..4) over {x, y, _p, _q} at top level / in an if / "
    "in a for body (thorough: with), observed through Template.module, make_module and {% import %} (is defined + "
    "value per alphabet name); reference = exactly the public names of top-level assignments. The helper prints a render variable, the "
    "includer's local, an environment global, the includer's template global and its own template global; compared: "
    "the whole rendered text / exception class, and for Template.module / make_module(vars) the exposed names "
    "(dir() minus the class's, hasattr over a probe list), str(module) and exported values.",
    "note": "One statement per main template; values are fixed distinct letters; sync Environment with DictLoader, "
    "fresh per case; calibrated rules are listed in assumptions; async parity is C09.",
    "design_ref": "DESIGN.md §4 C05, §3 R-ctx",
}

SIG_BUFFERED = "C05/include-without-context/buffered-frame"
SIG_KEYERROR = "C05/template-globals/nested-import-KeyError"

_ADDR = re.compile(r" at 0x[0-9a-fA-F]+")
_GEN = re.compile(r"^M\[<generator object .* at 0x\?>\]$")



@contextlib.contextmanager
def cpu_alarm(seconds):
    """hang guard on the worker's CPU time (ITIMER_PROF), so that a worker that is merely starved on a
    shared machine is not mistaken for a hanging render (core.alarm counts wall time)."""
    def on_alarm(signum, frame):
        raise core.CaseTimeout()

    old = signal.signal(signal.SIGPROF, on_alarm)
    signal.setitimer(signal.ITIMER_PROF, seconds)
    try:
        yield
    finally:
        signal.setitimer(signal.ITIMER_PROF, 0)
        signal.signal(signal.SIGPROF, old)


def norm(got):
    if isinstance(got, str):
        return _ADDR.sub(" at 0x?", got)
    return got


def _script(case):
    if case[0] in ("sel", "tset"):
        return gen_ctx.extra_script(case)
    src, main, data = gen_ctx.to_templates(case)
    g = gen_ctx.globals_for(case)
    f = gen_ctx._fields(case)
    d = {}
    for k, v in data.items():
        if isinstance(v, gen_ctx.TemplateRef):
            v = ("$get", v.name, v.globals)
        elif isinstance(v, gen_ctx.TemplateFromString):
            v = ("$fs", v.source, v.globals)
        d[k] = v
    s = (
        "import jinja2\n"
        f"src = {src!r}\n"
        f"env_globals, main_globals, h_globals = {g['env']!r}, {g['main']!r}, {g['h']!r}\n"
        f"data = {d!r}\n"
        "env = jinja2.Environment(loader=jinja2.DictLoader(src))\n"
        "env.globals.update(env_globals)\n"
        "h = env.get_template('h', globals=h_globals)\n"
        + ("str(h.module)  # default module cached before the render\n" if f.get("target") == "lit-warm" else "") +
        "def bind(v):\n"
        "    if isinstance(v, tuple) and v[0] == '$get':\n"
        "        return env.get_template(v[1], globals=v[2])\n"
        "    if isinstance(v, tuple) and v[0] == '$fs':\n"
        "        return env.from_string(v[1], globals=v[2])\n"
        "    return v\n"
        "data = {k: bind(v) for k, v in data.items()}\n"
        "for n in sorted(src):\n"
        "    print(n, '=', src[n])\n"
        "try:\n"
    )
    if f["fam"] == "mod":
        via, how = f["how"].split("/")
        s += ("    t = h\n" if via == "get" else "    t = env.from_string(src['h'], globals=h_globals)\n")
        s += ("    m = t.module\n" if how == "module" else "    m = t.make_module({'rv': 'R2'})\n")
        s += ("    print('exposed :', sorted(k for k in vars(m) if k not in ('_body_stream', '__name__')))\n"
              "    print('str     :', repr(str(m)))\n")
    else:
        s += "    print('rendered:', repr(env.get_template('main', globals=main_globals).render(**data)))\n"
    s += ("except Exception as e:\n"
          "    print('raised  :', type(e).__name__, e)\n"
          f"print('expected:', {gen_ctx.expected(case)!r})\n")
    return s


def classify(case, got, exp):
    """signature of a mismatch; the named defects are recognised structurally and narrowly."""
    f = gen_ctx._fields(case)
    fam = f["fam"]
    if (fam == "inc" and f["ctx"] == "without" and f["placement"] == "macro" and isinstance(got, str)
            and _GEN.match(got)):
        # include without context in a buffered frame: the macro body became a generator
        return SIG_BUFFERED
    if got == ("exc", "KeyError") and f["hglob"] and "impas" in f["shape"] and fam != "mod":
        shared = (fam == "inc" and f["ctx"] in (None, "with")) or (fam in ("imp", "from") and f["ctx"] == "with")
        if shared and f["target"] in ("lit", "lit-warm", "list", "var", "varlist", "obj", "fs"):
            # helper with template globals, run on a shared context, doing a default import of its own
            return SIG_KEYERROR
    if fam == "sel":
        kind = f"sel/{f['via']}" + ("/ignore-missing" if f["ignore"] else "")
    elif fam == "tset":
        kind = f"tset/{f['obs']}/{f['where']}"
    else:
        kind = fam if fam == "mod" else f"{fam}/{f['ctx'] or 'default'}/{f['placement']}"
    if isinstance(got, tuple) and isinstance(exp, tuple):
        return f"C05/{kind}/exception/{got[1]}-instead-of-{exp[1]}"
    if isinstance(got, tuple):
        return f"C05/{kind}/unexpected-exception/{got[1]}"
    if isinstance(exp, tuple):
        return f"C05/{kind}/missing-exception/{exp[1]}"
    if fam == "mod":
        diff = sorted(k for k in set(got) | set(exp) if got.get(k) != exp.get(k))
        return f"C05/mod/{f['how']}/" + "+".join(diff)
    if fam == "tset" and isinstance(got, dict) and isinstance(exp, dict):
        diff = sorted(k for k in set(got) | set(exp) if got.get(k) != exp.get(k))
        return f"C05/{kind}/" + "+".join(diff)
    return f"C05/{kind}/output"


def shard(arg) -> core.Part:
    bound, k, n = arg
    p = core.Part()
    for case in gen_ctx.cases(bound, shard=(k, n)):
        p.evals += 1
        try:
            with cpu_alarm(20):
                got = norm(gen_ctx.run(case))
        except core.CaseTimeout:
            got = ("exc", "Hang(20 s CPU)")
        exp = gen_ctx.expected(case)
        fam = case[0]
        p.count("cases_" + fam)
        if fam in ("sel", "tset"):
            for feat in gen_ctx.extra_features(case):
                p.count(feat)
        if isinstance(got, tuple):
            p.count("raised_" + got[1])
            p.sig((fam, "exc", got[1]))
        elif isinstance(got, dict):
            p.sig(sorted(got.items()))
        else:
            p.sig(got)
        if got != exp:
            srcs = gen_ctx.extra_sources(case)[0] if fam in ("sel", "tset") else gen_ctx.to_templates(case)[0]
            p.violation(classify(case, got, exp), {
                "msg": f"case={gen_ctx.tojson(case)}: got {got!r}, R-ctx expects {exp!r}; main="
                       f"{srcs.get('main')!r} h={srcs.get('h')!r}",
                "case": gen_ctx.tojson(case), "got": repr(got), "expected": repr(exp),
                "script": _script(case),
            })
        if p.evals % 61 == 1:
            p.sample({"case": gen_ctx.tojson(case), "outcome": got if not isinstance(got, tuple) else list(got)}, cap=2)
    return p


def run(ctx: core.Ctx):
    core.import_all_jinja()
    bound = "quick" if ctx.quick else "thorough"
    ctx.rule = ("cases = gen_ctx.cases(bound): full product of the statement/target/placement/globals dimensions with "
                "the helper shapes of the tier (module family: helper shape x own globals x {module, make_module} x "
                "{get_template, from_string}; candidate-list family: all lists up to the length bound x 4 entry points; "
                "tuple-assignment family: all ordered name tuples x placement x observation); every case renders at least one template and is non-trivial; distinct = "
                "distinct rendered text / (family, exception class) / module observation")
    ctx.assumptions += [
        "R-ctx follows docs/templates.rst (Include, Import, Import Context Behavior) and docs/api.rst (The Global Namespace)",
        "CALIBRATED: the globals of a context-free include/import are the environment globals plus the TARGET template's own template-level globals",
        "CALIBRATED: an import without context additionally sees the importing template's template-level globals (docstring of Template._get_default_module)",
        "CALIBRATED: a template run on the includer's context (include with context, import with context) does not see its own template-level globals (api.rst: only one set of globals per rendering)",
        "CALIBRATED: an importer running on its includer's context does not pass its own template-level globals on to templates it imports without context",
        "CALIBRATED: a module does not re-export the template's own imports",
        "TemplatesNotFound (lists) is counted as TemplateNotFound (documented subclass)",
        "sync default Environment, DictLoader; fresh Environment per case",
    ]
    n = 64 if ctx.quick else 256
    ctx.pmap(shard, [(bound, k, n) for k in range(n)])
    for key in ("sel_existing_name_before_object", "sel_object_before_existing_name", "sel_object_after_missing_name",
                "tset_mixed_public_private_toplevel", "tset_all_private_tuple"):
        if not ctx.counters.get(key):
            raise core.HarnessError(f"family never reached its feature: {key}")
    ctx.cov["candidate_lists"] = {"alphabet": list(gen_ctx.SEL_ALPHA[bound]), "max_len": gen_ctx.SEL_LEN[bound],
                                  "via": list(gen_ctx.SEL_VIAS),
                                  "existing_name_before_object": ctx.counters["sel_existing_name_before_object"]}
    ctx.cov["tuple_assignments"] = {"alphabet": list(gen_ctx.TSET_ALPHA), "max_len": gen_ctx.TSET_LEN[bound],
                                    "where": list(gen_ctx.TSET_WHERE[bound]), "observed_via": list(gen_ctx.TSET_OBS),
                                    "mixed_public_private": ctx.counters["tset_mixed_public_private_toplevel"]}
    ctx.cov["bounds"] = {"tier": bound, "helper_shapes": len(gen_ctx.helper_shapes(bound)),
                         "placements": list(gen_ctx.PLACEMENTS), "include_targets": list(gen_ctx.INC_TARGETS),
                         "import_targets": list(gen_ctx.IMP_TARGETS), "cases": gen_ctx.count(bound)}
