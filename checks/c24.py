"""C24 — HTML-producing filters cannot be used to inject markup."""
from __future__ import annotations

import html
import itertools
import json
import re

from vf import core, filt
from vf.filt import Var

META = {
    "level": "exploration",
    "engine": "E1",
    "technique": "bounded-exhaustive enumeration of adversarial values / strings / word sequences x argument tuples of the "
    "HTML-producing filters, each output parsed back by a small strict parser written from the HTML tokenizer rules "
    "(attribute states, anchor shape, JSON) and compared with the input",
    "text": "tojson: every JSON-like value of depth <= 2 over a nasty-string alphabet: output has none of < > & ' and "
    "json.loads(output) equals the value (type-strict).  xmlattr: keys and values = all strings of <= 3 characters over "
    "{a, space, /, >, =, TAB, LF, FF, \", ', <, &} (+ CR, VT, NBSP, empty): the produced text is parsed with the HTML "
    "attribute-name/value states and must yield exactly the given pairs with escaped values; keys containing an "
    "attribute-name terminator (ASCII whitespace, /, >, =) must raise ValueError.  urlize: all sequences of <= 3 (thorough 4) words "
    "from a menu of URL-ish / e-mail-ish / punctuation / markup fragments x trim limit x rel x target x nofollow x extra "
    "schemes: output must be text without < > \" ' interleaved with well-formed <a href=... [rel] [target]> anchors whose "
    "attribute values are quoted, escaped, whitespace-free (href), of an allowed scheme, and which together with the "
    "text reproduce the input.  escape/e equal MarkupSafe escaping and forceescape escapes the markup form.  indent, "
    "replace, join, format, truncate, wordwrap with a Markup receiver and plain-string arguments carrying a marker tag "
    "never emit the marker unescaped under autoescape.  urlize-ws: every Unicode whitespace character (str.isspace, 29 up to "
    "U+3000) and four non-whitespace look-alikes as the separator between scheme-prefixed / URL-ish / e-mail-ish heads and "
    "tails x extra schemes given as argument or as policy: same anchor oracle (href free of whitespace, text reproduced).  "
    "trust-history: every history of <= 2 (thorough 3) calls of one filter expression in which the same, never-seen-before "
    "argument text is passed as safe Markup or as plain str, in one or in fresh Environments: a plain argument never "
    "appears raw and a step's output does not depend on the steps before it.",
    "note": "Bounded: value depth 2, string length 3, 3-4 words; autoescape on and off, template rendering and "
    "Environment.call_filter; Markup *arguments* / Markup values are trusted by definition and not counted as injection; "
    "the HTML parsing model is the WHATWG tokenizer's attribute states restricted to what the filters may emit "
    "(anything else is reported).",
    "design_ref": "DESIGN.md §4 C22 / C23 / C24",
}


# =====================================================================================
# R-filt: escaping, attribute parser, anchor scanner
# =====================================================================================

_ESC = {"&": "&amp;", "<": "&lt;", ">": "&gt;", '"': "&#34;", "'": "&#39;"}


def my_escape(s):
    return "".join(_ESC.get(ch, ch) for ch in s)


ENTITY = re.compile(r"&(?:amp|lt|gt|#34|#39);")


def only_entities(raw):
    """every & in raw starts one of the five entities escape() produces."""
    return ENTITY.sub("", raw).find("&") < 0


HTML_WS = "\t\n\f\r "
NAME_END = HTML_WS + "/>="  # https://html.spec.whatwg.org/#attribute-name-state


class Bad(Exception):
    pass


def parse_attrs(s):
    """strict walk of the tokenizer states before-attribute-name / attribute-name /
    after-attribute-name / before-attribute-value / attribute-value-(double-quoted) /
    after-attribute-value-(quoted), starting inside a start tag.  Any parse error,
    any other value syntax and any tag end is refused."""
    i, n, out = 0, len(s), []
    while True:
        while i < n and s[i] in HTML_WS:
            i += 1
        if i == n:
            return out
        if s[i] in "/>":
            raise Bad("tag-closed")
        if s[i] == "=":
            raise Bad("equals-sign-before-attribute-name")
        j = i
        while j < n and s[j] not in NAME_END:
            if s[j] in "\"'<":
                raise Bad("quote-or-lt-in-attribute-name")
            j += 1
        name = s[i:j]
        i = j
        while i < n and s[i] in HTML_WS:
            i += 1
        if i == n or s[i] != "=":
            raise Bad("attribute-without-value" if i == n or s[i] not in "/>" else "tag-closed")
        i += 1
        while i < n and s[i] in HTML_WS:
            i += 1
        if i == n or s[i] != '"':
            raise Bad("value-not-double-quoted")
        j = s.find('"', i + 1)
        if j < 0:
            raise Bad("unterminated-value")
        out.append((name, s[i + 1:j]))
        i = j + 1
        if i < n and s[i] not in HTML_WS:
            raise Bad("no-whitespace-after-value")


def xmlattr_expect_error(d):
    for k, v in d.items():
        if v is None:
            continue
        if any(ch in NAME_END for ch in k):
            return True
    return False


def check_xmlattr(d, out, autospace):
    """None or a law name; `out` is the produced text for a dict the filter accepted."""
    want = [(k, v) for k, v in d.items() if v is not None]
    try:
        got = parse_attrs(out)
    except Bad as e:
        if any(k == "" for k, _ in want):
            return "empty-key-accepted"
        return "unparsable-" + str(e)
    if len(got) != len(want):
        return "attribute-count"
    for (name, raw), (k, v) in zip(got, want):
        if name not in (k, my_escape(k)):
            return "attribute-name-changed"
        if raw != my_escape(str(v)):
            return "value-not-escaped"
        if html.unescape(raw) != str(v):
            return "value-changed"
    if want:
        if autospace and not out.startswith(" "):
            return "no-leading-space"
        if not autospace and out.startswith(" "):
            return "leading-space"
        if out != (" " if autospace else "") + " ".join(f'{n}="{r}"' for n, r in got):
            return "not-canonical"
    elif out != "":
        return "text-from-nothing"
    return None


ANCHOR = re.compile(r'<a href="([^"<>]*)"(?: rel="([^"<>]*)")?(?: target="([^"<>]*)")?>([^<>"\']*)</a>')


def scan_urlize(out):
    """-> list of ('text', raw) / ('a', href_raw, rel_raw, target_raw, inner_raw) or raises Bad."""
    parts, i = [], 0
    while i < len(out):
        j = out.find("<", i)
        if j < 0:
            j = len(out)
        if j > i:
            parts.append(("text", out[i:j]))
        if j == len(out):
            break
        m = ANCHOR.match(out, j)
        if not m:
            raise Bad("markup-outside-well-formed-anchor")
        parts.append(("a",) + m.groups())
        i = m.end()
    return parts


def check_urlize(text, out, trim, rel, target, nofollow, extra):
    try:
        parts = scan_urlize(out)
    except Bad as e:
        return str(e)
    want_rel = set((rel or "").split()) | {"noopener"} | ({"nofollow"} if nofollow else set())
    schemes = ("http://", "https://", "mailto:") + tuple(extra or ())
    choices = []
    for p in parts:
        if p[0] == "text":
            raw = p[1]
            if any(ch in raw for ch in "<>\"'"):
                return "raw-metacharacter-in-text"
            if not only_entities(raw):
                return "bare-ampersand-in-text"
            choices.append([html.unescape(raw)])
            continue
        _, href, rel_raw, target_raw, inner = p
        for raw in (href, rel_raw or "", target_raw or ""):
            if not only_entities(raw):
                return "bare-ampersand-in-anchor"
        h = html.unescape(href)
        if not only_entities(inner):
            if trim is not None and inner.endswith("...") and my_escape(h).startswith(inner[:-3]) and len(inner) == trim + 3:
                return "trim-cuts-character-reference"  # the limit is applied to the escaped text
            return "bare-ampersand-in-anchor"
        if href == "" or any(ch.isspace() for ch in h):
            return "whitespace-in-href"
        if not h.startswith(schemes):
            return "href-scheme-not-allowed"
        mail = h.startswith("mailto:")
        if rel_raw is None:
            if not mail:
                return "rel-missing"
        elif set(html.unescape(rel_raw).split()) != want_rel:
            return "rel-wrong"
        if target_raw is None:
            if target and not mail:
                return "target-missing"
        elif html.unescape(target_raw) != target:
            return "target-wrong"
        cands = [h]
        if h.startswith("https://"):
            cands.append(h[len("https://"):])
        if mail:
            cands.append(h[len("mailto:"):])
        shown = set()
        for c in cands:
            e = my_escape(c)
            shown.add(e)  # extra-scheme and mailto links are shown untrimmed; not an injection concern either way
            # "Shorten displayed URL values to this length": the limit counts characters of the URL, not of its escaped form
            shown.add(e if trim is None or len(c) <= trim else my_escape(c[:trim]) + "...")
            if c.startswith("mailto:"):
                shown.add(my_escape(c[len("mailto:"):]))
        if inner not in shown:
            return "link-text-is-not-the-url"
        choices.append(cands)
    for combo in itertools.product(*choices):
        if "".join(combo) == text:
            return None
    return "input-text-not-reproduced"


# =====================================================================================
# enumeration
# =====================================================================================

NASTY = ("<", ">", "&", "'", '"', "</script>", " ", "é", "a")
OTHER_ATOMS = (0, -1, 1.5, True, False, None)


def json_values(thorough):
    """all values of depth <= 2 (bounded fan-out, see coverage.bounds)."""
    A = list(NASTY) + list(OTHER_ATOMS)
    d0 = list(filt.strings(NASTY, 3 if thorough else 2)) + list(OTHER_ATOMS) + [-0.0, 10 ** 20, 1e-7, "\u2028", "\x00<"]
    lists1 = [list(t) for t in filt.seqs(A, 2)]
    keys2 = list(itertools.permutations(NASTY if thorough else ("<", "'", "</script>", "a"), 2))
    dicts1 = [{}] + [{k: a} for k in NASTY for a in A] + [{k1: a, k2: b} for k1, k2 in keys2 for a in A for b in A]
    d1 = lists1 + dicts1
    small = [[]] + [[a] for a in A] + [{}] + [{k: a} for k in NASTY for a in A]
    d2 = [[x] for x in d1]
    d2 += [[x, y] for x in small for y in small]
    d2 += [{k: x} for k in NASTY for x in d1]
    d2 += [{k1: x, k2: y} for k1, k2 in (("<", "'"), ("a", "&")) for x in small for y in small]
    return d0 + d1 + d2


def jcanon(v):
    """type-strict, key-order-free canonical form of a JSON value."""
    if isinstance(v, dict):
        return ("dict", sorted((k, jcanon(x)) for k, x in v.items()))
    if isinstance(v, list):
        return ("list", [jcanon(x) for x in v])
    if isinstance(v, float):
        return ("float", repr(v))
    return (type(v).__name__, v)


XA = ("a", " ", "/", ">", "=", "\t", "\n", "\f", '"', "'", "<", "&")
XA_EXTRA = ("\r", "\x0b", "\u00a0")
XVALS = ("", "a", '"', "'", "<", "&", ">", ' x="y', '" onclick="x', "a&amp;b", "\n", 0, True, None)


def xmlattr_dicts(thorough, part, nparts):
    """single-entry dicts: every key x nasty values, benign keys x every value; two-entry dicts over short strings."""
    keys = list(filt.strings(XA, 3)) + [a + b for a in XA_EXTRA for b in ("",) + XA] + [b + a for a in XA_EXTRA for b in XA]
    out = []
    for k in keys:
        for v in XVALS:
            out.append({k: v})
    vals = list(filt.strings(XA, 3))
    for k in ("a", "aa", "a'", 'a"<&'):
        for v in vals:
            out.append({k: v})
    short = list(filt.strings(XA, 1))
    vv = ("a", '"', None) if not thorough else ("a", '"', None, "<", " b=c")
    for k1 in short:
        for k2 in short:
            if k1 != k2:
                for v1 in vv:
                    for v2 in vv:
                        out.append({k1: v1, k2: v2})
    if thorough:
        for k in filt.strings(XA, 3):
            for v in filt.strings(XA, 2):
                out.append({k: v})
    return out[part::nparts]


WORDS = ("http://a.bc", "www.a.bc", "a@b.c", "mailto:a@b.c", "<b>", '"x"', "(http://a.bc)", 'http://a.bc/?q="><x',
         "javascript:x", "a.com", "&", "http://a.b", "'")


def urlize_texts(thorough):
    out = []
    for n in range(0, 5 if thorough else 4):
        for ws in itertools.product(WORDS, repeat=n):
            out.append(" ".join(ws))
    for a in WORDS:
        for b in WORDS:
            out.append(a + b)
            out.append(a + "\n" + b)
            if thorough:
                out.append(a + "," + b + ".")
                out.append("<" + a + ">" + b)
    return out


def urlize_configs(thorough):
    out = []
    for trim in (None, 5, 16):
        for rel in (None, 'x" y'):
            for target in (None, '_blank"'):
                for extra in (None, ["javascript:"], ["ja:", "http:"]):
                    for nofollow in (False, True) if (rel is None or thorough) else (False,):
                        kw = {}
                        if trim is not None:
                            kw["trim_url_limit"] = trim
                        if rel is not None:
                            kw["rel"] = rel
                        if target is not None:
                            kw["target"] = target
                        if extra is not None:
                            kw["extra_schemes"] = extra
                        if nofollow:
                            kw["nofollow"] = True
                        out.append(kw)
    return out


ESC_SIGMA = ("<", ">", "&", "'", '"', "a", "é", " ")


class H:
    """object with an __html__ form."""

    def __init__(self, s):
        self.s = s

    def __html__(self):
        return self.s

    def __str__(self):
        return "STR:" + self.s

    def __repr__(self):
        return f"H({self.s!r})"


# =====================================================================================
# rendering helper
# =====================================================================================

class Render:
    """one filter expression, compiled once per autoescape mode; three observations per input:
    rendered template text, raw value from compile_expression, raw value from call_filter."""

    def __init__(self, name, args=(), kwargs=None, autoescape=True, pre=""):
        import jinja2

        self.name, self.args, self.kwargs = name, tuple(args), dict(kwargs or {})
        self.env = jinja2.Environment(autoescape=autoescape)
        self.src = "xs|" + pre + filt.call_src(name, self.args, self.kwargs)
        self.tmpl = self.env.from_string("{{ " + self.src + " }}")
        self.expr = self.env.compile_expression(self.src, undefined_to_none=False)
        self.ctx = self.env.from_string("").new_context({})
        self.autoescape = autoescape

    def render(self, xs, **vars_):
        return self.tmpl.render(xs=xs, **vars_)

    def value(self, xs, **vars_):
        return self.expr(xs=xs, **vars_)

    def call(self, xs, **vars_):
        args = [vars_[a.name] if isinstance(a, Var) else a for a in self.args]
        kwargs = {k: (vars_[a.name] if isinstance(a, Var) else a) for k, a in self.kwargs.items()}
        return self.env.call_filter(self.name, xs, args, kwargs, context=self.ctx)

    def final(self, v):
        """what `{{ }}` makes of a filter result."""
        from markupsafe import escape

        return str(escape(v)) if self.autoescape else str(v)


def three(p, r, xs, vars_=None):
    """-> (rendered text or ('raises', E), raw value or ('raises', E)); routes must agree."""
    vars_ = vars_ or {}
    outs = []
    raw = None
    for which, f in enumerate((r.render, r.value, r.call)):
        p.evals += 1
        try:
            v = f(xs, **vars_)
        except Exception as e:  # noqa: BLE001
            outs.append(("raises", type(e).__name__))
            continue
        if which == 0:
            outs.append(v)
        else:
            raw = v
            outs.append(r.final(v))
    agree = outs[0] == outs[1] == outs[2]
    return outs[0], raw, agree, outs


def _script(r, xs_expr, vars_=None, setup=()):
    lines = ["import jinja2", "from markupsafe import Markup",
             f"env = jinja2.Environment(autoescape={r.autoescape})", *setup, f"xs = {xs_expr}"]
    for k, v in (vars_ or {}).items():
        lines.append(f"{k} = {v!r}")
    lines.append("print(repr(env.from_string(%r).render(xs=xs%s)))"
                 % ("{{ " + r.src + " }}", "".join(f", {k}={k}" for k in (vars_ or {}))))
    return "\n".join(lines) + "\n"


def viol(p, sig, r, xs, got, why, vars_=None, xs_expr=None, setup=()):
    p.violation(sig, {"msg": f"{{{{ {r.src} }}}} autoescape={r.autoescape} on {xs!r} {vars_ or ''}: {why}; output {got!r}",
                      "source": r.src, "autoescape": r.autoescape, "input": repr(xs),
                      "script": _script(r, xs_expr or repr(xs), vars_, setup)})


# =====================================================================================
# shards
# =====================================================================================

def shard(arg):
    fam, part, nparts, thorough = arg
    core.import_all_jinja()
    from markupsafe import Markup, escape

    p = core.Part()
    if fam == "tojson":
        vals = json_values(thorough)[part::nparts]
        rs = [Render("tojson", (), {}, ae) for ae in (True, False)] + [Render("tojson", (2,), {}, True),
                                                                         Render("tojson", (), {"indent": 1}, False)]
        for v in vals:
            want = jcanon(v)
            for r in rs:
                out, raw, agree, outs = three(p, r, v)
                bad = None
                if not agree:
                    bad = "routes-disagree"
                elif isinstance(out, tuple):
                    bad = out[1]
                elif any(ch in out for ch in "<>&'"):
                    bad = "unsafe-character-in-output"
                elif not isinstance(raw, Markup):
                    bad = "result-not-marked-safe"
                else:
                    try:
                        back = jcanon(json.loads(out))
                    except ValueError:
                        back = "unparsable"
                    if back != want:
                        bad = "does-not-parse-back"
                if bad:
                    viol(p, "C24/tojson/" + bad, r, v, outs, bad)
            if len(repr(v)) <= 24:
                p.sig(("tojson", repr(v)))
            if len(p.samples) < 1 and isinstance(v, dict) and len(v) == 2:
                p.sample({"filter": "tojson", "value": repr(v), "output": rs[0].render(v)}, cap=1)
        p.count("tojson_values", len(vals))
    elif fam == "xmlattr":
        ds = xmlattr_dicts(thorough, part, nparts)
        rs = [(Render("xmlattr", (), {}, True), True), (Render("xmlattr", (), {}, False), True),
              (Render("xmlattr", (False,), {}, True), False), (Render("xmlattr", (), {"autospace": False}, False), False)]
        for d in ds:
            err = xmlattr_expect_error(d)
            for r, autospace in rs:
                out, raw, agree, outs = three(p, r, d)
                bad = None
                if not agree:
                    bad = "routes-disagree"
                elif isinstance(out, tuple):
                    if out[1] != "ValueError":
                        bad = "raises-" + out[1]
                    elif not err:
                        # over-rejection is not forbidden by the property (e.g. VT); recorded as an outcome only
                        p.count("harmless_keys_rejected", 1)
                elif err:
                    bad = "unsafe-key-accepted"
                else:
                    if r.autoescape and not isinstance(raw, Markup):
                        bad = "result-not-marked-safe"
                    elif not r.autoescape and isinstance(raw, Markup):
                        bad = "markup-without-autoescape"
                    else:
                        bad = check_xmlattr(d, str(raw), autospace)
                if bad:
                    viol(p, "C24/xmlattr/" + bad, r, d, outs, bad)
                if len(d) == 1:
                    k = next(iter(d))
                    if len(k) <= 1:
                        p.sig(("xmlattr", repr(d), repr(out)))
            if len(p.samples) < 1 and len(d) == 2 and not err and "" not in d:
                p.sample({"filter": "xmlattr", "value": repr(d), "output": repr(three(p, rs[0][0], d)[0])}, cap=1)
        p.count("xmlattr_dicts", len(ds))
    elif fam == "urlize":
        texts = urlize_texts(thorough)
        cfgs = urlize_configs(thorough)[part::nparts]
        for kw in cfgs:
            for ae in (True, False):
                r = Render("urlize", (), kw, ae)
                for t in texts:
                    out, raw, agree, outs = three(p, r, t)
                    bad = None
                    if not agree:
                        bad = "routes-disagree"
                    elif isinstance(out, tuple):
                        bad = "raises-" + out[1]
                    elif ae and not isinstance(raw, Markup):
                        bad = "result-not-marked-safe"
                    else:
                        bad = check_urlize(t, str(raw), kw.get("trim_url_limit"), kw.get("rel"), kw.get("target"),
                                           kw.get("nofollow", False), kw.get("extra_schemes"))
                    if bad:
                        viol(p, "C24/urlize/" + bad, r, t, outs, bad)
                    if t.count(" ") == 0 and "\n" not in t:
                        p.sig(("urlize", repr(sorted(kw)), t, out))
                if len(p.samples) < 1:
                    t = 'www.a.bc <b> http://a.bc/?q="><x'
                    p.sample({"filter": "urlize", "kwargs": repr(kw), "text": t, "output": r.render(t)}, cap=1)
        # positional spelling and invalid scheme
        r = Render("urlize", (5, True, '_blank"', 'x" y', ["javascript:"]), {}, True)
        for t in texts:
            out, raw, agree, outs = three(p, r, t)
            bad = "routes-disagree" if not agree else check_urlize(t, str(raw), 5, 'x" y', '_blank"', True, ["javascript:"])
            if bad:
                viol(p, "C24/urlize/" + bad, r, t, outs, bad)
        if part == 0:
            for badscheme in ('x"y:', "j", "a b:", "x:///"):
                r = Render("urlize", (), {"extra_schemes": [badscheme]}, True)
                out, raw, agree, outs = three(p, r, "x" + badscheme + "y " + badscheme + "z")
                if not agree or out != ("raises", "FilterArgumentError"):
                    viol(p, "C24/urlize/invalid-scheme-accepted", r, badscheme, outs, "invalid scheme prefix accepted")
        if part == 0:
            p.count("urlize_texts", len(texts))
        p.count("urlize_configs", len(cfgs) * 2)
    elif fam == "escape":
        strs = list(filt.strings(ESC_SIGMA, 4 if thorough else 3))[part::nparts]
        for name in ("escape", "e", "forceescape"):
            for ae in (True, False):
                r = Render(name, (), {}, ae)
                for s in strs:
                    forms = [(s, my_escape(s), repr(s)), (H(s), s if name != "forceescape" else my_escape(s), f"H({s!r})"),
                             (Markup(s), s if name != "forceescape" else my_escape(s), f"Markup({s!r})")]
                    for v, want, vexpr in forms:
                        out, raw, agree, outs = three(p, r, v)
                        bad = None
                        if not agree:
                            bad = "routes-disagree"
                        elif isinstance(out, tuple):
                            bad = "raises-" + out[1]
                        elif not isinstance(raw, Markup):
                            bad = "result-not-marked-safe"
                        elif str(raw) != want:
                            bad = "wrong-escaping"
                        elif name != "forceescape" and raw != escape(v):
                            bad = "differs-from-markupsafe"
                        elif out != want:
                            bad = "rendered-differently"
                        if bad:
                            viol(p, f"C24/{name}/" + bad, r, v, outs, f"{bad}: expected {want!r}", xs_expr=vexpr)
                    if len(s) <= 2:
                        p.sig((name, s, str(r.value(s))))
        if part == 0:
            for name in ("escape", "e", "forceescape"):
                r = Render(name, (), {}, True)
                for v, want in ((0, "0"), (None, "None"), (1.5, "1.5"), (True, "True")):
                    out, raw, agree, outs = three(p, r, v)
                    if not agree or out != want:
                        viol(p, f"C24/{name}/non-string", r, v, outs, f"expected {want!r}")
        p.count("escape_strings", len(strs))
    elif fam == "safe-receiver":
        run_safe_receiver(p, thorough, part, nparts)
    elif fam == "urlize-ws":
        run_urlize_ws(p, thorough, part, nparts)
    elif fam == "trust-history":
        run_trust_history(p, thorough, part, nparts)
    else:
        raise AssertionError(fam)
    return p


MARK = "<q>"
MARK_ESC = "&lt;q&gt;"
RECV_SIGMA = ("a", "<b>", " ", "\n", "&amp;", "%s", "a-a a")


def safe_receiver_cases():
    """(filter, args, kwargs, receiver kind) - every plain-string parameter of the six filters carries the marker,
    as a context variable and as a template literal."""
    C = []
    for lit_ in (False, True):
        m = MARK if lit_ else Var("w", MARK)
        for first in (False, True):
            for blank in (False, True):
                C.append(("indent", (m, first, blank), {}, "markup"))
        C.append(("indent", (), {"width": m}, "markup"))
        for count in (None, 1):
            C.append(("replace", ("a", m) + (() if count is None else (count,)), {}, "markup"))
            C.append(("replace", (m, "z") + (() if count is None else (count,)), {}, "markup"))
            C.append(("replace", (" ", m) + (() if count is None else (count,)), {}, "markup"))
        C.append(("join", (m,), {}, "list-markup"))
        C.append(("join", (), {"d": m}, "list-markup"))
        C.append(("join", (m,), {}, "list-mixed"))
        C.append(("join", (m, "a"), {}, "list-attr"))
        C.append(("format", (m,), {}, "markup-fmt"))
        C.append(("format", (m, m), {}, "markup-fmt"))
        C.append(("format", (), {"k": m}, "markup-fmtk"))
        for length in (0, 1, 3):
            for kill in (False, True):
                C.append(("truncate", (length + len(MARK), kill, m, 0), {}, "markup"))
        C.append(("truncate", (4,), {"end": m, "leeway": 0}, "markup"))
        for w in (1, 3):
            C.append(("wordwrap", (w, True, m), {}, "markup"))
        C.append(("wordwrap", (2,), {"wrapstring": m}, "markup"))
    return C


def run_safe_receiver(p, thorough, part, nparts):
    from markupsafe import Markup

    recvs = list(filt.strings(RECV_SIGMA, 4 if thorough else 3))
    cases = safe_receiver_cases()[part::nparts]
    for name, args, kwargs, kind in cases:
        r = Render(name, args, kwargs, True)
        uses_var = any(isinstance(a, Var) for a in list(args) + list(kwargs.values()))
        vars_ = {"w": MARK} if uses_var else {}
        for s in recvs:
            if kind == "markup":
                xs, xexpr = Markup(s), f"Markup({s!r})"
            elif kind == "markup-fmt":
                xs, xexpr = Markup(s + "%s|%s" if len(args) == 2 else s.replace("%s", "") + "<i>%s</i>"), None
                xexpr = f"Markup({str(xs)!r})"
            elif kind == "markup-fmtk":
                xs = Markup(s.replace("%s", "") + "<i>%(k)s</i>")
                xexpr = f"Markup({str(xs)!r})"
            elif kind == "list-markup":
                xs, xexpr = [Markup(s), Markup("<i>")], f"[Markup({s!r}), Markup('<i>')]"
            elif kind == "list-mixed":
                xs, xexpr = [Markup(s), "x<y", Markup("")], f"[Markup({s!r}), 'x<y', Markup('')]"
            else:
                xs, xexpr = [{"a": Markup(s)}, {"a": Markup("<i>")}], f"[{{'a': Markup({s!r})}}, {{'a': Markup('<i>')}}]"
            out, raw, agree, outs = three(p, r, xs, vars_)
            bad = None
            if not agree:
                bad = "routes-disagree"
            elif isinstance(out, tuple):
                if name == "format":
                    continue  # receiver is not a valid format string for these arguments
                bad = "raises-" + out[1]
            elif MARK in out.replace("x<y", ""):
                bad = "argument-emitted-unescaped"
            elif kind == "list-mixed" and "x<y" in out:
                bad = "plain-item-emitted-unescaped"
            if bad:
                viol(p, f"C24/safe-receiver/{name}/{bad}", r, xs, outs, bad, vars_, xs_expr=xexpr)
            if not isinstance(out, tuple) and MARK_ESC in out:
                p.count("marker_reached_output", 1)
                if len(s) <= 5:
                    p.sig(("safe", name, repr(sorted(kwargs)), len(args), kind, out))
            if len(p.samples) < 1 and not isinstance(out, tuple) and MARK_ESC in out and "<b>" in s:
                p.sample({"filter": name, "source": r.src, "receiver": repr(xs), "output": out}, cap=1)
    p.count("safe_receiver_cases", len(cases) * len(recvs))


# =====================================================================================
# urlize: every whitespace character as a word separator x scheme-prefixed words
# =====================================================================================

ASCII_WS = " \t\n\r\f\v"
# every character Python's Unicode database classes as whitespace (str.isspace) up to U+3000: the ASCII six, the C0
# separators FS GS RS US, NEL, NBSP, OGHAM SPACE, U+2000-200A, LS, PS, NNBSP, MMSP, IDEOGRAPHIC SPACE
WS_ALL = tuple(chr(c) for c in range(0x3001) if chr(c).isspace())
WS_NEIGHBOURS = ("\x00", "\x7f", "\u200b", "\ufeff")  # look like separators but are not whitespace: may stay inside a link
WS_HEADS = ("ja:x", "tel:5", "http://a.bc/p", "www.a.bc", "a@b.c", "x", "(ja:x)")
WS_TAILS = ("b", "ja:y", "onx=1", "<b>", "http://a.b")
WS_SCHEMES = (("arg", ["ja:"]), ("arg", ["ja:", "tel:"]), ("policy", ["ja:", "tel:"]), ("policy", ["tel:"]), ("none", None))


def urlize_ws_texts(thorough):
    out = []
    for ws in WS_ALL + WS_NEIGHBOURS:
        for h in WS_HEADS:
            out.append((ws, h + ws))
            out.append((ws, ws + h + ws + ws))
            for t in WS_TAILS:
                out.append((ws, h + ws + t))
                if thorough:
                    out.append((ws, t + ws + h + ws + t))
                    out.append((ws, h + ws + " " + ws + t))
    return out


def urlize_ws_configs(thorough):
    out = []
    for how, schemes in WS_SCHEMES:
        for ae in (True, False):
            for trim in (None, 5) if thorough else (None,):
                out.append((how, schemes, ae, trim))
    return out


def run_urlize_ws(p, thorough, part, nparts):
    from markupsafe import Markup

    texts = urlize_ws_texts(thorough)
    for how, schemes, ae, trim in urlize_ws_configs(thorough)[part::nparts]:
        kw = {}
        if trim is not None:
            kw["trim_url_limit"] = trim
        if how == "arg":
            kw["extra_schemes"] = schemes
        r = Render("urlize", (), kw, ae)
        setup = ()
        if how == "policy":
            r.env.policies["urlize.extra_schemes"] = list(schemes)
            setup = (f"env.policies['urlize.extra_schemes'] = {list(schemes)!r}",)
        for ws, t in texts:
            out, raw, agree, outs = three(p, r, t)
            if not agree:
                bad = "routes-disagree"
            elif isinstance(out, tuple):
                bad = "raises-" + out[1]
            elif ae and not isinstance(raw, Markup):
                bad = "result-not-marked-safe"
            else:
                bad = check_urlize(t, str(raw), trim, None, None, False, schemes)
            if bad:
                viol(p, "C24/urlize-ws/" + bad, r, t, outs, bad, setup=setup)
            if not isinstance(out, tuple) and schemes and any(f'<a href="{s_}' in str(raw) for s_ in schemes):
                if ws in WS_ALL and ws not in ASCII_WS:
                    p.count("urlize_ws_extra_scheme_link_next_to_non_ascii_whitespace", 1)
                elif ws in WS_NEIGHBOURS:
                    p.count("urlize_ws_extra_scheme_link_with_non_whitespace_control", 1)
            if len(t) <= 6:
                p.sig(("urlize-ws", how, repr(schemes), "U+%04X" % ord(ws), t, out))
        if len(p.samples) < 1:
            t = "tel:5 onx=1"
            p.sample({"filter": "urlize", "schemes": repr(schemes), "via": how, "text": t, "output": r.render(t)}, cap=1)
    if part == 0:
        p.count("urlize_ws_texts", len(texts))


# =====================================================================================
# trust histories: the same argument text passed as safe Markup and as a plain string, in every order
# =====================================================================================

HIST_LETTERS = "qrstuvwxyz"
HIST_RECV = ("a a\n\na a a a a", "<b>a</b> a\n<i>a\n\na a a")
HIST_ENVS = ("shared", "fresh")


def hist_marker(n):
    """a tag that no earlier call in this process has seen: one per (position, receiver, history, environment mode)."""
    s = ""
    for _ in range(4):
        s = HIST_LETTERS[n % 10] + s
        n //= 10
    if n:
        raise core.HarnessError("trust-history: marker space exhausted")
    return "<" + s + ">"


def trust_positions():
    """(filter, args, kwargs, receiver kind): w is the one string parameter whose trust varies along a history."""
    w = Var("w", None)
    C = []
    for first in (False, True):
        for blank in (False, True):
            C.append(("indent", (w, first, blank), {}, "markup"))
    C.append(("indent", (), {"width": w}, "markup"))
    C.append(("indent", (w,), {}, "plain"))
    C.append(("indent", (w, True, True), {}, "plain"))
    C.append(("replace", ("a", w), {}, "markup"))
    C.append(("replace", ("a", w, 1), {}, "markup"))
    C.append(("join", (w,), {}, "list-markup"))
    C.append(("join", (), {"d": w}, "list-mixed"))
    C.append(("join", (w, "a"), {}, "list-attr"))
    C.append(("format", (w,), {}, "markup-fmt"))
    C.append(("format", (), {"k": w}, "markup-fmtk"))
    C.append(("truncate", (9, True, w, 0), {}, "markup"))
    C.append(("truncate", (9,), {"end": w, "leeway": 0}, "markup"))
    C.append(("wordwrap", (2, True, w), {}, "markup"))
    C.append(("wordwrap", (3,), {"wrapstring": w}, "markup"))
    return C


def trust_histories(thorough):
    out = []
    for n in range(1, 4 if thorough else 3):
        out += ["".join(h) for h in itertools.product("MP", repeat=n)]
    return out


def _hist_receiver(kind, s):
    from markupsafe import Markup

    if kind == "markup":
        return Markup(s), f"Markup({s!r})"
    if kind == "plain":
        return s, repr(s)
    if kind == "markup-fmt":
        return Markup(s + "<i>%s</i>"), f"Markup({s + '<i>%s</i>'!r})"
    if kind == "markup-fmtk":
        return Markup(s + "<i>%(k)s</i>"), f"Markup({s + '<i>%(k)s</i>'!r})"
    if kind == "list-markup":
        return [Markup(s), Markup("<i>")], f"[Markup({s!r}), Markup('<i>')]"
    if kind == "list-mixed":
        return [Markup(s), "x<y", Markup("")], f"[Markup({s!r}), 'x<y', Markup('')]"
    return [{"a": Markup(s)}, {"a": Markup("<i>")}], f"[{{'a': Markup({s!r})}}, {{'a': Markup('<i>')}}]"


def _hist_script(src, xexpr, mark, hist, envmode):
    lines = ["import jinja2", "from markupsafe import Markup", f"xs = {xexpr}",
             "env = jinja2.Environment(autoescape=True)"]
    for k, tr in enumerate(hist):
        if envmode == "fresh" and k:
            lines.append("env = jinja2.Environment(autoescape=True)")
        warg = f"Markup({mark!r})" if tr == "M" else repr(mark)
        lines.append(f"print({tr!r}, repr(env.from_string({'{{ ' + src + ' }}'!r}).render(xs=xs, w={warg})))")
    return "\n".join(lines) + "\n"


def run_trust_history(p, thorough, part, nparts):
    """Every history of <= 2 (thorough 3) calls of one filter expression in which the same text is passed as a safe
    Markup argument ('M') or as a plain string ('P').  Reference: a filter is a function of its arguments - a plain
    argument is escaped next to a safe receiver and never appears raw, whatever equal-looking value was passed before
    (Markup('<x>') == '<x>' and they hash alike, so any memo keyed on the argument confuses them); a step's output
    does not depend on the steps before it."""
    from markupsafe import Markup

    positions = trust_positions()
    hists = trust_histories(thorough)
    for pi, (name, args, kwargs, kind) in enumerate(positions):
        if pi % nparts != part:
            continue
        for ri, s in enumerate(HIST_RECV):
            xs, xexpr = _hist_receiver(kind, s)
            for ei, envmode in enumerate(HIST_ENVS):
                normal = {}  # trust -> (normalised output, history it was first seen in)
                for hi, hist in enumerate(hists):
                    mark = hist_marker(((pi * len(HIST_RECV) + ri) * len(hists) + hi) * len(HIST_ENVS) + ei)
                    esc = my_escape(mark)
                    r = None
                    for k, tr in enumerate(hist):
                        if r is None or envmode == "fresh":
                            r = Render(name, args, kwargs, True)
                        w = Markup(mark) if tr == "M" else mark
                        out, raw, agree, outs = three(p, r, xs, {"w": w})
                        bad = None
                        if not agree:
                            bad = "routes-disagree"
                        elif isinstance(out, tuple):
                            bad = "raises-" + out[1]
                        elif tr == "P" and mark in out:
                            bad = "plain-argument-emitted-unescaped"
                        else:
                            norm = out.replace(mark, "{RAW}").replace(esc, "{ESC}")
                            first_seen = normal.setdefault(tr, (norm, hist[:k + 1]))
                            if first_seen[0] != norm:
                                bad = "output-depends-on-history"
                            reached = "{RAW}" in norm or "{ESC}" in norm
                            if reached:
                                p.count("trust_history_steps_reaching_output", 1)
                                if k and tr == "P" and "M" in hist[:k]:
                                    p.count("trust_history_plain_after_equal_markup", 1)
                            if ri == 0 and envmode == "shared":
                                p.sig(("trust-history", name, len(args), repr(sorted(kwargs)), kind, hist[:k + 1], norm))
                        if bad:
                            p.violation(f"C24/trust-history/{name}/{bad}", {
                                "msg": f"{{{{ {r.src} }}}} on {xs!r}, history {hist} of w={mark!r} (M = Markup, P = plain str), "
                                       f"environment {envmode}, step {k + 1} ({tr}): {bad}; output {outs!r}",
                                "source": r.src, "history": hist, "step": k + 1, "environment": envmode,
                                "script": _hist_script(r.src, xexpr, mark, hist[:k + 1], envmode)})
                    p.count("trust_histories", 1)
                if len(p.samples) < 1:
                    p.sample({"filter": name, "source": r.src, "receiver": repr(xs), "history": hist, "argument": mark,
                              "environment": envmode, "last_output": repr(out)}, cap=1)


def run(ctx: core.Ctx):
    core.import_all_jinja()
    t = not ctx.quick
    ctx.rule = ("one case = (filter, argument tuple, input value, autoescape on/off); each case is observed three ways "
                "(rendered template, compile_expression value, Environment.call_filter) which must agree; non-trivial = "
                "the filter produced output that was parsed back; distinct = distinct (filter, small input, output)")
    ctx.assumptions += [
        "HTML model: WHATWG tokenizer attribute states; attribute-name terminators are TAB LF FF CR SPACE / > = (not Unicode whitespace)",
        "xmlattr: rejecting a harmless key (e.g. one containing VT) is not a violation; accepting the empty key is (the value then sits in attribute-name position)",
        "xmlattr: the emitted attribute name may be the key or its escaped form (character references are not decoded in names)",
        "urlize: rel always contains the policy default 'noopener'; mailto anchors may omit rel/target; a link's text is the (possibly trimmed) URL without an added scheme",
        "escaping reference: & < > \" ' -> &amp; &lt; &gt; &#34; &#39; (MarkupSafe), cross-checked against markupsafe.escape itself",
        "Markup arguments and Markup values are trusted by definition; only plain-string arguments are required to be escaped with a safe receiver",
        "urlize-ws: 'whitespace' is str.isspace of Python's Unicode database (29 characters up to U+3000), the same class an href must be free of; "
        "NUL, DEL, ZWSP, BOM are not whitespace and may stay inside a link",
        "trust-history: filters are functions of their arguments (no state carried between calls, environments or templates); "
        "each history uses an argument text no earlier call in the process has seen",
        "tojson: default policies (json.dumps, sort_keys=True); dict keys are strings; NaN/Infinity are not JSON and not enumerated",
    ]
    shards = []
    shards += [("tojson", i, 24, t) for i in range(24)]
    shards += [("xmlattr", i, 24, t) for i in range(24)]
    ncfg = len(urlize_configs(t))
    shards += [("urlize", i, ncfg, t) for i in range(ncfg)]
    shards += [("escape", i, 8, t) for i in range(8)]
    nsr = 16
    shards += [("safe-receiver", i, nsr, t) for i in range(nsr)]
    nws = len(urlize_ws_configs(t))
    shards += [("urlize-ws", i, nws, t) for i in range(nws)]
    shards += [("trust-history", i, 4, t) for i in range(4)]
    ctx.pmap(shard, shards)
    for key in ("urlize_ws_extra_scheme_link_next_to_non_ascii_whitespace", "urlize_ws_extra_scheme_link_with_non_whitespace_control",
                "trust_history_steps_reaching_output", "trust_history_plain_after_equal_markup"):
        if not ctx.counters.get(key):
            raise core.HarnessError(f"family never reached its feature: {key}")
    ctx.cov["bounds"] = {
        "tojson": {"depth": 2, "string_alphabet": list(NASTY), "other_atoms": [repr(a) for a in OTHER_ATOMS],
                   "values": len(json_values(t))},
        "xmlattr": {"alphabet": list(XA), "extra_key_characters": list(XA_EXTRA), "max_length": 3,
                    "dicts": len(xmlattr_dicts(t, 0, 1))},
        "urlize": {"words": list(WORDS), "max_words": 4 if t else 3, "texts": len(urlize_texts(t)), "argument_tuples": ncfg + 1},
        "escape": {"alphabet": list(ESC_SIGMA), "max_length": 4 if t else 3},
        "urlize_whitespace": {"separators": ["U+%04X" % ord(c) for c in WS_ALL + WS_NEIGHBOURS], "heads": list(WS_HEADS),
                              "tails": list(WS_TAILS), "schemes": [[h, s_] for h, s_ in WS_SCHEMES],
                              "texts": len(urlize_ws_texts(t)), "configs": nws},
        "trust_history": {"positions": len(trust_positions()), "receivers": list(HIST_RECV), "histories": trust_histories(t),
                          "environment_modes": list(HIST_ENVS)},
        "safe_receiver": {"receiver_alphabet": list(RECV_SIGMA), "max_fragments": 4 if t else 3,
                          "argument_positions": len(safe_receiver_cases())},
    }
