"""C15 — autoescaping never lets unescaped data or string literals into the output.

Bounded-exhaustive enumeration of templates  frame[ carrier2(carrier1(value)) ]:

* value   : producers of the tainted text (context string, template literal,
            item / attribute / loop item / macro argument holding it, containers);
* carrier : EVERY built-in filter (jinja2.defaults.DEFAULT_FILTERS minus `safe`)
            with every argument shape of an arity-directed menu (inspect.signature),
            every built-in test through select/reject, the operators ~ + % *,
            string methods;
* frame   : plain output, set, with, if, for, loop.cycle, recursive loop, macro
            (argument / default / varargs / body / return value), call block and
            caller() (body, arguments, return value), super(), self.block(),
            block set, filter block, include, import / from-import, joiner,
            cycler, namespace, dict()|xmlattr ...;
* mode    : Environment(autoescape=True); select_autoescape by template name;
            {% autoescape true %} in an autoescape=False environment; runtime
            {% autoescape flag %} (flag true) in autoescape-off and -on environments.

Oracle (from the property text, no reference to what jinja2 printed before): the
template text is metacharacter-free, so no raw  < > " '  may be in the output once
the markup that urlize / xmlattr / tojson are documented to emit is removed with
a strict regex.
"""
from __future__ import annotations

import inspect
import itertools
import re

from vf import core

META = {
    "level": "exploration",
    "engine": "E1",
    "technique": "bounded-exhaustive enumeration of frame x carrier x carrier x value templates over all built-in "
    "filters/tests/operators/string methods with arity-directed tainted argument menus, in 5 autoescape modes, "
    "against a metacharacter scan of the rendered output",
    "text": "Every template of the form frame[c2(c1(value))] (depth <= 2) is compiled and rendered with autoescaping "
    "active (static, selector-based, autoescape-true block, runtime-decided flag in autoescape-off and -on "
    "environments); values and filter arguments carry the tainted text <T>\"T'& as context data and as template "
    "string literals. The output must contain no raw < > \" ' after removing, with a strict regex, the markup that "
    "urlize, xmlattr and tojson are documented to emit. Carriers are all DEFAULT_FILTERS except safe (argument "
    "tuples over a 5-value menu up to the filter's arity, keyword singles), all identifier-named DEFAULT_TESTS, "
    "operators ~ + % *, ~45 string methods; frames cover macro, call/caller, super, self.block, block set, filter "
    "block, include, import, from-import, loop.cycle, recursive loops, joiner, cycler, namespace, dict|xmlattr.",
    "note": "Depth-2 compositions are thinned: the inner carrier of filter x filter is one representative per distinct "
    "(result type, result value) of the inner filter, the outer filter uses the short argument menu; frame x filter "
    "uses the short menu on two values. When the output of urlize/xmlattr/tojson is processed further (chopped, "
    "reversed ...) its documented markup cannot be removed by a regex, so those cases use the weaker marker "
    "oracle (raw ' or the intact sequences <T> / \"T' are leaks). Excluded by the property: safe filter, Markup "
    "in data, gettext calls and the translation strings of trans blocks (template text; but the variable VALUES of "
    "trans blocks are data: old- and new-style trans frames with header/body/count variables, context string and "
    "pluralize are part of the frame set), autoescape-off regions (so macros/includes are always defined inside an active region).",
    "design_ref": "DESIGN.md §4 C15, §3 E1",
}

TAINT = "<T>\"T'&"
KTAINT = "<T\"T'&"  # legal as xmlattr key: no '>', ' ', '/', '='
LIT = '"<T>\\"T\'&"'  # the same characters spelled as a template string literal
KLIT = '"<T\\"T\'&"'
LL = "[%s, \"T\"]" % LIT
LD = "{\"k\": %s}" % LIT
XU = "see http://e.xy/?q=" + TAINT + " (www.e.xy/" + TAINT + ") m@e.xy tt:" + TAINT
XU2 = "http://a.bc/" + TAINT + "/long/path"  # taint within the first 16 characters of a recognised URL
XN = TAINT + "\n" + TAINT + " " + TAINT + "\n\n" + TAINT

NEWSTYLE_MARK = "{# newstyle-gettext #}"  # template comment selecting new-style gettext for trans frames

MODES = ("static", "select", "blk-true", "blk-flag-off", "blk-flag-on")


class Obj:
    def __init__(self, v):
        self.T = v

    def __repr__(self):
        return "Obj(%r)" % (self.T,)


class StrObj:
    def __str__(self):
        return TAINT

    __repr__ = __str__


def make_ctx():
    return {
        "x": TAINT, "xn": XN, "xu": XU, "xu2": XU2, "l": [TAINT, "T"], "d": {"k": TAINT}, "dk": {KTAINT: TAINT},
        "o": Obj(TAINT), "ol": [Obj(TAINT), Obj("T")], "os": StrObj(),
    }


CTX_SRC = (
    "TAINT = %r\n"
    "class Obj:\n"
    "    def __init__(self, v): self.T = v\n"
    "    def __repr__(self): return 'Obj(%%r)' %% (self.T,)\n"
    "class StrObj:\n"
    "    def __str__(self): return TAINT\n"
    "    __repr__ = __str__\n"
    "ctx = {'x': TAINT, 'xn': %r, 'xu': %r, 'xu2': %r, 'l': [TAINT, 'T'], 'd': {'k': TAINT}, 'dk': {%r: TAINT},\n"
    "       'o': Obj(TAINT), 'ol': [Obj(TAINT), Obj('T')], 'os': StrObj()}\n"
) % (TAINT, XN, XU, XU2, KTAINT)

# --------------------------------------------------------------------------- carriers
# A carrier is (name, fmt): fmt contains "\0" where the carried expression goes.

E = "\0"
MENU = ("x", LIT, "1", '"T"', "true")
KW_EXTRA = {
    "by": ['"value"'], "method": ['"ceil"'], "attribute": ['"T"', "0"], "extra_schemes": ['["tt:"]', "l"],
    "width": ["3"], "length": ["3"], "linecount": ["2"], "slices": ["2"], "fill_with": [],
    "trim_url_limit": ["7", "8", "16", "20"],
}
# directed extra argument lists (beyond the generic menu) that reach a filter's data-dependent path
POS_EXTRA = {
    # a recognised URL longer than the limit whose first `limit` characters contain the taint -> trimmed link text
    "urlize": ["8", "16", "20", "16, true", "20, true, x", "16, true, x, x", "16, false, x, x, [\"tt:\"]",
               "trim_url_limit=16, nofollow=true, target=x, rel=x", "20, rel=x, extra_schemes=[\"tt:\"]",
               "8, target=%s" % LIT, "trim_url_limit=20, rel=%s" % LIT],
}
PASS_NAMES = ("environment", "env", "eval_ctx", "context")
SKIP_FILTERS = ("safe",)  # excluded by the property
MARKUP_FILTERS = ("urlize", "xmlattr", "tojson")


def _filters():
    from jinja2.defaults import DEFAULT_FILTERS

    return {n: f for n, f in sorted(DEFAULT_FILTERS.items()) if n not in SKIP_FILTERS}


def filter_params(f):
    """names of the parameters after the filtered value; whether *args/**kwargs follow."""
    try:
        ps = list(inspect.signature(f).parameters.values())
    except (TypeError, ValueError):
        return [], False
    if getattr(f, "jinja_pass_arg", None) is not None and ps and ps[0].name in PASS_NAMES:
        ps = ps[1:]
    ps = ps[1:]
    names = [p.name for p in ps if p.kind in (p.POSITIONAL_ONLY, p.POSITIONAL_OR_KEYWORD)]
    var = any(p.kind in (p.VAR_POSITIONAL, p.VAR_KEYWORD) for p in ps)
    return names, var


def _test_names():
    from jinja2.defaults import DEFAULT_TESTS

    return [n for n in sorted(DEFAULT_TESTS) if n.isidentifier()]


def var_arg_shapes(name):
    """argument lists for the *args/**kwargs filters (directed by their documentation)."""
    out = []
    if name == "format":
        out = [", ".join(t) for k in (1, 2) for t in itertools.product(MENU[:4], repeat=k)]
        out += ["k=x", "k=%s" % LIT, "x, k=x"]
    elif name == "map":
        out = ['"upper"', '"e"', '"escape"', '"forceescape"', '"string"', '"striptags"', '"urlize"', '"center"',
               '"replace", "T", x', '"replace", "T", %s' % LIT, '"format", x', '"indent", x, true', '"trim"',
               '"default", x', '"truncate", 1, true, x', '"join", x', '"list"', '"first"', 'attribute="T"',
               'attribute="T", default=x', 'attribute=0', "x", LIT, '"wordwrap", 1, true, x', '"tojson"',
               '"xmlattr"', '"title"', '"reverse"', '"attr", "T"']
    elif name in ("select", "reject"):
        out = [""]
        for t in _test_names():
            out += ['"%s"' % t, '"%s", x' % t]
        out += ['"in", l', '"in", [%s]' % LIT, "x", LIT]
    elif name in ("selectattr", "rejectattr"):
        out = ['"T"', "x", LIT, "0"]
        for t in _test_names():
            out += ['"T", "%s"' % t, '"T", "%s", x' % t]
    return out


def filter_shapes(name, f, level):
    """all call spellings `name(args)` of one filter for the level ('q' short, 't' long menu)."""
    names, var = filter_params(f)
    p = len(names)
    maxlen = min(p, {"min": 1, "q": 2, "t": 4}[level])
    shapes = [""]
    for k in range(1, maxlen + 1):
        shapes += [", ".join(t) for t in itertools.product(MENU, repeat=k)]
    for k in range(maxlen + 1, p + 1):
        shapes += [", ".join([m] * k) for m in ("x", LIT)]
    if level != "min":
        for n in names:
            shapes += ["%s=%s" % (n, m) for m in MENU + tuple(KW_EXTRA.get(n, ()))]
    shapes += POS_EXTRA.get(name, [])
    if var:
        vs = var_arg_shapes(name)
        shapes += vs[:8] if level == "min" else vs
    seen, out = set(), []
    for s in shapes:
        if s not in seen:
            seen.add(s)
            out.append((name, E + "|" + name + ("(" + s + ")" if s else "")))
    return out


def all_filter_shapes(level, only=None):
    out = []
    for n, f in _filters().items():
        if only is None or n in only:
            out += filter_shapes(n, f, level)
    return out


def extra_values(name):
    """additional filtered values that make a filter's interesting path reachable."""
    if name == "format":
        return ['"%s-%s"', '"%(k)s-%s"', '"[%s]"']
    if name == "urlize":
        return ["xu", "xu2", '"http://e.xy/?" ~ x', '"http://a.bc/%s"' % LIT[1:-1]]
    if name == "xmlattr":
        return ["dk", "{%s: %s}" % (KLIT, LIT), "dict(a=x)"]
    return []


OP_ARGS = ("x", LIT, '"T"', "1")


def op_carriers():
    out = []
    for a in OP_ARGS:
        out += [("op~", "((%s) ~ %s)" % (E, a)), ("op~", "(%s ~ (%s))" % (a, E)),
                ("op+", "((%s) + %s)" % (E, a)), ("op+", "(%s + (%s))" % (a, E)),
                ("op%", "((%s) %% %s)" % (E, a)), ("op%", '("%%s-%%s" %% ((%s), %s))' % (E, a))]
    out += [("op%", '("[%%s]" %% (%s))' % E), ("op%", '("%%(k)s" %% {"k": (%s)})' % E),
            ("op*", "((%s) * 2)" % E), ("op*", "(2 * (%s))" % E),
            ("cond", '((%s) if (%s) else "T")' % (E, E)), ("cond", '("T" if not (%s) else (%s))' % (E, E)),
            ("tuple", "((%s), x)" % E), ("list", "[(%s), %s]" % (E, LIT)), ("dict", '{"k": (%s)}' % E),
            ("dictkey", "{(%s): x}" % E), ("getitem", "(%s)[0]" % E), ("slice", "(%s)[1:4]" % E),
            ("getitem", '(%s)["k"]' % E), ("getattr", "(%s).T" % E), ("or", "((%s) or x)" % E),
            ("and", "((%s) and x)" % E)]
    for t in _test_names():
        out.append(("test", "((%s) if (%s) is %s else x)" % (E, E, t)))
    return out


METHODS = (
    "upper()", "lower()", "title()", "capitalize()", "swapcase()", "casefold()", "strip()", 'strip("&")',
    "lstrip()", "rstrip()", "center(12)", 'center(12, "T")', "center(12, x)", 'ljust(12, "T")', "zfill(12)",
    "format(x)", "format(k=x)", "format_map(d)", "join(l)", "join([x, %s])" % LIT, 'replace("T", x)',
    'replace("T", %s)' % LIT, "replace(x, x)", 'split("T")', 'rsplit("T", 1)', "splitlines()",
    'partition("T")', 'rpartition("T")', "expandtabs()", 'removeprefix("&")', 'removesuffix("&")',
    "unescape()", "striptags()", "__html__()", "__add__(x)", "__radd__(x)", "__mod__(x)", "__mul__(2)",
    "__getitem__(0)", '__html_format__("")', "encode()", "translate({})", "__str__()", "__repr__()",
    "__format__(\"\")",
)


def method_carriers():
    out = [("." + m.split("(")[0], "(%s).%s" % (E, m)) for m in METHODS]
    out += [(".format", '"{}-{}".format((%s), x)' % E), (".format", '"{0!r}{k}".format((%s), k=(%s))' % (E, E)),
            (".join", '"T".join([(%s), x])' % E), (".replace", '"TaT".replace("a", (%s))' % E),
            (".center", '"T".center(9, ((%s)|string)[0])' % E), ("%", '"%%s".__mod__((%s))' % E)]
    return out


def apply(expr, carrier):
    return carrier[1].replace(E, expr)


# --------------------------------------------------------------------------- frames
# « » mark the extent of the region in which autoescaping is active; @@ is the hole
# for an expression, @F@ the hole for a filter chain.


class Frame:
    def __init__(self, name, templates, vals=None, post=()):
        self.name = name
        self.templates = templates
        self.vals = vals  # None: data-in frame (any value); list: data-out frame, carriers apply to these
        self.post = tuple(post)  # carriers the frame itself applies after the hole


def _f(name, t, vals=None, post=(), **aux):
    d = {"t.html": t}
    for k, v in aux.items():
        d[k + ".html"] = v
    return Frame(name, d, vals, post)


DATA_IN = [
    _f("out", "«{{ @@ }}»"),
    _f("out-adjacent", "«a{{ @@ }}b{{ @@ }}»"),
    _f("set", "«{% set v = @@ %}{{ v }}»"),
    _f("with", "«{% with v = @@ %}{{ v }}{% endwith %}»"),
    _f("if", "«{% if @@ %}{{ @@ }}{% else %}{{ x }}{% endif %}»"),
    _f("for-item", "«{% for i in [@@, x] %}{{ i }}{% endfor %}»"),
    _f("for-else", "«{% for i in [] %}{% else %}{{ @@ }}{% endfor %}»"),
    _f("for-filter", "«{% for i in [@@, x] if i %}{{ i }}{{ loop.previtem }}{{ loop.nextitem }}{% endfor %}»"),
    _f("loop-cycle", "«{% for i in [1, 2] %}{{ loop.cycle(@@, x) }}{% endfor %}»"),
    _f("loop-recursive", "«{% for i in [[@@]] recursive %}{% if i is string %}{{ i }}{% else %}[{{ loop(i) }}]"
       "{% endif %}{% endfor %}»"),
    _f("macro-arg", "«{% macro m(a) %}[{{ a }}]{% endmacro %}{{ m(@@) }}»"),
    _f("macro-arg-toplevel", "{% macro m(a) %}«[{{ a }}]»{% endmacro %}«{{ m(@@) }}»"),
    _f("macro-default", "«{% macro m(a=@@) %}[{{ a }}]{% endmacro %}{{ m() }}»"),
    _f("macro-varargs", "«{% macro m() %}{{ varargs[0] }}{{ kwargs.k }}{% endmacro %}{{ m(@@, k=@@) }}»"),
    _f("macro-body", "«{% macro m() %}[{{ @@ }}]{% endmacro %}{{ m() }}»"),
    _f("macro-nested", "«{% macro m(a) %}{% macro n(b) %}{{ b }}{% endmacro %}{{ n(a) }}{% endmacro %}{{ m(@@) }}»"),
    _f("call-body", "«{% macro m() %}[{{ caller() }}]{% endmacro %}{% call m() %}{{ @@ }}{% endcall %}»"),
    _f("call-args", "«{% macro m(a) %}{{ caller(a) }}{% endmacro %}{% call(b) m(@@) %}[{{ b }}]{% endcall %}»"),
    _f("super", "{% extends \"p.html\" %}{% block b %}«[{{ super() }}]»{% endblock %}",
       p="{% block b %}«{{ @@ }}»{% endblock %}"),
    _f("super-super", "{% extends \"p.html\" %}{% block b %}«[{{ super.super() }}{{ super() }}]»{% endblock %}",
       p="{% extends \"q.html\" %}{% block b %}«({{ super() }})»{% endblock %}",
       q="{% block b %}«{{ @@ }}»{% endblock %}"),
    _f("child-block", "{% extends \"p.html\" %}{% block b %}«{{ @@ }}»{% endblock %}",
       p="[{% block b %}{% endblock %}]"),
    _f("self-block", "{% block b %}«{{ @@ }}»{% endblock %}«[{{ self.b() }}]»"),
    _f("block-in-region", "«{% block b %}{{ @@ }}{% endblock %}»"),
    _f("block-scoped", "{% block b scoped %}«{{ @@ }}»{% endblock %}"),
    _f("set-block", "«{% set v %}{{ @@ }}{% endset %}[{{ v }}]»"),
    _f("filter-block", "«{% filter upper %}{{ @@ }}{% endfilter %}»", post=("upper",)),
    _f("include", "«{% include \"inc.html\" %}»", inc="«{{ @@ }}»"),
    _f("include-list", "«{% include [\"nope.html\", \"inc.html\"] ignore missing %}»", inc="«{{ @@ }}»"),
    _f("import-arg", "{% import \"lib.html\" as lib %}«{{ lib.m(@@) }}»",
       lib="{% macro m(a) %}«[{{ a }}]»{% endmacro %}"),
    _f("from-import-arg", "{% from \"lib.html\" import m as mm %}«{{ mm(@@) }}»",
       lib="{% macro m(a) %}«[{{ a }}]»{% endmacro %}"),
    _f("import-body", "{% from \"lib.html\" import m with context %}«{{ m() }}»",
       lib="{% macro m() %}«[{{ @@ }}]»{% endmacro %}"),
    _f("import-var", "{% from \"lib.html\" import v with context %}«{{ v }}»", lib="{% set v = @@ %}"),
    _f("import-var-module", "{% import \"lib.html\" as lib with context %}«{{ lib.v }}»", lib="{% set v = @@ %}"),
    _f("joiner", "«{% set j = joiner(@@) %}{{ j() }}{{ j() }}{{ j() }}»"),
    _f("namespace", "«{% set ns = namespace(v=@@) %}{{ ns.v }}»"),
    _f("namespace-set", "«{% set ns = namespace() %}{% set ns.v = @@ %}{{ ns.v }}»"),
    _f("cycler", "«{% set c = cycler(@@, x) %}{{ c.next() }}{{ c.current }}{{ c.next() }}»"),
    _f("dict-xmlattr", "«{{ dict(a=@@)|xmlattr }}»", post=("xmlattr",)),
    _f("dictlit-xmlattr", "«{{ {\"a\": @@, \"b\": x}|xmlattr }}»", post=("xmlattr",)),
    _f("dictkey-xmlattr", "«{{ {@@: x}|xmlattr }}»", post=("xmlattr",)),
    _f("dictsort-loop", "«{% for k, v in {\"k\": @@}|dictsort %}{{ k }}{{ v }}{% endfor %}»"),
    _f("items-loop", "«{% for k, v in {\"k\": @@}|items %}{{ k }}{{ v }}{% endfor %}»"),
    _f("groupby-loop", "«{% for g in [{\"k\": @@}]|groupby(\"k\") %}{{ g.grouper }}{% for i in g.list %}{{ i.k }}"
       "{% endfor %}{% endfor %}»"),
]

def _trans_frames():
    out = []
    shapes = [
        ("trans-var", "{% trans v=@@ %}a{{ v }}b{% endtrans %}"),
        ("trans-bodyvar", "{% set w = @@ %}{% trans %}a{{ w }}b{% endtrans %}"),
        ("trans-ctx", "{% trans \"c\" v=@@ %}a{{ v }}b{% endtrans %}"),
        ("trans-plural", "{% trans n=2, v=@@ %}a{{ v }}{% pluralize %}{{ n }}a{{ v }}s{% endtrans %}"
                         "{% trans n=1, v=@@ %}a{{ v }}{% pluralize %}{{ n }}a{{ v }}s{% endtrans %}"),
        ("trans-ctx-plural", "{% trans \"c\" n=2, v=@@ %}a{{ v }}{% pluralize %}{{ n }}a{{ v }}s{% endtrans %}"
                             "{% trans \"c\" n=1, v=@@ %}a{{ v }}{% pluralize %}{{ n }}a{{ v }}s{% endtrans %}"),
        ("trans-count-var", "{% trans v=@@ %}a{{ v }}{% pluralize %}a{{ v }}s{% endtrans %}"),
        ("trans-in-macro", "{% macro m(a) %}{% trans v=a %}a{{ v }}b{% endtrans %}{% endmacro %}{{ m(@@) }}"),
        ("trans-trimmed", "{% trans trimmed v=@@ %}a {{ v }} b{% endtrans %}"),
    ]
    for name, body in shapes:
        out.append(_f(name + "-oldstyle", "«" + body + "»"))
        out.append(_f(name + "-newstyle", NEWSTYLE_MARK + "«" + body + "»"))
    return out


DATA_IN += _trans_frames()

DATA_OUT = [
    _f("macro-ret", "«{% macro m(a) %}[{{ a }}]{% endmacro %}{{ @@ }}»", ["m(x)", "m(%s)" % LIT]),
    _f("macro-ret-toplevel", "{% macro m(a) %}«[{{ a }}]»{% endmacro %}«{{ @@ }}»", ["m(x)"]),
    _f("caller-ret", "«{% macro m() %}{{ @@ }}{% endmacro %}{% call m() %}{{ x }}{% endcall %}»", ["caller()"]),
    _f("super-ret", "{% extends \"p.html\" %}{% block b %}«{{ @@ }}»{% endblock %}", ["super()"],
       p="{% block b %}«{{ x }}»{% endblock %}"),
    _f("self-block-ret", "{% block b %}«{{ x }}»{% endblock %}«{{ @@ }}»", ["self.b()"]),
    _f("set-block-ret", "«{% set v %}{{ x }}{% endset %}{{ @@ }}»", ["v"]),
    _f("import-ret", "{% import \"lib.html\" as lib %}«{{ @@ }}»", ["lib.m(x)"],
       lib="{% macro m(a) %}«[{{ a }}]»{% endmacro %}"),
    _f("loop-ret", "«{% for i in [[x]] recursive %}{% if i is string %}{{ i }}{% else %}{{ @@ }}{% endif %}"
       "{% endfor %}»", ["loop(i)"]),
]

FILTER_HOLE = [
    _f("filter-block-F", "«{% filter @F@ %}a{{ x }}b{% endfilter %}»", ["x"]),
    _f("filter-block-lit-F", "«{% filter @F@ %}{{ " + LIT + " }}{% endfilter %}»", ["x"]),
    _f("set-block-F", "«{% set v | @F@ %}{{ x }}{% endset %}{{ v }}»", ["x"]),
    _f("call-filter-F", "«{% macro m() %}{{ caller()|@F@ }}{% endmacro %}{% call m() %}{{ x }}{% endcall %}»", ["x"]),
]

FRAMES = {f.name: f for f in DATA_IN + DATA_OUT + FILTER_HOLE}

V_FULL = ("x", LIT, "l", LL, "d", LD, "ol", "xn")
V_THIN = ("o.T", "d.k", 'd["k"]', "l[0]", "os", "o", "dk", "xu", "(x,)", "{x: x}", "%s ~ x" % LIT, "x|e", "x|string")

REGION = {
    "static": ("", ""),
    "select": ("", ""),
    "blk-true": ("{% autoescape true %}", "{% endautoescape %}"),
    "blk-flag-off": ("{% autoescape flag %}", "{% endautoescape %}"),
    "blk-flag-on": ("{% autoescape flag %}", "{% endautoescape %}"),
}


def build(frame, expr, mode):
    o, c = REGION[mode]
    hole = "@F@" if "@F@" in frame.templates["t.html"] else "@@"
    return {n: s.replace("«", o).replace("»", c).replace(hole, expr) for n, s in frame.templates.items()}


def make_env(mode, templates):
    import jinja2

    if mode in ("static", "blk-flag-on"):
        auto = True
    elif mode == "select":
        auto = jinja2.select_autoescape(enabled_extensions=("html",), default_for_string=False, default=False)
    else:
        auto = False
    i18n = i18n_style(templates)
    env = jinja2.Environment(autoescape=auto, loader=jinja2.DictLoader(templates),
                             extensions=["jinja2.ext.i18n"] if i18n else [])
    if i18n:
        # identity translations; the translation STRING is template text (excluded by the property), the
        # variable VALUES of a trans block are data and must be escaped
        env.install_gettext_callables(
            lambda s: s, lambda s, p, n: s if n == 1 else p, newstyle=(i18n == "new"),
            pgettext=lambda c, s: s, npgettext=lambda c, s, p, n: s if n == 1 else p)
    env.globals["flag"] = True  # runtime-evaluated; a global so that imports without context see it too
    return env


def i18n_style(templates):
    """None | 'old' | 'new': trans frames carry a template comment that selects the gettext style."""
    text = "".join(templates.values())
    if "{% trans" not in text:
        return None
    return "new" if NEWSTYLE_MARK in text else "old"


def script_for(mode, templates):
    auto = {"static": "True", "blk-flag-on": "True", "select":
            "jinja2.select_autoescape(enabled_extensions=('html',), default_for_string=False, default=False)"}.get(
        mode, "False")
    return ("import jinja2, random\n" + CTX_SRC + "templates = %r\n" % (templates,)
            + "env = jinja2.Environment(autoescape=%s, loader=jinja2.DictLoader(templates)%s)\n" % (
                auto, ", extensions=['jinja2.ext.i18n']" if i18n_style(templates) else "")
            + ("env.install_gettext_callables(lambda s: s, lambda s, p, n: s if n == 1 else p, newstyle=%r, "
               "pgettext=lambda c, s: s, npgettext=lambda c, s, p, n: s if n == 1 else p)\n"
               % (i18n_style(templates) == "new") if i18n_style(templates) else "")
            + "env.globals['flag'] = True\nrandom.seed(0)\n"
            + "out = env.get_template('t.html').render(ctx)\n"
            + "print(out)\n"
            + "print('autoescaping is active for every {{ }} of these templates; raw metacharacters in the output:',"
              " sorted(set(c for c in out if c in '<>\"\\'')))\n")


# --------------------------------------------------------------------------- oracle

STRICT = re.compile(r"[<>\"']")
URLIZE_RE = re.compile(r"<a href=\"[^\"<>']*\"(?: rel=\"[^\"<>']*\")?(?: target=\"[^\"<>']*\")?>|</a>")
XMLATTR_RE = re.compile(r" ?[^\s/>=<\"']+=\"[^\"<>']*\"")
MARKER = re.compile(r"'|<T>|\"T'|>T<|'T\"", re.I)
ESCAPED = re.compile(r"&lt;|&gt;|&#34;|&#39;|&amp;|\\u003c|%3C")


def oracle_kind(chain, templates):
    """strict | direct:<filter> | marker — decided from the construction, not from the output."""
    text = "".join(templates.values())
    n = sum(text.count(m) for m in MARKUP_FILTERS)
    if n == 0:
        return "strict"
    last = chain[-1] if chain else None
    if n == 1 and last in MARKUP_FILTERS and chain.count(last) == 1:
        return "direct:" + last
    return "marker"


def leak_of(out, kind):
    """the leaked raw characters (a string, '' if none)."""
    if kind == "marker":
        return "".join(sorted(set(m.group(0) for m in MARKER.finditer(out))))
    if kind == "direct:urlize":
        out = URLIZE_RE.sub("", out)
    elif kind == "direct:xmlattr":
        out = XMLATTR_RE.sub("", out)
    elif kind == "direct:tojson":
        out = out.replace('"', "")  # CALIBRATED: documented to contain double quotes
    return "".join(sorted(set(STRICT.findall(out))))


def render(mode, templates):
    """-> ('ok', output) | ('err', class name)."""
    import random as _r  # only to pin the state read by jinja's own `random` filter

    _r.seed(0)
    try:
        with core.alarm(10):
            env = make_env(mode, templates)
            return ("ok", env.get_template("t.html").render(make_ctx()))
    except core.CaseTimeout:
        return ("err", "TIMEOUT")
    except RecursionError:
        return ("err", "RecursionError")
    except Exception as e:  # noqa: BLE001 - errors raised by a carrier are not leaks
        return ("err", type(e).__name__)


def run_case(p, mode, frame, val, chain):
    """chain: list of carriers applied to val inside frame."""
    expr = val
    for c in chain:
        expr = apply(expr, c)
    names = tuple(c[0] for c in chain) + frame.post
    if "@F@" in frame.templates["t.html"]:
        expr = expr[len(val) + 1:] if expr.startswith(val + "|") else None
        if expr is None:
            return
    templates = build(frame, expr, mode)
    p.evals += 1
    st, out = render(mode, templates)
    if st == "err":
        p.count("carrier_errors")
        p.count("err:" + out)
        if out == "TIMEOUT":
            p.violation("C15/timeout/%s/%s" % (frame.name, "+".join(names)),
                        {"msg": "render did not finish in 10 s: %r" % (templates,), "script": script_for(mode, templates)})
        return
    kind = oracle_kind(names, templates)
    if kind == "marker":
        p.count("marker_oracle_cases")
    leak = leak_of(out, kind)
    if ESCAPED.search(out):
        p.sig((frame.name, names, "escaped", mode in ("static", "select")))
        p.count("taint_reached_output_escaped")
    if len(p.samples) < 2 and chain:
        p.sample({"mode": mode, "templates": templates, "output": out, "oracle": kind}, cap=2)
    if leak:
        sig, mtempl, mmode, mout = minimise(mode, frame, val, chain, kind)
        p.violation(sig, {
            "msg": "mode=%s templates=%r rendered %r: raw %r in the output (oracle %s)" % (
                mmode, mtempl, mout, leak, kind),
            "mode": mmode, "templates": mtempl, "output": mout, "found_with": {"mode": mode, "templates": templates},
            "script": script_for(mmode, mtempl),
        })


_TRY_CACHE: dict = {}


def _try(mode, frame, val, chain):
    key = (mode, frame.name, val, tuple(c[1] for c in chain))
    if key not in _TRY_CACHE:
        if len(_TRY_CACHE) > 50000:
            _TRY_CACHE.clear()
        _TRY_CACHE[key] = _try_uncached(mode, frame, val, chain)
    return _TRY_CACHE[key]


def _try_uncached(mode, frame, val, chain):
    expr = val
    for c in chain:
        expr = apply(expr, c)
    if "@F@" in frame.templates["t.html"]:
        if not chain or not expr.startswith(val + "|"):
            return None
        expr = expr[len(val) + 1:]
    templates = build(frame, expr, mode)
    st, out = render(mode, templates)
    if st != "ok":
        return None
    names = tuple(c[0] for c in chain) + frame.post
    if leak_of(out, oracle_kind(names, templates)):
        return templates, out
    return None


MARKUP_VAL = "xn|e"  # canonical Markup-valued expression used to name "carrier applied to a Markup value"


def minimise(mode, frame, val, chain, kind):
    """smallest sub-case that still leaks -> narrow stable signature.

    Candidates, simplest first: the frame alone; each carrier alone on x / the literal / the original value /
    a Markup value in the plain output frame; the frame with one carrier; the whole chain in the plain frame;
    the case itself.  A filter-hole frame whose filter does not leak when applied to a Markup value in {{ }}
    is reported as the frame not escaping the filter result."""
    out_frame = FRAMES["out"]
    hole = "@F@" in frame.templates["t.html"]
    cands = [(out_frame, "x", [], "context-string"), (out_frame, LIT, [], "literal")]
    v0 = frame.vals[0] if frame.vals else "x"
    if not hole:
        cands.append((frame, v0, [], None))
        if not frame.vals:
            cands.append((frame, LIT, [], "literal"))
    for c in chain:
        cands.append((out_frame, "x", [c], None))
        cands.append((out_frame, LIT, [c], None))
        if not frame.vals:
            cands.append((out_frame, val, [c], None))
        cands.append((out_frame, MARKUP_VAL, [c], "markup+" + c[0]))
    if hole:
        cands.append((frame, v0, chain, "result-not-escaped"))
    for c in chain:
        cands.append((frame, v0, [c], None))
        cands.append((frame, val, [c], None))
    cands.append((out_frame, val if not frame.vals else "x", chain, None))
    cands.append((frame, val, chain, None))
    for fr, v, ch, label in cands:
        r = _try(mode, fr, v, ch)
        if r is not None:
            names = label or "+".join(c[0] for c in ch) or "-"
            sig = "C15/leak/%s/%s" % (fr.name, names)
            if not MARKER.search(r[1]):
                # no intact tainted sequence: the raw metacharacters come from the repr of untainted structure
                sig += "/structure"
            m = mode
            if mode != "static":
                r2 = _try("static", fr, v, ch)
                if r2 is not None:
                    r, m = r2, "static"
                else:
                    sig += "@" + ("volatile" if "flag" in mode else mode)
            return sig, r[0], m, r[1]
    names = "+".join(c[0] for c in chain) or "-"
    return "C15/leak/%s/%s@%s" % (frame.name, names, mode), build(frame, val, mode), mode, "?"


# --------------------------------------------------------------------------- shards

def chunks(xs, n):
    k = max(1, (len(xs) + n - 1) // n)
    return [xs[i:i + k] for i in range(0, len(xs), k)]


def shard_d1(arg):
    """frame x one filter (all shapes of level) / ops / methods x values x modes."""
    frame_name, what, level, vals, modes = arg
    p = core.Part()
    frame = FRAMES[frame_name]
    if what == "ops":
        carriers = op_carriers()
        extra = []
    elif what == "methods":
        carriers = method_carriers()
        extra = []
    else:
        carriers = filter_shapes(what, _filters()[what], level)
        extra = extra_values(what) if frame.vals is None else []
    for v in list(frame.vals if frame.vals is not None else vals) + extra:
        for c in carriers:
            for mode in modes:
                run_case(p, mode, frame, v, [c])
    fam = ("output_x_carrier" if frame_name == "out" else "filter_hole_x_filter" if "@F@" in frame.templates["t.html"]
           else "markup_value_x_carrier" if frame.vals is not None else "frame_x_carrier")
    p.count("cases_" + fam, p.evals)
    return p


def representatives(what, cap):
    """depth-1 expressions over V_FULL (+extras) with distinct (type, value) results, errors dropped."""
    import jinja2

    env = jinja2.Environment(autoescape=True)
    if what == "ops":
        carriers, extra = op_carriers(), []
    elif what == "methods":
        carriers, extra = method_carriers(), []
    else:
        carriers, extra = filter_shapes(what, _filters()[what], "q"), extra_values(what)
    seen, reps = {}, []
    for v in list(V_FULL) + extra:
        for c in carriers:
            expr = apply(v, c)
            try:
                with core.alarm(10):
                    val = env.compile_expression(expr, undefined_to_none=False)(**make_ctx())
                    if hasattr(val, "__next__"):
                        val = ("iter", [str(i) for i in val])
                    key = (type(val).__name__, str(val) if not isinstance(val, jinja2.Undefined) else "")
            except core.CaseTimeout:
                continue
            except Exception:  # noqa: BLE001
                continue
            if key in seen:
                continue
            seen[key] = expr
            reps.append((v, c))
    # prefer variety of types: stable order, one per type first
    by_type, rest = {}, []
    for (v, c), key in zip(reps, seen):
        if key[0] not in by_type:
            by_type[key[0]] = (v, c)
        else:
            rest.append((v, c))
    ordered = list(by_type.values()) + rest
    return ordered[:cap], len(ordered)


def shard_d2(arg):
    """filter x filter: representatives of the inner carrier x every shape of the outer filters."""
    inner, outers, level, modes, cap = arg
    p = core.Part()
    reps, total = representatives(inner, cap)
    frame = FRAMES["out"]
    fs = _filters()
    for outer in outers:
        shapes = filter_shapes(outer, fs[outer], level) if outer in fs else (
            op_carriers() if outer == "ops" else method_carriers())
        for v, c1 in reps:
            for c2 in shapes:
                for mode in modes:
                    run_case(p, mode, frame, v, [c1, c2])
    p.count("cases_carrier_x_carrier", p.evals)
    if "abs" in outers:  # count each inner carrier once, not once per outer group
        p.count("inner_representatives", len(reps))
        p.count("inner_representatives_dropped_by_cap", total - len(reps))
    return p


# constant-only concatenations: every operand is a compile-time constant, at least one folds to Markup, at least
# one is a plain literal with metacharacters (Concat.as_const must behave like runtime markup_join)
CONCAT_SAFE = (
    ("e", '("b"|e)'), ("e-taint", "(%s|e)" % LIT), ("escape", '("b"|escape)'), ("forceescape", '("b"|forceescape)'),
    ("xmlattr", '({"k": "v"}|xmlattr)'), ("tojson", '("b"|tojson)'), ("urlize", '("http://a.bc/d"|urlize)'),
)
CONCAT_PLAIN = (("str", '"b"'), ("int", "2"))


def concat_cases(maxlen):
    """(labels, literal expression, data expression): 2..maxlen operands, >= 1 tainted literal, >= 1 safe constant."""
    menu = (("literal", None),) + CONCAT_SAFE + CONCAT_PLAIN
    safe = {n for n, _ in CONCAT_SAFE}
    for k in range(2, maxlen + 1):
        for ops in itertools.product(menu, repeat=k):
            names = [n for n, _ in ops]
            if "literal" not in names or not (safe & set(names)):
                continue
            lit = " ~ ".join(LIT if e is None else e for _, e in ops)
            dat = " ~ ".join("x" if e is None else e for _, e in ops)
            yield tuple(names), lit, dat


def shard_concat(arg):
    frame_names, maxlen, modes = arg
    p = core.Part()
    for fn in frame_names:
        frame = FRAMES[fn]
        for names, lit, dat in concat_cases(maxlen):
            for mode in modes:
                outs = []
                for expr in (lit, dat):
                    templates = build(frame, expr, mode)
                    p.evals += 1
                    st, out = render(mode, templates)
                    outs.append((st, out))
                    if st != "ok":
                        p.count("carrier_errors")
                        p.count("err:" + out)
                        continue
                    kind = oracle_kind((), templates)
                    if ESCAPED.search(out):
                        p.sig((fn, "concat", names, expr is lit))
                        p.count("taint_reached_output_escaped")
                    leak = leak_of(out, kind)
                    if leak:
                        # narrow the signature to an adjacent pair of operands when that already leaks
                        label = "~".join(names)
                        culprit = _concat_culprit(frame, mode, names, expr is lit, kind) or label
                        p.violation("C15/leak/const-concat/%s%s" % (
                            "literal" if expr is lit else "data",
                            "" if mode in ("static", "select") else "@" + ("volatile" if "flag" in mode else mode)), {
                            "msg": "mode=%s templates=%r rendered %r: raw %r in the output (oracle %s; smallest leaking "
                                   "operand pair: %s)" % (mode, templates, out, leak, kind, culprit),
                            "mode": mode, "templates": templates, "output": out, "script": script_for(mode, templates)})
                if outs[0][0] == "ok" and outs[1][0] == "ok" and outs[0][1] != outs[1][1]:
                    p.violation("C15/const-concat-differs-from-data", {
                        "msg": "mode=%s frame=%s: %r rendered %r but with the literal passed as data (%r) %r" % (
                            mode, fn, lit, outs[0][1], dat, outs[1][1]),
                        "mode": mode, "templates": build(frame, lit, mode), "script": script_for(mode, build(frame, lit, mode))})
        p.sample({"frame": fn, "expression": lit, "data_variant": dat}, cap=1)
    p.count("cases_const_concat", p.evals)
    return p


def _concat_culprit(frame, mode, names, literal, kind):
    menu = dict((("literal", LIT if literal else "x"),) + CONCAT_SAFE + CONCAT_PLAIN)
    for i in range(len(names) - 1):
        pair = names[i:i + 2]
        if "literal" not in pair:
            continue
        expr = " ~ ".join(menu[n] for n in pair)
        templates = build(frame, expr, mode)
        st, out = render(mode, templates)
        if st == "ok" and leak_of(out, oracle_kind((), templates)):
            return "~".join(pair)
    return None


def shard_frames(arg):
    """data-in frames x values (no carrier) x modes, plus thin values."""
    frame_names, vals, modes = arg
    p = core.Part()
    for fn in frame_names:
        frame = FRAMES[fn]
        for v in vals:
            for mode in modes:
                run_case(p, mode, frame, v, [])
    p.count("cases_frame_x_value", p.evals)
    return p


def run(ctx: core.Ctx):
    core.import_all_jinja()
    fnames = list(_filters())
    ctx.rule = ("every template frame[c2(c1(value))]: frames = %d structural carriers, c = every DEFAULT_FILTERS entry "
                "except safe with all argument tuples over the menu (x, tainted literal, 1, \"T\", true) up to its "
                "arity (quick: length<=2 + diagonals + keyword singles; thorough: length<=4), every identifier-named "
                "test via select/reject/selectattr/rejectattr and `is`, operators, string methods; 5 autoescape "
                "modes; non-trivial = rendered without error AND an escaped form of a tainted character is in the "
                "output; distinct = (frame, carrier names, static-or-block mode class)" % len(FRAMES))
    ctx.assumptions += [
        "errors raised by a carrier (TypeError for nonsensical arguments etc.) are not leaks; counted per class in err:*",
        "documented markup removed by strict regex only when the urlize/xmlattr/tojson result goes straight to the "
        "output: <a href=\"..\"( rel=\"..\")?( target=\"..\")?>, </a>;  key=\"value\" pairs; JSON string tokens",
        "CALIBRATED: tojson is documented to leave double quotes (docs: unsafe only inside double-quoted attributes), "
        "so JSON string delimiters are treated like urlize/xmlattr markup",
        "when urlize/xmlattr/tojson output is processed by another carrier the weaker marker oracle is used "
        "(raw ' or intact <T> / \"T' sequences)",
        "macros, blocks, includes and imported templates are always written inside an active autoescape region "
        "(autoescape-off regions are excluded by the property)",
        "the global random state is seeded before each render only because the `random` filter reads it",
    ]
    q = ctx.quick
    lvl = "q" if q else "t"
    shards = []
    units = fnames + ["ops", "methods"]
    # 1. plain output x every carrier x all values x all modes
    for u in units:
        for vs in (V_FULL[:4], V_FULL[4:]):
            shards.append((shard_d1, ("out", u, lvl, vs, MODES)))
    # 2. frames x values without carrier (all modes)
    allv = V_FULL + V_THIN
    for fr in chunks([f.name for f in DATA_IN], 12):
        shards.append((shard_frames, (fr, allv, MODES)))
    shards.append((shard_frames, (["out"], V_THIN, MODES)))
    qmodes = ("static", "blk-flag-off") if q else MODES
    # 2b. constant-only concatenations (compile-time folded) and their data variants
    for fn in (("out",), ("set", "macro-default", "out-adjacent")):
        shards.append((shard_concat, (fn, 3, MODES if fn == ("out",) or not q else qmodes)))
    # 3. data-out frames (Markup-valued results) x every carrier
    for f in DATA_OUT:
        for u in units:
            shards.append((shard_d1, (f.name, u, lvl, (), qmodes)))
    # 4. filter-hole frames x every filter shape
    for f in FILTER_HOLE:
        for u in fnames:
            shards.append((shard_d1, (f.name, u, lvl, (), qmodes)))
    # 5. data-in frames x carriers (frame x filter), two values
    d5_frames = [f.name for f in DATA_IN if f.name != "out"]
    if q:
        d5_frames = ["macro-arg", "call-body", "set-block", "include"]
    for fn in d5_frames:
        for u in units:
            shards.append((shard_d1, (fn, u, "q", ("x", LIT), qmodes)))
    # 6. filter x filter (and ops/methods on either side)
    d6_modes = ("static",) if q else ("static", "blk-true", "blk-flag-off")
    outer_groups = chunks(fnames if q else units, 1 if q else 4)
    for inner in units:
        for og in outer_groups:
            shards.append((shard_d2, (inner, og, "min" if q else "q", d6_modes, 2 if q else 12)))
    ctx.pmap(_dispatch, shards)
    ctx.cov["bounds"] = {
        "tier": ctx.tier, "filters": len(fnames), "tests": len(_test_names()), "frames": len(FRAMES),
        "modes": len(MODES), "argument_tuple_length": 2 if q else 4,
        "filter_shapes": len(all_filter_shapes(lvl)), "op_carriers": len(op_carriers()),
        "method_carriers": len(method_carriers()),
        "depth2": "carrier x carrier with <=%d inner representatives per inner carrier (distinct result type/value), "
                  "outer menu %s, modes %s; frame x carrier on values x and literal: frames %s, modes %s; "
                  "Markup-valued frame results and filter-hole frames x every carrier in modes %s" % (
                      2 if q else 12, "minimal (arity<=1 tuples + diagonals)" if q else "short (arity<=2 tuples)",
                      list(d6_modes), d5_frames if q else "all %d" % len(d5_frames), list(qmodes), list(qmodes)),
    }
    if ctx.counters.get("inner_representatives_dropped_by_cap"):
        ctx.assumptions.append("carrier x carrier: %d inner result classes beyond the per-carrier cap were not used as "
                               "inner expressions (thinning, stated in bounds)"
                               % ctx.counters["inner_representatives_dropped_by_cap"])


def _dispatch(arg):
    fn, a = arg
    return fn(a)
