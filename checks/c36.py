"""C36 — async rendering closes every async generator it opens (E4 + E5)."""
from __future__ import annotations

from vf import core, e4

META = {
    "level": "fault_enumeration",
    "engine": "E4",
    "technique": "exhaustive enumeration of every cancel point, every consumer-stop point and every data-fault point of "
    "hand-driven async renders, with async generators tracked through the interpreter's asyncgen hooks",
    "text": "For a family of template shapes (blocks, nested blocks, super, include, extends chains, loop filters, recursive "
    "loops, async data iterables, break, macros, call blocks, imports) with gated async data: the render is driven by "
    "hand (no event loop, so no shutdown_asyncgens safety net) to completion, with the consumer closing after k chunks "
    "for every k, with a cancellation thrown at the k-th suspension for every k, and with a data exception thrown at the "
    "k-th suspension for every k, through both render_async and generate_async.  When the driven coroutine/generator "
    "has finished, every async generator that started and whose code belongs to compiled template code must be closed, "
    "the interpreter's finalizer hook must not have been needed for any of them after gc, and no RuntimeWarning may be emitted.",
    "note": "Bounded: the template family below, <= 3 gates per data function; cancellation is modelled by throwing a "
    "BaseException at a suspension (what asyncio does); generators owned by data objects or by filter implementations are "
    "counted informationally only (the property lists template, block, include, parent and loop-filter generators).",
    "design_ref": "DESIGN.md §4 C36, §3 E4",
}


class Boom(Exception):
    pass


TEMPLATES = {
    "plain": "a{{ f('1') }}b{{ f('2') }}c",
    "block": "x{% block b %}[{{ f('1') }}|{{ f('2') }}]{% endblock %}y{{ f('3') }}",
    "nested": "{% block a %}<{{ f('1') }}{% block b %}({{ f('2') }}){% endblock %}{{ f('3') }}>{% endblock %}",
    "base": "B{% block a %}ba{{ f('b1') }}{% endblock %}M{% block c %}bc{{ f('b2') }}{% endblock %}E",
    # placeholder blocks (empty, whitespace-only, only a nested block) filled in by a child / grandchild
    "ebase": "A{% block t %}{% endblock %}B{% block u %} {% endblock %}C{% block w %}{% block w2 %}{% endblock %}{% endblock %}D{{ f('9') }}",
    "echild": "{% extends 'ebase' %}{% block t %}x{{ f('1') }}y{{ f('2') }}{% endblock %}{% block u %}u{{ f('3') }}{% endblock %}{% block w2 %}w{{ f('4') }}v{% endblock %}",
    "emid": "{% extends 'ebase' %}{% block t %}{% endblock %}{% block u %}{{ super() }}{% endblock %}",
    "egrand": "{% extends 'emid' %}{% block t %}g{{ f('1') }}h{% endblock %}{% block u %}{{ super() }}k{{ f('2') }}{% endblock %}",
    "child": "{% extends 'base' %}{% block a %}ca{{ f('1') }}{{ super() }}{{ f('2') }}{% endblock %}",
    "grand": "{% extends 'child' %}{% block a %}ga{{ f('g1') }}{{ super() }}{% endblock %}{% block c %}gc{{ f('g2') }}{% endblock %}",
    "selfcall": "{% block a %}A{{ f('1') }}{% endblock %}-{{ self.a() }}-{{ f('2') }}",
    "inc": "i{{ f('i1') }}{% for x in items %}{{ x }}{{ f('i2') }}{% endfor %}",
    "include": "p{% include 'inc' %}q{{ f('1') }}",
    "include_noctx": "p{% include 'inc2' without context %}q{{ f('1') }}",
    "inc2": "J{{ f('j1') }}{% block jb %}{{ f('j2') }}{% endblock %}",
    "include_in_block": "{% block a %}{% include 'inc2' %}{{ f('1') }}{% endblock %}",
    "include_in_loop": "{% for x in items %}{% include 'inc2' %}{% endfor %}",
    "loopfilter": "{% for x in items if x != 2 %}{{ x }}{{ f('1') }}{% endfor %}z",
    "loopfilter_gate": "{% for x in items if g(x) %}{{ x }}{{ f('1') }}{% endfor %}z",
    "loopfilter_agen": "{% for x in agen(3) if x != 1 %}{{ x }}{{ f('1') }}{% endfor %}z",
    "loopfilter_else": "{% for x in items if x > 5 %}{{ x }}{% else %}E{{ f('1') }}{% endfor %}z",
    "loopfilter_nested": "{% for x in items if x != 2 %}{% for y in items if y != x %}{{ y }}{{ f('1') }}{% endfor %}{% endfor %}",
    "loopfilter_block": "{% block a %}{% for x in items if x != 2 %}{{ f('1') }}{% endfor %}{% endblock %}",
    # filtered loops inside buffered frames (macro, call block, block assignment, filter block)
    "loopfilter_in_macro": "{% macro m() %}{% for x in items if x != 2 %}{{ x }}{{ f('1') }}{% endfor %}{% endmacro %}[{{ m() }}]{{ f('2') }}",
    "loopfilter_in_callblock": "{% macro w() %}({{ caller() }}){% endmacro %}{% call w() %}{% for x in items if x != 2 %}{{ x }}{{ f('1') }}{% endfor %}{% endcall %}",
    "loopfilter_in_setblock": "{% set v %}{% for x in items if x != 2 %}{{ x }}{{ f('1') }}{% endfor %}{% endset %}{{ v }}{{ f('2') }}",
    "loopfilter_in_filterblock": "{% filter upper %}{% for x in agen(3) if x != 1 %}{{ x }}{{ f('1') }}{% endfor %}{% endfilter %}",
    "loopfilter_in_macro_break": "{% macro m() %}{% for x in items if x != 9 %}{{ f('1') }}{% if x == 2 %}{% break %}{% endif %}{% endfor %}{% endmacro %}[{{ m() }}]",
    "loopfilter_with_include": "{% for x in items if x != 2 %}{% include 'inc2' %}{{ f('1') }}{% endfor %}",
    "loopfilter_with_block": "{% for x in items if x != 2 %}{% block a scoped %}{{ x }}{{ f('1') }}{% endblock %}{% endfor %}",
    "loopfilter_recursive_in_macro": "{% macro m() %}{% for n in tree if n.v != 9 recursive %}{{ n.v }}{{ f('1') }}{% if n.c %}({{ loop(n.c) }}){% endif %}{% endfor %}{% endmacro %}{{ m() }}",
    "cond_extends": "{% if lay %}{% extends lay %}{% endif %}{% block a %}ca{{ f('1') }}{% endblock %}x{{ f('2') }}",
    "cond_extends_mid": "{% extends 'cond_extends' %}{% block a %}ga{{ f('g') }}{{ super() }}{% endblock %}",
    "dyn_extends": "{% extends lay %}{% block a %}da{{ f('1') }}{{ super() }}{% endblock %}{% block c %}dc{% endblock %}",
    "expr_extends": "{% extends lay if lay else 'base' %}{% block a %}ea{{ f('1') }}{% endblock %}",
    "loop_agen": "{% for x in agen(2) %}{{ x }}{{ f('1') }}{% endfor %}z",
    "loop_agen_length": "{% for x in agen(2) %}{{ loop.length }}{{ f('1') }}{% endfor %}",
    # loops over a synchronous generator object handed in as data (the engine adapts it for `async for`)
    "syncgen_loop_break": "{% for x in sgen(3) %}{{ f('1') }}{% if x == 1 %}{% break %}{% endif %}{{ x }}{% endfor %}z{{ f('2') }}",
    "syncgen_loopctx": "{% for x in sgen(3) %}{{ loop.index }}{{ f('1') }}{% if x == 1 %}{% break %}{% endif %}{% endfor %}z",
    "syncgen_loopfilter_break": "{% for x in sgen(3) if x != 9 %}{{ f('1') }}{% if x == 1 %}{% break %}{% endif %}{% endfor %}z{{ f('2') }}",
    "syncgen_in_macro": "{% macro m() %}{% for x in sgen(2) %}{{ f('1') }}{% endfor %}{% endmacro %}[{{ m() }}]{{ f('2') }}",
    "loop_break": "{% for x in items %}{{ f('1') }}{% if x == 2 %}{% break %}{% endif %}{{ x }}{% endfor %}z",
    "loopfilter_break": "{% for x in items if x != 9 %}{{ f('1') }}{% if x == 2 %}{% break %}{% endif %}{{ x }}{% endfor %}z{{ f('2') }}",
    "loop_continue": "{% for x in items %}{% if x == 2 %}{% continue %}{% endif %}{{ x }}{{ f('1') }}{% endfor %}",
    "recursive": "{% for n in tree recursive %}{{ n.v }}{{ f('1') }}{% if n.c %}({{ loop(n.c) }}){% endif %}{% endfor %}",
    "recursive_filter": "{% for n in tree if n.v != 9 recursive %}{{ n.v }}{{ f('1') }}{% if n.c %}({{ loop(n.c) }}){% endif %}{% endfor %}",
    "macro": "{% macro m(a) %}<{{ a }}{{ f('m') }}>{% endmacro %}{{ m(1) }}{{ f('1') }}{{ m(2) }}",
    "callblock": "{% macro m() %}[{{ caller() }}]{% endmacro %}{% call m() %}c{{ f('1') }}{% endcall %}{{ f('2') }}",
    "lib": "{% macro lm(a) %}L{{ a }}{{ f('l') }}{% endmacro %}{% set lv = 5 %}",
    "import": "{% import 'lib' as l %}{{ l.lm(1) }}{{ f('1') }}",
    "fromimport_ctx": "{% from 'lib' import lm with context %}{{ lm(2) }}{{ f('1') }}",
    "setblock": "{% set v %}s{{ f('1') }}{% endset %}{{ v }}{{ f('2') }}",
    "filterblock": "{% filter upper %}f{{ f('1') }}{% endfilter %}{{ f('2') }}",
    "with": "{% with a = f('1') %}{{ a }}{{ f('2') }}{% endwith %}",
    "ifelse": "{% if f('1') %}y{{ f('2') }}{% else %}n{% endif %}",
    "filter_map": "{{ agen(2)|map('string')|join(',') }}{{ f('1') }}",
    "filter_list": "{{ agen(3)|list|length }}{{ f('1') }}",
    "filter_select": "{% for x in agen(3)|select('odd') %}{{ x }}{{ f('1') }}{% endfor %}",
    "block_in_loop": "{% for x in items %}{% block a scoped %}{{ x }}{{ f('1') }}{% endblock %}{% endfor %}",
    "super_loopfilter": "{% extends 'base' %}{% block a %}{% for x in items if x != 2 %}{{ super() }}{% endfor %}{% endblock %}",
}
HELPERS = {"base", "inc", "inc2", "lib", "ebase", "emid"}


def make_env():
    import jinja2

    env = jinja2.Environment(
        loader=jinja2.DictLoader(TEMPLATES), enable_async=True, extensions=["jinja2.ext.loopcontrols"],
        cache_size=0,
    )
    d = make_data()
    # the gated data functions are stateless; as globals they are also visible to context-free includes/imports
    env.globals.update(f=d["f"], g=d["g"], agen=d["agen"])
    return env


def make_data():
    async def f(label):
        await e4.Gate(label)
        return label

    async def g(x):
        await e4.Gate("g%s" % x)
        return x != 2

    async def agen(n):
        for i in range(n):
            await e4.Gate("ag%d" % i)
            yield i

    def sgen(n):
        yield from range(n)

    class N:
        def __init__(self, v, c=()):
            self.v = v
            self.c = list(c)

    return {"f": f, "g": g, "agen": agen, "sgen": sgen, "lay": "base", "items": [1, 2, 3], "tree": [N(1, [N(2), N(3, [N(4)])]), N(5)]}


def classify(fn, name, src_root):
    if fn == "<template>" or fn in TEMPLATES:
        if name == "root":
            return "template", "root"
        if name.startswith("block_"):
            return "template", "block"
        if name.startswith("t_"):
            return "template", "loop-filter"
        return "template", name
    if fn.startswith(src_root):
        base = fn.rsplit("/", 1)[-1]
        if base != "filters.py":
            # adapters and helpers the engine opens on behalf of the template's own statements (iteration adapters of
            # async_utils, runtime loop machinery, environment render drivers) are the template's generators too;
            # generators inside filter implementations stay informational (they belong to the filter's contract)
            return "template", "engine:" + base + ":" + name
        return "jinja", base + ":" + name
    return "data", name


def shard(name):
    import jinja2

    p = core.Part()
    src_root = core.SRC
    env = make_env()

    def mk(entry):
        def make():
            t = env.get_template(name)
            d = make_data()
            if entry == "render":
                return "coro", t.render_async(**d)
            return "agen", t.generate_async(**d)
        return make

    def judge(entry, mode, k, ob):
        p.evals += 1
        fired = True
        outcome = type(ob.exc).__name__ if ob.exc is not None else "ok"
        p.sig((name, entry, mode, outcome, tuple(sorted(set(ob.open)))))
        bad = []
        for fn, nm in ob.open:
            own, kind = classify(fn, nm, src_root)
            if own == "template":
                bad.append(("unclosed", kind))
            else:
                p.count("informational_open_%s_generators" % own)
        for fn, nm in ob.finalized:
            own, kind = classify(fn, nm, src_root)
            if own == "template":
                bad.append(("unclosed", kind))
        for cat, msg in ob.warnings:
            if cat == "RuntimeWarning":
                bad.append(("warning", msg.split("'")[0].strip()[:40]))
        # expected terminal state of the render itself
        if mode == "cancel" and not isinstance(ob.exc, e4.Cancelled):
            bad.append(("cancel-swallowed", outcome))
        if mode == "complete" and ob.exc is not None:
            bad.append(("complete-raised", outcome))
        for what, kind in sorted(set(bad)):
            trig = mode
            if mode == "complete" and "break" in name:
                trig = "break"
            sig = f"C36/{what}/{kind}/{trig}"
            p.violation(sig, {
                "msg": f"template {name!r} via {entry} mode={mode} k={k}: {what} {kind}; open={ob.open} "
                       f"finalized={ob.finalized} warnings={ob.warnings} outcome={outcome}",
                "template": name, "source": TEMPLATES[name], "entry": entry, "mode": mode, "k": k,
                "script": f"from checks import c36\nc36.replay({name!r}, {entry!r}, {mode!r}, {k!r})\n",
            })
        return fired

    for entry in ("render", "generate"):
        base = e4.observe(mk(entry), "complete")
        judge(entry, "complete", None, base)
        if base.exc is not None:
            continue
        p.count("suspension_points", base.suspensions)
        for k in range(1, base.suspensions + 1):
            judge(entry, "cancel", k, e4.observe(mk(entry), "cancel", k))
            judge(entry, "raise", k, observe_raise(mk(entry), k))
        if entry == "generate":
            p.count("chunk_points", base.chunks)
            for k in range(0, base.chunks + 1):
                judge(entry, "close", k, e4.observe(mk(entry), "close", k))
    p.sample({"template": name, "source": TEMPLATES[name], "modes": ["complete", "cancel@k", "raise@k", "close@k"]}, cap=1)
    return p


def observe_raise(make, k):
    """data raises an ordinary exception at the k-th suspension."""
    import vf.e4 as m

    saved = m.Cancelled
    try:
        m.Cancelled = Boom
        return m.observe(make, "cancel", k)
    finally:
        m.Cancelled = saved


def replay(name, entry, mode, k):
    core.import_all_jinja()
    env = make_env()

    def make():
        t = env.get_template(name)
        d = make_data()
        return ("coro", t.render_async(**d)) if entry == "render" else ("agen", t.generate_async(**d))

    ob = observe_raise(make, k) if mode == "raise" else e4.observe(make, mode, k)
    print("template:", TEMPLATES[name])
    print("result:", ob.result, "exc:", repr(ob.exc))
    print("open generators at finish:", ob.open)
    print("needed the finalizer hook:", ob.finalized)
    print("warnings:", ob.warnings)


def run(ctx: core.Ctx):
    core.import_all_jinja()
    ctx.rule = ("every (template shape, entry point, mode, k) with mode in complete / cancel at k-th suspension / data "
                "exception at k-th suspension / consumer aclose after k chunks, for every k; distinct = distinct "
                "(template, entry, mode, outcome class, set of generators left open)")
    ctx.assumptions += [
        "cancellation = a BaseException thrown into the coroutine at a suspension point (asyncio's mechanism)",
        "no event loop is running, so nothing closes generators behind the render's back",
        "template-owned generator = code object compiled from a template (root, block_*, loop filter t_*) or an async "
        "generator of jinja2 outside filters.py opened for a template statement (iteration adapters, render drivers)",
    ]
    names = [n for n in TEMPLATES if n not in HELPERS]
    ctx.pmap(shard, names)
    ctx.cov["fault_positions_total"] = ctx.counters.get("suspension_points", 0) * 2 + ctx.counters.get("chunk_points", 0)
    ctx.cov["template_shapes"] = len(names)
