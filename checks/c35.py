"""C35 — errors point at the template line that caused them.

Templates are *built from a list of lines* (so the line of every construct is
known by construction, independently of jinja's lexer), joined with every
line-break form, and carry exactly one fault: a call that raises a private
exception, or a malformed token.  The oracle compares the innermost template
frame of the re-raised traceback / TemplateSyntaxError.lineno with the
position the fault was put at.
"""
from __future__ import annotations

import itertools

from vf import core

META = {
    "level": "exploration",
    "engine": "E1",
    "technique": "bounded-exhaustive enumeration of line-structured templates (nesting context x fault line x line-break "
    "form x whitespace control x preceding multi-line construct x fault form) against the by-construction position "
    "of the single fault",
    "text": "Every template of the space is assembled from a list of source lines, so the 1-based line of the fault "
    "(counting \\n, \\r\\n and \\r as line breaks) and the file that contains it are known without consulting jinja.  "
    "Space A (lexer-centric): 4 contexts x every fault position in 2-6 line skeletons x 4 line-break forms x "
    "trim_blocks/lstrip_blocks x 16 whitespace-control settings of the neighbouring and the faulty tag x 13 preceding "
    "multi-line constructs (comment, raw, string literal, expression, tag; own line or glued to the fault line) x 7 "
    "fault forms (1 863 680 cases).  Space B (compiler/debug-centric): 32 nesting contexts (blocks, overridden blocks, super(), macros, "
    "call blocks, loops, filtered loops, conditionals, set/filter blocks, includes, imports, parents, two-level nestings) x positions "
    "x 2 line-break forms x 4 flag settings (trim+lstrip, enable_async) x 4 whitespace settings x 3 preceding constructs x 10 fault forms x 2 filler kinds (constant-folded / variable; 1 228 800 cases).  Space C (expression / tag-argument faults): 10 contexts (incl. a template rendered by a global called from another template) x "
    "positions x 45 forms with the raising call as an operand of every operator, comparison, conditional arm, filter / test argument, "
    "literal item, subscript and call argument directly in an output tag, plus 46 forms with the raising call (or a generated-code error: namespace check, filter/test unknown at compile time) in the tag that opens a "
    "construct or branch (elif condition, else / for-else body, loop filter, macro and call-block defaults, call argument, with / "
    "set values, filter-block and set-block filter arguments, include / import target, autoescape argument, trans variables, do, debug, caller arguments) x sync/async x 2 "
    "preceding constructs x 2 filler kinds (36 400 quick, 1 747 200 thorough).  "
    "Runtime faults: the innermost traceback frame whose code filename is a template filename must be (file of the "
    "fault, line of the fault) and the exception must be the very object raised.  Syntax faults: TemplateSyntaxError "
    "lineno/name/filename and the synthetic traceback frame must be that position.",
    "note": "Templates come from a FunctionLoader that supplies a distinct file name per template.  Faults are single-line "
    "constructs (plus two syntax faults whose offending token is on the line after the tag start).  Bounds: quick "
    "skeletons of 2-3 lines, 2 contexts / 2 flag settings / 8 whitespace settings / 4 fault forms in space A, 2 whitespace settings in space B (33 280 + 153 600 "
    "cases), thorough 2-6 lines; not a full cross product of all dimensions (two sub-spaces, see text).",
    "design_ref": "DESIGN.md §4 C35",
}

FILL = "text{{ 1 }}"
# a line that is not constant-folded, put after closing tags so that code
# generated later (block functions) maps to earlier template lines
TAIL = "tail{{ t }}"
# skeleton filler lines: the constant one is folded into plain data at compile time (no
# line info of its own), the variable one gives every skeleton line its own debug mapping
FILLERS = {"const": FILL, "var": "text{{ t }}"}


class Boom(Exception):
    def __repr__(self):
        return "Boom()"


class BadRepr:
    """its repr raises: makes {% debug %} (which pretty-prints the context) fail"""

    def __repr__(self):
        return boom()


LAST = [None]


def boom(*a, **k):
    LAST[0] = Boom()
    raise LAST[0]


# --------------------------------------------------------------------------
# dimensions

# line-break forms: function of the line index -> break
BREAKS = {
    "lf": lambda i: "\n",
    "crlf": lambda i: "\r\n",
    "cr": lambda i: "\r",
    "mixed": lambda i: ("\r\n", "\r", "\n")[i % 3],
}

# preceding multi-line constructs: (lines, glued) — when glued the fault text is
# appended to the construct's last line instead of getting a line of its own
PRE = {
    "none": ([], False),
    "comment": (["{# c1", "c2 #}"], False),
    "comment3-": (["{#- c1", "c2", "c3 -#}"], False),
    "comment-glued": (["{# c1", "c2 #}"], True),
    "raw": (["{% raw %}", "{{ r", "{% endraw %}"], False),
    "raw-": (["{%- raw -%}", "r1", "r2", "{%- endraw -%}"], False),
    "raw-glued": (["{% raw %}", "{% r", "{% endraw %}"], True),
    "str": (['{{ "s1', 's2" }}'], False),
    "str-glued": (["{{ 's1", "s2", "s3' }}"], True),
    "expr": (["{{ [1,", "2][0] }}"], False),
    "expr-": (["{{- [1,", "2,", "3][0] -}}"], False),
    "tag": (["{% set q = [1,", "2] %}"], False),
    "tag-": (["{%- if", "true -%}y{%- endif", "-%}"], False),
}

# fault forms: kind, lines (with {L}/{R} for the whitespace-control signs of the
# faulty tag), index of the line that must be reported
FAULTS = {
    "out": ("runtime", ["{{{L} boom() {R}}}"], 0),
    "mixed": ("runtime", ["t{{ 1 }}{{{L} boom() {R}}}t"], 0),
    "set": ("runtime", ["{%{L} set z = boom() {R}%}"], 0),
    "if": ("runtime", ["{%{L} if boom() {R}%}y{% endif %}"], 0),
    "for": ("runtime", ["{%{L} for j in boom() {R}%}{% endfor %}"], 0),
    "filter": ("runtime", ["{{{L} 1|default(boom()) {R}}}"], 0),
    "syn-expr": ("syntax", ["{{{L} 1 + {R}}}"], 0),
    "syn-tag": ("syntax", ["{%{L} nosuchtag {R}%}"], 0),
    "syn-lex": ("syntax", ["{{{L} ) {R}}}"], 0),
    "syn-expr-split": ("syntax", ["{{{L} 1 +", "{R}}}"], 1),
    "syn-tag-split": ("syntax", ["{%{L}", "nosuchtag {R}%}"], 1),
}

# space C, part 1: the raising call as an operand of every kind of expression node,
# directly in an output tag (the outermost node of the output child varies)
_EXPRS = {
    "concat-r": "'a' ~ boom()", "concat-l": "boom() ~ 'a'", "concat-3": "'a' ~ 1 ~ boom()", "add": "1 + boom()", "sub": "boom() - 1",
    "mul": "2 * boom()", "div": "boom() / 2", "floordiv": "4 // boom()", "mod": "boom() % 2", "pow": "2 ** boom()",
    "neg": "-boom()", "pos": "+boom()", "not": "not boom()", "and": "true and boom()", "or": "false or boom()",
    "lt": "1 < boom()", "eq": "boom() == 1", "chain": "1 < 2 <= boom()", "in": "1 in boom()", "notin": "boom() not in [1]",
    "cond-test": "1 if boom() else 2", "cond-then": "boom() if true else 2", "cond-else": "1 if false else boom()",
    "cond-noelse": "boom() if true", "filter-arg": "1|default(boom())", "filter-kwarg": "1|default(default_value=boom())",
    "filter-base": "boom()|upper", "filter-chain": "1|string|default(boom())|upper", "test-arg": "1 is divisibleby(boom())",
    "test-base": "boom() is defined", "test-not": "1 is not sameas(boom())", "list": "[1, boom()]", "tuple": "(1, boom())",
    "dict-value": "{'k': boom()}", "dict-key": "{boom(): 1}", "getattr": "boom().a", "getitem-base": "boom()[0]",
    "getitem-arg": "[1][boom()]", "slice": "[1][boom():]", "call-arg": "range(boom())", "call-kwarg": "dict(k=boom())",
    "call-star": "range(*boom())", "call-result": "boom()()", "paren": "(boom())", "nested": "('a' ~ (1 + boom()))|upper",
}
for _k, _e in _EXPRS.items():
    FAULTS["x-" + _k] = ("runtime", ["{{{L} " + _e + " {R}}}"], 0)

# space C, part 2: the raising call inside the tag that opens a construct or a branch, each on its own line
FAULTS.update({
    "t-elif-cond": ("runtime", ["{% if false %}", "a", "{%{L} elif boom() {R}%}", "b", "{% endif %}"], 2),
    "t-elif2-cond": ("runtime", ["{% if false %}", "a", "{% elif false %}", "b", "{%{L} elif boom() {R}%}", "c", "{% else %}", "d", "{% endif %}"], 4),
    "t-elif-cond-expr": ("runtime", ["{% if false %}", "a", "{%{L} elif 1 < boom() {R}%}", "b", "{% endif %}"], 2),
    "t-elif-body": ("runtime", ["{% if false %}", "a", "{% elif true %}", "{{{L} boom() {R}}}", "{% endif %}"], 3),
    "t-else-body": ("runtime", ["{% if false %}", "a", "{% else %}", "{{{L} boom() {R}}}", "{% endif %}"], 3),
    "t-for-else-body": ("runtime", ["{% for j in [] %}", "a", "{% else %}", "{{{L} boom() {R}}}", "{% endfor %}"], 3),
    "t-loop-filter": ("runtime", ["{%{L} for j in [1] if boom() {R}%}", "a", "{% endfor %}"], 0),
    "t-loop-filter-after": ("runtime", ["{% set q = 1 %}", "{%{L} for j in [1] if j and boom() {R}%}", "a", "{% endfor %}"], 1),
    "t-macro-default": ("runtime", ["{%{L} macro q(a=boom()) {R}%}", "x", "{% endmacro %}", "{{ q() }}"], 0),
    "t-call-arg": ("runtime", ["{% macro q(a) %}{{ caller() }}{% endmacro %}", "{%{L} call q(boom()) {R}%}", "x", "{% endcall %}"], 1),
    "t-call-default": ("runtime", ["{% macro q() %}{{ caller() }}{% endmacro %}", "{%{L} call(a=boom()) q() {R}%}", "x", "{% endcall %}"], 1),
    "t-with-value": ("runtime", ["{% set q = 1 %}", "{%{L} with w = boom() {R}%}", "x", "{% endwith %}"], 1),
    "t-with-value2": ("runtime", ["{%{L} with v = 1, w = boom() {R}%}", "x", "{% endwith %}"], 0),
    "t-set-value": ("runtime", ["{% set q = 1 %}", "{%{L} set z = 'a' ~ boom() {R}%}"], 1),
    "t-set-tuple": ("runtime", ["{% set q = 1 %}", "{%{L} set y, z = 1, boom() {R}%}"], 1),
    "t-filter-block-arg": ("runtime", ["{% set q = 1 %}", "{%{L} filter default(boom()) {R}%}", "x", "{% endfilter %}"], 1),
    "t-set-block-filter-arg": ("runtime", ["{% set q = 1 %}", "{%{L} set z | default(boom()) {R}%}", "x", "{% endset %}"], 1),
    "t-include-target": ("runtime", ["{% set q = 1 %}", "{%{L} include boom() {R}%}"], 1),
    "t-import-target": ("runtime", ["{% set q = 1 %}", "{%{L} import boom() as mm {R}%}"], 1),
    "t-for-iter-after": ("runtime", ["{% if true %}", "a", "{% endif %}", "{%{L} for j in boom() {R}%}", "{% endfor %}"], 3),
    "t-if-cond-after": ("runtime", ["{% for j in [1] %}", "a", "{% endfor %}", "{%{L} if boom() {R}%}", "b", "{% endif %}"], 3),
    "t-autoescape-arg": ("runtime", ["{% set q = 1 %}", "{%{L} autoescape boom() {R}%}", "x", "{% endautoescape %}"], 1),
    # i18n / do / debug extensions (the environment gets them for these forms only)
    "t-trans-callvar": ("runtime", ["{% set q = 1 %}", "{%{L} trans v=boom() {R}%}x {{ v }}{% endtrans %}"], 1),
    "t-trans-callvar-plural": ("runtime", ["{% set q = 1 %}", "{%{L} trans n=boom() {R}%}x{% pluralize %}y{% endtrans %}"], 1),
    "t-trans-second-var": ("runtime", ["{% set q = 1 %}", "{%{L} trans a=1, v=boom() {R}%}{{ a }}{{ v }}{% endtrans %}"], 1),
    "t-trans-count": ("runtime", ["{% set q = 1 %}", "{%{L} trans count=boom() {R}%}x{% pluralize %}{{ count }}{% endtrans %}"], 1),
    "t-trans-var-expr": ("runtime", ["{% set q = 1 %}", "{%{L} trans v=1 + boom() {R}%}x {{ v }}{% endtrans %}"], 1),
    "t-trans-multiline": ("runtime", ["{% set q = 1 %}", "{%{L} trans v=boom() {R}%}", "x {{ v }}", "{% endtrans %}"], 1),
    "t-do": ("runtime", ["{% set q = 1 %}", "{%{L} do boom() {R}%}"], 1),
    "t-do-expr": ("runtime", ["{% set q = 1 %}", "{%{L} do [1].append(boom()) {R}%}"], 1),
    "t-debug": ("runtime", ["{% set q = 1 %}", "{%{L} debug {R}%}"], 1),
    # errors raised by generated code itself
    "t-nsref-check": ("runtime-tre", ["{% set q = 1 %}", "{%{L} set d.x = 1 {R}%}"], 1),
    "t-nsref-tuple-check": ("runtime-tre", ["{% set q = 1 %}", "{%{L} set q, d.x = 1, 2 {R}%}"], 1),
    "t-nsref-block-check": ("runtime-tre", ["{% set q = 1 %}", "{%{L} set d.x {R}%}v{% endset %}"], 1),
    "t-unknown-filter-if": ("runtime-tre", ["{% set q = 1 %}", "{% if true %}", "{{{L} 1|nosuchfilter {R}}}", "{% endif %}"], 2),
    "t-unknown-filter-else": ("runtime-tre", ["{% if false %}", "a", "{% else %}", "b{{ t }}", "{{{L} t|nosuchfilter(1) {R}}}", "{% endif %}"], 4),
    "t-unknown-test-elif": ("runtime-tre", ["{% if false %}", "a", "{% elif true %}", "{{{L} 1 is nosuchtest {R}}}", "{% endif %}"], 3),
    "t-unknown-filter-condexpr": ("runtime-tre", ["{% set q = 1 %}", "{{{L} (1|nosuchfilter) if true else 2 {R}}}"], 1),
    "t-unknown-test-condexpr": ("runtime-tre", ["{% set q = 1 %}", "{{{L} 1 if (t is nosuchtest) else 2 {R}}}"], 1),
    # more tag arguments
    "t-caller-arg": ("runtime", ["{% macro q() %}", "a{{ t }}", "{{{L} caller(boom()) {R}}}", "{% endmacro %}", "{% call(a) q() %}x{% endcall %}"], 2),
    "t-call-kwarg": ("runtime", ["{% macro q(a) %}{{ caller() }}{% endmacro %}", "{% set z = 1 %}", "{%{L} call q(a=boom()) {R}%}", "x", "{% endcall %}"], 2),
    "t-filter-block-chain": ("runtime", ["{% set q = 1 %}", "{%{L} filter upper|replace('a', boom()) {R}%}", "x", "{% endfilter %}"], 1),
    "t-from-import-target": ("runtime", ["{% set q = 1 %}", "{%{L} from boom() import mm {R}%}"], 1),
    "t-include-list": ("runtime", ["{% set q = 1 %}", "{%{L} include ['nope', boom()] ignore missing {R}%}"], 1),
    "t-macro-default-2": ("runtime", ["{% set q = 1 %}", "{%{L} macro q(a, b=boom()) {R}%}", "x", "{% endmacro %}", "{{ q(1) }}"], 1),
    "t-print": ("runtime", ["{% set q = 1 %}", "{%{L} print 1, boom() {R}%}"], 1),
})
FAULTS_C = [k for k in FAULTS if k.startswith(("x-", "t-"))]
CONTEXTS_C = ["top", "block", "for", "macro", "if", "for-filter", "include", "child-block", "call", "nested-render"]

FN = "/c35/%s.html"

# nesting contexts.  Each maps a body (list of lines) to
#   files {name: lines}, entry template name, name of the file holding the body,
#   offset of the body's first line in that file (0-based).
# {O} = sign before the closing delimiter of the opening tag ("-" or ""),
# {C} = sign after the opening delimiter of the closing tag.


def _wrap(open_line, close_line, after=()):
    def f(body, O, C):
        lines = [open_line.replace("{O}", O)] + body + [close_line.replace("{C}", C)] + list(after)
        return {"main": lines}, "main", "main", 1
    return f


def _ctx_top(body, O, C):
    return {"main": list(body)}, "main", "main", 0


def _ctx_child_block(body, O, C):
    return ({"parent": [FILL, "{% block b %}p{% endblock %}", FILL],
             "main": ["{% extends 'parent' %}", "{% block b " + O + "%}"] + body + ["{%" + C + " endblock %}"]},
            "main", "main", 2)


def _ctx_parent_top(body, O, C):
    return ({"parent": [FILL] + body + ["{% block b %}p{% endblock %}"],
             "main": ["{% extends 'parent' %}", "{% block b %}c{% endblock %}"]}, "main", "parent", 1)


def _ctx_parent_block(body, O, C):
    return ({"parent": [FILL, "{% block b " + O + "%}"] + body + ["{%" + C + " endblock %}", TAIL],
             "main": ["{% extends 'parent' %}", FILL]}, "main", "parent", 2)


def _ctx_super(body, O, C):
    return ({"parent": ["{% block b " + O + "%}"] + body + ["{%" + C + " endblock %}", TAIL, "{% block c %}{{ t }}{% endblock %}"],
             "main": ["{% extends 'parent' %}", FILL, "{% block b %}", "{{ super() }}", "{% endblock %}"]},
            "main", "parent", 1)


def _ctx_grandchild(body, O, C):
    return ({"parent": ["{% block b %}p{% endblock %}"],
             "mid": ["{% extends 'parent' %}", FILL, FILL, "{% block b " + O + "%}"] + body + ["{%" + C + " endblock %}"],
             "main": ["{% extends 'mid' %}", "{% block b %}{{ super() }}{% endblock %}"]}, "main", "mid", 4)


def _ctx_include(body, O, C):
    return ({"inc": list(body), "main": [FILL, FILL, "{% include 'inc' %}", FILL]}, "main", "inc", 0)


def _ctx_include_block(body, O, C):
    return ({"inc": ["{% block b " + O + "%}"] + body + ["{%" + C + " endblock %}", TAIL],
             "main": [FILL, "{% for i in [1] %}{% include 'inc' %}{% endfor %}"]}, "main", "inc", 1)


def _ctx_import(body, O, C):
    return ({"lib": [FILL, "{% macro m() " + O + "%}"] + body + ["{%" + C + " endmacro %}"],
             "main": ["{% import 'lib' as lib %}", FILL, FILL, FILL, "{{ lib.m() }}"]}, "main", "lib", 2)


def _ctx_from_import(body, O, C):
    return ({"lib": ["{% macro m() " + O + "%}"] + body + ["{%" + C + " endmacro %}"],
             "main": [FILL, "{% from 'lib' import m %}", "{{ m() }}"]}, "main", "lib", 1)


def _ctx_import_top(body, O, C):
    # the body of an imported template runs when its module is made
    return ({"lib": [FILL] + body, "main": [FILL, FILL, FILL, "{% import 'lib' as lib %}"]}, "main", "lib", 1)


def _ctx_nested_render(body, O, C):
    # template B (inc) is rendered by a global called from template A (main): two traceback rewrites
    return ({"inc": [FILL, TAIL] + list(body), "main": [FILL, TAIL, TAIL, TAIL, TAIL, TAIL, "{{ partial('inc') }}", FILL]}, "main", "inc", 2)


def _ctx_nested_render_block(body, O, C):
    return ({"inc": [TAIL, "{% block b " + O + "%}"] + list(body) + ["{%" + C + " endblock %}", TAIL],
             "main": ["{% macro w() %}", TAIL, "{{ partial('inc') }}", "{% endmacro %}", "{{ w() }}"]}, "main", "inc", 2)


CONTEXTS = {
    "top": _ctx_top,
    "block": _wrap("{% block b {O}%}", "{%{C} endblock %}", [TAIL]),
    "for": _wrap("{% for i in [1] {O}%}", "{%{C} endfor %}"),
    "macro": _wrap("{% macro m() {O}%}", "{%{C} endmacro %}", ["{{ m() }}"]),
    "child-block": _ctx_child_block,
    "parent-top": _ctx_parent_top,
    "parent-block": _ctx_parent_block,
    "super": _ctx_super,
    "grandchild": _ctx_grandchild,
    "call": lambda body, O, C: ({"main": ["{% macro m() %}{{ caller() }}{% endmacro %}", "{% call m() " + O + "%}"]
                                 + body + ["{%" + C + " endcall %}"]}, "main", "main", 2),
    "for-else": lambda body, O, C: ({"main": ["{% for i in [] %}", "x", "{% else " + O + "%}"] + body
                                     + ["{%" + C + " endfor %}"]}, "main", "main", 3),
    "for-recursive": _wrap("{% for i in [1] recursive {O}%}", "{%{C} endfor %}"),
    "if": _wrap("{% if true {O}%}", "{%{C} endif %}"),
    "elif": lambda body, O, C: ({"main": ["{% if false %}", "x", "{% elif true " + O + "%}"] + body
                                 + ["{%" + C + " else %}", "y", "{% endif %}"]}, "main", "main", 3),
    "else": lambda body, O, C: ({"main": ["{% if false %}", "x", "{% else " + O + "%}"] + body
                                 + ["{%" + C + " endif %}"]}, "main", "main", 3),
    "set-block": _wrap("{% set v {O}%}", "{%{C} endset %}"),
    "filter-block": _wrap("{% filter upper {O}%}", "{%{C} endfilter %}"),
    "with": _wrap("{% with w = 1 {O}%}", "{%{C} endwith %}"),
    "autoescape": _wrap("{% autoescape true {O}%}", "{%{C} endautoescape %}"),
    "include": _ctx_include,
    "include-block": _ctx_include_block,
    "import": _ctx_import,
    "from-import": _ctx_from_import,
    "import-top": _ctx_import_top,
    "block-for-if": lambda body, O, C: ({"main": ["{% block b %}", "{% for i in [1] %}", "{% if true " + O + "%}"] + body
                                         + ["{%" + C + " endif %}", "{% endfor %}", "{% endblock %}", TAIL]}, "main", "main", 3),
    # filtered loops: in async mode the loop runs inside try/finally (the filter generator is closed on the way out)
    "for-filter": _wrap("{% for i in [1, 2] if i {O}%}", "{%{C} endfor %}", [TAIL]),
    "for-filter-in-block": lambda body, O, C: ({"main": [FILL, "{% block b %}", "{% for i in [1, 2] if i " + O + "%}"] + body
                                                + ["{%" + C + " endfor %}", TAIL, "{% endblock %}", TAIL]}, "main", "main", 3),
    "for-filter-in-macro": lambda body, O, C: ({"main": ["{% macro m() %}", "{% for i in [1, 2] if i " + O + "%}"] + body
                                                + ["{%" + C + " endfor %}", TAIL, "{% endmacro %}", "{{ m() }}"]}, "main", "main", 2),
    "for-filter-recursive": _wrap("{% for i in [1, 2] if i recursive {O}%}", "{%{C} endfor %}", [TAIL]),
    "nested-render": _ctx_nested_render,
    "nested-render-block": _ctx_nested_render_block,
    "macro-for": lambda body, O, C: ({"main": ["{% macro m() %}{% for i in [1] " + O + "%}"] + body
                                      + ["{%" + C + " endfor %}{% endmacro %}", "{{ m() }}"]}, "main", "main", 1),
}

CONTEXTS_A = ["top", "block", "for", "macro"]

# runtime-only contexts: a syntax fault there would be reported while an outer
# template is still fine, which is covered; nothing to exclude.


def build(case):
    """case -> (files {name: source}, entry, fault file name, expected 1-based
    line, fault kind, env kwargs)."""
    ctx, n, pos, lb, flags, ws, pre, fault, filler = case
    fill = FILLERS[filler]
    O, C, L, R = ws
    kind, flines, foff = FAULTS[fault]
    flines = [x.replace("{L}", L).replace("{R}", R) for x in flines]
    plines, glued = PRE[pre]
    body = [fill] * pos
    body += plines
    if glued:
        at = len(body) - 1
        body[at] = body[at] + flines[0]
        body += flines[1:]
    else:
        at = len(body)
        body += flines
    body += [fill] * (n - pos - 1)
    files, entry, fname, off = CONTEXTS[ctx](body, O, C)
    brk = BREAKS[lb]
    srcs = {}
    for name, lines in files.items():
        # every line but the last is followed by a break; the last one gets
        # one too when the index is even (both endings occur)
        out = []
        for i, ln in enumerate(lines):
            out.append(ln)
            if i + 1 < len(lines) or len(lines) % 2 == 0:
                out.append(brk(i))
        srcs[name] = "".join(out)
    kw = {}
    if "t" in flags:
        kw["trim_blocks"] = True
    if "l" in flags:
        kw["lstrip_blocks"] = True
    if fault.startswith(("t-trans", "t-do", "t-debug")):
        kw["extensions"] = ["jinja2.ext.i18n", "jinja2.ext.do", "jinja2.ext.debug"]
    if "a" in flags:
        # Template.render of an async environment drives render_async through asyncio.run
        kw["enable_async"] = True
    return srcs, entry, fname, off + at + foff + 1, kind, kw


def make_env(srcs, kw):
    import jinja2

    def load(name):
        if name in srcs:
            return srcs[name], FN % name, None
        return None

    env = jinja2.Environment(loader=jinja2.FunctionLoader(load), **kw)
    env.globals["boom"] = boom
    env.globals["d"] = {}  # a plain dict: attribute assignment through it must fail the namespace check
    env.globals["bad"] = BadRepr()
    if "jinja2.ext.i18n" in kw.get("extensions", ()):
        env.install_null_translations()
    # nested rendering ("render_partial" pattern): a global that renders another template of the environment
    if kw.get("enable_async"):
        async def partial(name):
            return await env.get_template(name).render_async()
    else:
        def partial(name):
            return env.get_template(name).render()
    env.globals["partial"] = partial
    return env


def template_frames(tb, fnames):
    out = []
    while tb is not None:
        fn = tb.tb_frame.f_code.co_filename
        if fn in fnames:
            out.append((fn, tb.tb_lineno))
        tb = tb.tb_next
    return out


def observe(case):
    """Returns (expected, observed, kind) where both are comparable tuples."""
    import jinja2

    srcs, entry, fname, line, kind, kw = build(case)
    env = make_env(srcs, kw)
    fnames = {FN % n for n in srcs}
    want_file = FN % fname
    try:
        with core.alarm(10):
            env.get_template(entry).render()
        return (kind, want_file, line), ("no-exception",), kind, srcs
    except Boom as e:
        fr = template_frames(e.__traceback__, fnames)
        obs = ("runtime",) + (fr[-1] if fr else ("no-template-frame", 0))
        if e is not LAST[0]:
            obs += ("exception-object=other",)
        return (kind, want_file, line), obs, kind, srcs
    except jinja2.TemplateRuntimeError as e:
        # raised by generated code itself (namespace check, filter/test unknown at compile time)
        fr = template_frames(e.__traceback__, fnames)
        obs = ("runtime-tre",) + (fr[-1] if fr else ("no-template-frame", 0))
        return (kind, want_file, line), obs, kind, srcs
    except jinja2.TemplateSyntaxError as e:
        fr = template_frames(e.__traceback__, fnames)
        obs = ("syntax", e.filename, e.lineno)
        exp = (kind, want_file, line)
        if kind == "syntax":
            # name and the synthetic traceback frame must agree as well
            if e.name != fname:
                obs += ("name=%r" % (e.name,),)
            if not fr or fr[-1] != (want_file, line):
                obs += ("tb-frame=%r" % (fr[-1] if fr else None,),)
        return exp, obs, kind, srcs
    except Exception as e:  # noqa: BLE001
        return (kind, want_file, line), ("other-exception", type(e).__name__, str(e)[:80]), kind, srcs


def _script(case, srcs, kw):
    return (
        "import traceback, jinja2\n"
        "from checks import c35\n"
        f"case = {case!r}\n"
        "srcs, entry, fname, line, kind, kw = c35.build(case)\n"
        "for n, s in srcs.items():\n"
        "    print(n, repr(s))\n"
        "print('expected:', kind, c35.FN % fname, 'line', line)\n"
        "env = c35.make_env(srcs, kw)\n"
        "try:\n"
        "    env.get_template(entry).render()\n"
        "except BaseException as e:\n"
        "    print('raised', type(e).__name__, getattr(e, 'filename', ''), getattr(e, 'lineno', ''))\n"
        "    for f in traceback.extract_tb(e.__traceback__):\n"
        "        print('  frame', f.filename, f.lineno, f.name)\n"
    )


def classify(exp, obs):
    if obs[0] in ("no-exception", "other-exception"):
        return obs[0] if obs[0] == "no-exception" else "other-exception/" + obs[1]
    if obs[0] != exp[0]:
        return "wrong-kind/" + obs[0]
    if obs[1] != exp[1]:
        return "wrong-file"
    if obs[2] != exp[2]:
        d = obs[2] - exp[2] if isinstance(obs[2], int) else 0
        return "wrong-line/%+d" % d
    return "wrong-" + "+".join(x.split("=")[0] for x in obs[3:])


def shard(arg):
    head, dims = arg
    p = core.Part()
    for tail in itertools.product(*dims):
        case = tuple(head) + tuple(tail)
        ctx, np_, lb, flags, ws, pre, fault, filler = case
        case = (ctx, np_[0], np_[1], lb, flags, tuple(ws), pre, fault, filler)
        p.evals += 1
        exp, obs, kind, srcs = observe(case)
        if obs[0] == exp[0]:
            # the fault fired as the intended kind of error
            p.sig((ctx, fault, pre, exp[2]))
        if obs != exp:
            what = classify(exp, obs)
            if fault.startswith(("x-", "t-")):
                # operand / tag-argument faults: the fault form names the construct; context, offset and
                # preceding construct only say where the previous mapped line happened to be
                sig = f"C35/{kind}/{what.split('/')[0]}/{fault}"
            else:
                sig = f"C35/{kind}/{what}/{ctx}/{fault}/{pre}"
            p.violation(sig, {
                "msg": f"case {case!r}: expected {exp!r}, observed {obs!r}; sources {srcs!r}",
                "case": list(case), "sources": srcs, "expected": list(exp), "observed": list(obs),
                "script": _script(case, srcs, None),
            })
        if len(p.samples) < 1:
            p.sample({"case": list(case), "sources": srcs, "expected": list(exp)}, cap=1)
    return p


def positions(nmax):
    return [(n, pos) for n in range(2, nmax + 1) for pos in range(n)]


def space(quick):
    """Two products of dimension lists; returns shards (head, remaining dims)
    and the case counts.  Dimension order: context, (n, pos), line breaks,
    flags, whitespace signs (open, close, fault-left, fault-right), preceding
    construct, fault form."""
    signs = ("", "-")
    ws16 = list(itertools.product(signs, repeat=4))
    nmax = 3 if quick else 6
    pos = positions(nmax)
    if quick:
        dims_a = [["top", "for"], pos, list(BREAKS), ["", "tl"], [w for w in ws16 if w[0] == w[1]], list(PRE),
                  ["out", "syn-expr", "syn-lex", "syn-tag-split"], ["const"]]
    else:
        dims_a = [CONTEXTS_A, pos, list(BREAKS), ["", "t", "l", "tl"], ws16, list(PRE),
                  ["out", "mixed", "syn-expr", "syn-tag", "syn-lex", "syn-expr-split", "syn-tag-split"], ["const"]]
    ws_b = [("", "", "", ""), ("-", "", "", ""), ("", "-", "", ""), ("-", "-", "-", "-")]
    if quick:
        ws_b = [ws_b[0], ws_b[3]]
    dims_b = [list(CONTEXTS), pos, ["lf", "mixed"], ["", "tl", "a", "atl"], ws_b, ["none", "comment", "expr"],
              ["out", "mixed", "set", "if", "for", "filter", "syn-expr", "syn-tag", "syn-lex", "syn-tag-split"],
              ["const", "var"]]
    shards = []
    counts = []
    if quick:
        dims_c = [CONTEXTS_C, pos, ["lf"], ["", "a"], [("", "", "", "")], ["none", "comment3-"], FAULTS_C, ["const", "var"]]
    else:
        dims_c = [CONTEXTS_C, pos, ["lf", "mixed"], ["", "tl", "a", "atl"], [("", "", "", ""), ("-", "-", "-", "-")],
                  ["none", "comment3-", "raw-"], FAULTS_C, ["const", "var"]]
    for dims, nhead in ((dims_a, 3), (dims_b, 2), (dims_c, 2)):
        n = 1
        for d in dims:
            n *= len(d)
        counts.append(n)
        for head in itertools.product(*dims[:nhead]):
            shards.append((head, dims[nhead:]))
    return shards, counts[0], counts[1], counts[2]


def run(ctx: core.Ctx):
    core.import_all_jinja()
    ctx.rule = ("one case = (nesting context, skeleton length, fault position, line-break form, trim/lstrip flags, "
                "whitespace-control signs of the opening tag / closing tag / faulty tag, preceding multi-line construct, "
                "fault form, filler kind); every combination of the two declared sub-spaces is built and rendered once in a fresh "
                "Environment.  Non-trivial = the planted fault actually fired as the intended kind of error (runtime "
                "Boom or TemplateSyntaxError); distinct = distinct (context, fault form, preceding construct, expected line)")
    ctx.assumptions += [
        "the expected position is the index of the fault's line in the list of lines the template was joined from (line breaks: \\n, \\r\\n, \\r)",
        "templates are served by a FunctionLoader that gives each template its own file name; 'template frame' = traceback frame whose code filename is one of these names",
        "runtime faults are single-line constructs whose tag starts on the line of the raising call; two syntax fault forms put the offending token on the line after the tag start and expect that line",
        "space C signatures name the fault form only (C35/runtime/wrong-line/<form>): the context and the distance to the previously mapped line are not part of the defect",
        "space A uses 4 contexts with all whitespace/flag/line-break/preceding-construct combinations (synchronous environments); space B uses all contexts with a reduced set of the other dimensions, each also with enable_async=True (Template.render drives render_async through asyncio.run)",
    ]
    shards, na, nb, nc = space(ctx.quick)
    ctx.cov["bounds"] = {"skeleton_lines": [2, 3 if ctx.quick else 6], "cases_space_A": na, "cases_space_B": nb, "cases_space_C": nc,
                         "contexts": len(CONTEXTS), "preceding_constructs": len(PRE), "fault_forms": len(FAULTS),
                         "line_break_forms": len(BREAKS)}
    ctx.pmap(shard, shards)
    if ctx.evals != na + nb + nc:
        raise core.HarnessError(f"enumerated {ctx.evals} cases, expected {na + nb + nc}")
    if len(ctx.sigs) < 2:
        raise core.HarnessError("faults did not fire")
