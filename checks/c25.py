"""C25 — the template cache always serves the current template source.

Explicit-state search (E2) over the real Environment + loader + template cache
in lock-step with the reference R-tcache (an OrderedDict LRU of cache key ->
cached version, the loader contents, and the loader's up-to-date predicate).

A *configuration* is (loader kind, cache_size, auto_reload, names, versions).
Loader kinds:

  dict     DictLoader on a dict the harness mutates (up-to-date check compares
           the source text with the mapping)
  fstr     FunctionLoader whose function returns a plain str: no up-to-date
           check, a cached template is never reloaded
  ftriple  FunctionLoader returning (source, None, uptodate); the up-to-date
           function compares a generation stamp that every change bumps
  fs       FileSystemLoader on a scratch directory; every write gets an mtime
           forced with os.utime: "newer" writes take it from a strictly
           increasing counter, "older" writes (backup restore, cp -p, clock set
           back) from a strictly decreasing one, so a changed file never has
           the mtime it was cached with, in either direction
  choice   ChoiceLoader([DictLoader(store0), DictLoader(store1)])
  dict2    two separate DictLoaders; the operation `use(i)` assigns
           env.loader = loader_i (the cache key contains the loader)
  overlay  DictLoader; the operation `overlay` (once per history, before or
           after the parent loaded anything) replaces the environment under
           test by parent.overlay() without an explicit cache_size: the
           overlay starts with an EMPTY cache of the parent's configuration
           (docs: Environment.overlay "Create a new overlay environment that
           shares all the data with the current environment except for cache
           and the overridden attributes")

The source text of name n, version v in store j is n+str(v) (store 0) or
n.upper()+str(v) (store 1), so a render shows name, version and origin.
Version 0 is the EMPTY source "" (a legal template that renders to ""); it is
used in every kind except `choice`, whose canonical state needs the origin
that an empty text cannot show.
"""
from __future__ import annotations

import collections
import os
import shutil
import weakref

from vf import core, e2

META = {
    "level": "model_checking",
    "engine": "E2",
    "technique": "explicit-state BFS by history replay over the real Environment/loader/template cache in lock-step "
    "with a reference cache model (OrderedDict LRU + loader contents + up-to-date predicate), to a fixpoint per "
    "configuration, plus dedup-free enumeration of all short histories",
    "text": "For each configuration (7 loader kinds incl. Environment.overlay x cache_size 0/1/2/-1 x auto_reload on/off) every enabled operation "
    "of get / select / modify / delete / add (/ use-loader) is executed on every reachable canonical state (loader "
    "contents, cache keys in recency order with the text and freshness each cached template holds) and compared with "
    "the reference: rendered text or TemplateNotFound, number of Environment.compile calls, cache keys/order/content, "
    "len(cache) <= n.  Reaching the fixpoint makes this a statement about histories of every length; merged states are "
    "bisimulation-checked and all histories up to depth 6 (quick 4) are additionally enumerated without merging.",
    "note": "Bounded: 2-3 names, 2-3 versions, <= 2 stores; one Environment per history; no bytecode cache; file mtimes "
    "forced with os.utime, both forwards and backwards (equal mtimes after a change are out of scope); single-threaded (C26 covers the LRU under "
    "threads).",
    "design_ref": "DESIGN.md §4 C25, §3 E2, R-tcache",
}

KINDS = ("dict", "fstr", "ftriple", "fs", "choice", "dict2", "overlay")
NSTORES = {"dict": 1, "fstr": 1, "ftriple": 1, "fs": 1, "choice": 2, "dict2": 2, "overlay": 1}
HAS_UPTODATE = {"dict": True, "fstr": False, "ftriple": True, "fs": True, "choice": True, "dict2": True, "overlay": True}
STAMPED = {"ftriple", "fs"}  # freshness = stamp comparison; otherwise source-text comparison


def text(j, n, v):
    if v == 0:
        return ""  # the empty template
    return (n if j == 0 else n.upper()) + str(v)


# --------------------------------------------------------------------------
# reference model R-tcache (plain Python, from docs/api.rst "cache_size",
# "auto_reload", BaseLoader.get_source "uptodate", Template.is_up_to_date)


class NotFound(Exception):
    pass


class Model:
    def __init__(self, kind, size, auto_reload):
        self.kind = kind
        self.size = size
        self.auto_reload = auto_reload
        self.stores = [dict() for _ in range(NSTORES[kind])]  # name -> (version, stamp)
        self.clock = 0
        self.active = 0  # dict2: which loader env.loader is
        self.overlaid = False  # overlay: the environment under test is parent.overlay()
        # cache: key (loader index, name) -> (text, origin store, stamp); least recently used first
        self.cache = collections.OrderedDict()
        self.compiles = 0

    # ---- loader side
    def put(self, j, n, v):
        # every change gives the source a stamp it never had before; whether the file system calls that stamp
        # "older" or "newer" is irrelevant: the property makes no exception for mtimes moving backwards
        self.clock += 1
        self.stores[j][n] = (v, self.clock)

    def delete(self, j, n):
        del self.stores[j][n]

    def resolve(self, n):
        """current source of name n for the environment's loader: (text, store, stamp) or None"""
        if self.kind == "choice":
            order = [0, 1]  # "If a template could not be found by one loader the next one is tried."
        elif self.kind == "dict2":
            order = [self.active]
        else:
            order = [0]
        for j in order:
            if n in self.stores[j]:
                v, stamp = self.stores[j][n]
                return (text(j, n, v), j, stamp)
        return None

    def fresh(self, key, ent):
        """what the loader's up-to-date function answers for a cached template"""
        txt, j, stamp = ent
        if not HAS_UPTODATE[self.kind]:
            return True  # Template.is_up_to_date: no function -> True
        cur = self.stores[j].get(key[1])
        if self.kind in STAMPED:
            return cur is not None and cur[1] == stamp
        # DictLoader: source == mapping.get(name).  CALIBRATED for "choice": the up-to-date function is the one of
        # the sub-loader that served the template, it does not look at loaders earlier in the list.
        return cur is not None and text(j, key[1], cur[0]) == txt

    # ---- cache side
    def _touch(self, key):
        if self.size > 0:
            self.cache.move_to_end(key)  # a lookup is a use (LRU); the unbounded cache is a plain dict

    def lookup(self, n):
        key = (self.active, n)
        if self.size != 0 and key in self.cache:
            ent = self.cache[key]
            self._touch(key)
            if not self.auto_reload or self.fresh(key, ent):
                return ent[0]
        cur = self.resolve(n)
        if cur is None:
            # CALIBRATED: a cached template whose reload fails stays in the cache (it was just used).
            raise NotFound(n)
        self.compiles += 1
        if self.size != 0:
            if key in self.cache:
                if self.size > 0:
                    self.cache.move_to_end(key)
            elif 0 < self.size == len(self.cache):
                self.cache.popitem(last=False)  # evict the least recently used
            self.cache[key] = cur
        return cur[0]

    # ---- the property itself, independent of the cache model (auto_reload + up-to-date check)
    def property_expectation(self, names):
        """with auto_reload and an up-to-date check: the CURRENT source of the first existing name, else not found"""
        for n in names:
            cur = self.resolve(n)
            if cur is not None:
                return ("ok", cur[0])
        return ("exc", "TemplateNotFound" if len(names) == 1 else "TemplatesNotFound")

    def abs(self):
        stores = tuple(tuple(sorted((n, text(j, n, v)) for n, (v, _s) in st.items())) for j, st in enumerate(self.stores))
        if self.size == 0:
            cache = None
        else:
            items = [(k[0], k[1], e[0], self.fresh(k, e)) for k, e in self.cache.items()]
            # most recently used first, like LRUCache.items(); the unbounded cache has no order
            cache = tuple(reversed(items)) if self.size > 0 else tuple(sorted(items, key=repr))
        return (stores, (self.active, self.overlaid), cache)


def model_step(m: Model, op):
    kind = op[0]
    if kind in ("get", "select"):
        names = op[1:]
        c0 = m.compiles
        for n in names:
            try:
                t = m.lookup(n)
            except NotFound:
                continue
            return ("ok", t, m.compiles - c0)
        return ("exc", "TemplateNotFound" if kind == "get" else "TemplatesNotFound", m.compiles - c0)
    if kind in ("modify", "add"):
        m.put(op[1], op[2], op[3])
        return None
    if kind == "delete":
        m.delete(op[1], op[2])
        return None
    if kind == "use":
        m.active = op[1]
        return None
    if kind == "overlay":
        # "shares all the data with the current environment except for cache": same size, same auto_reload, empty
        m.overlaid = True
        m.cache = collections.OrderedDict()
        return None
    raise AssertionError(op)


def enabled_ops(m: Model, names, versions):
    ops = []
    for n in names:
        ops.append(("get", n))
    for n1 in names:
        for n2 in names:
            if n1 != n2:
                ops.append(("select", n1, n2))
    for j, st in enumerate(m.stores):
        for n in names:
            if n in st:
                for v in versions:
                    ops.append(("modify", j, n, v))  # v == current version is a "touch": new mtime / generation
                    if m.kind == "fs":
                        ops.append(("modify", j, n, v, "older"))  # the file is replaced by one with an OLDER mtime
                ops.append(("delete", j, n))
            else:
                for v in versions:
                    ops.append(("add", j, n, v))
                    if m.kind == "fs":
                        ops.append(("add", j, n, v, "older"))
    if m.kind == "dict2":
        ops.append(("use", 1 - m.active))
    if m.kind == "overlay" and not m.overlaid:
        ops.append(("overlay",))
    return ops


# --------------------------------------------------------------------------
# the real thing

_FS = {"n": 0, "clock": 1_000_000, "down": 1_000_000}
_ENVCLS = []
MEMO = {"on": True, "code": {}}


def _fs_dir(base):
    """a fresh directory per system: e2 keeps two systems alive at once during merge checks"""
    _FS["n"] += 1
    d = os.path.join(base, "w%d" % os.getpid(), "s%d" % _FS["n"])
    os.makedirs(d)
    return d


def _counting_env():
    if not _ENVCLS:
        import jinja2

        class CountingEnv(jinja2.Environment):
            n_compile = 0
            n__compile = 0

            def compile(self, source, name=None, filename=None, raw=False, defer_init=False):
                self.n_compile += 1
                if raw or defer_init or not MEMO["on"]:
                    return super().compile(source, name, filename, raw, defer_init)
                # harness shortcut: the compiler is not under test here and is a function of (source, name,
                # filename) for one fixed environment configuration; the call is still counted.
                # (for the file system loader the directory differs per history: only co_filename would differ)
                key = (source, name, filename and os.path.basename(filename))
                code = MEMO["code"].get(key)
                if code is None:
                    code = MEMO["code"][key] = super().compile(source, name, filename)
                return code

            def _compile(self, *a, **kw):
                self.n__compile += 1
                return super()._compile(*a, **kw)

        _ENVCLS.append(CountingEnv)
    return _ENVCLS[0]


def _total(f):
    """every implementation-side call is total: an exception is an observation, never a harness crash"""
    try:
        return f()
    except Exception as e:  # noqa: BLE001
        return ("exc", "other:" + type(e).__name__)


class Impl:
    def __init__(self, kind, size, auto_reload, names, base):
        import jinja2

        CountingEnv = _counting_env()
        self.kind = kind
        self.size = size
        self.names = names
        self.stores = [dict() for _ in range(NSTORES[kind])]
        self.gen = 0
        if kind in ("dict", "overlay"):
            self.loaders = [jinja2.DictLoader(self.stores[0])]
        elif kind == "fstr":
            st = self.stores[0]
            self.loaders = [jinja2.FunctionLoader(lambda name: st.get(name))]
        elif kind == "ftriple":
            st = self.stores[0]  # name -> (source, generation)

            def load(name):
                if name not in st:
                    return None
                src, gen = st[name]
                return src, None, (lambda: name in st and st[name][1] == gen)

            self.loaders = [jinja2.FunctionLoader(load)]
        elif kind == "fs":
            self.dir = _fs_dir(base)
            weakref.finalize(self, shutil.rmtree, self.dir, True)
            self.loaders = [jinja2.FileSystemLoader(self.dir)]
        elif kind == "choice":
            self.loaders = [jinja2.ChoiceLoader([jinja2.DictLoader(self.stores[0]), jinja2.DictLoader(self.stores[1])])]
        elif kind == "dict2":
            self.loaders = [jinja2.DictLoader(self.stores[0]), jinja2.DictLoader(self.stores[1])]
        else:
            raise AssertionError(kind)
        self.env = CountingEnv(loader=self.loaders[0], cache_size=size, auto_reload=auto_reload)
        self.parent = None

    def put(self, j, n, v, older=False):
        src = text(j, n, v)
        if self.kind == "fs":
            path = os.path.join(self.dir, n)
            with open(path, "w", encoding="utf-8") as f:
                f.write(src)
            if older:
                _FS["down"] -= 1
                t = _FS["down"] * 10**9
            else:
                _FS["clock"] += 1
                t = _FS["clock"] * 10**9
            os.utime(path, ns=(t, t))
        elif self.kind == "ftriple":
            self.gen += 1
            self.stores[j][n] = (src, self.gen)
        else:
            self.stores[j][n] = src

    def delete(self, j, n):
        if self.kind == "fs":
            os.remove(os.path.join(self.dir, n))
        else:
            del self.stores[j][n]

    def contents(self):
        if self.kind == "fs":
            out = []
            for n in sorted(os.listdir(self.dir)):
                with open(os.path.join(self.dir, n), encoding="utf-8") as f:
                    out.append((n, f.read()))
            return (tuple(out),)
        if self.kind == "ftriple":
            return (tuple(sorted((n, s) for n, (s, _g) in self.stores[0].items())),)
        return tuple(tuple(sorted(st.items())) for st in self.stores)

    def canon(self):
        env = self.env
        active = self.loaders.index(env.loader) if env.loader in self.loaders else "?"
        if env.cache is None:
            cache = None  # the model says None exactly for cache_size=0
        else:
            items = []
            for key, tmpl in env.cache.items():
                try:
                    ref, name = key
                    li = self.loaders.index(ref())
                except Exception:  # noqa: BLE001 - a key of another shape is a cache-state mismatch, not a crash
                    li, name = "?", repr(key)
                items.append((li, name, _total(tmpl.render), _total(lambda: bool(tmpl.is_up_to_date))))
            cache = tuple(items) if self.size > 0 else tuple(sorted(items, key=repr))
        return (self.contents(), (active, self.parent is not None), cache)


def impl_step(im: Impl, op):
    import jinja2

    kind = op[0]
    env = im.env
    if kind in ("get", "select"):
        c0, d0 = env.n_compile, env.n__compile
        try:
            if kind == "get":
                t = env.get_template(op[1])
            else:
                t = env.select_template(list(op[1:]))
            out = ("ok", t.render())
        except jinja2.TemplateNotFound as e:
            out = ("exc", type(e).__name__)
        except Exception as e:  # noqa: BLE001
            out = ("exc", "other:" + type(e).__name__)
        nc, nd = env.n_compile - c0, env.n__compile - d0
        if nc != nd and not MEMO["on"]:
            out = out + ("compile/_compile disagree %d/%d" % (nc, nd),)
        return out + (nc,)
    if kind in ("modify", "add"):
        im.put(op[1], op[2], op[3], older=len(op) > 4)
        return None
    if kind == "delete":
        im.delete(op[1], op[2])
        return None
    if kind == "use":
        env.loader = im.loaders[op[1]]
        return None
    if kind == "overlay":
        def f():
            im.parent = env
            im.env = env.overlay()
        return _total(f)
    raise AssertionError(op)


# --------------------------------------------------------------------------
# lock-step system for e2

_SIGS: set = set()


def make_system(cfg, base):
    kind, size, auto_reload, names, versions = cfg

    def system():
        return {"im": Impl(kind, size, auto_reload, names, base), "m": Model(kind, size, auto_reload), "cfg": cfg}

    return system


def step(s, op):
    m: Model = s["m"]
    im: Impl = s["im"]
    pre_cached = None
    if op[0] in ("get", "select"):
        pre_cached = [(m.active, n) in m.cache for n in op[1:]]
        want = m.property_expectation(op[1:])
    iobs = impl_step(im, op)
    mobs = model_step(m, op)
    if op[0] in ("get", "select"):
        # invariant: a cache of size n never holds more than n templates
        if m.size > 0 and im.env.cache is not None and len(im.env.cache) > m.size:
            iobs = iobs + ("len(cache)=%d > %d" % (len(im.env.cache), m.size),)
        # the property, stated without the cache model: auto_reload + up-to-date check => current source
        if m.auto_reload and HAS_UPTODATE[m.kind] and iobs[:2] != want:
            tag = ()
            if m.kind == "choice" and iobs[0] == "ok" and isinstance(iobs[1], str) and iobs[1][:1].isupper():
                # structural: the served text comes from the LATER member (store 1, upper case) although the
                # EARLIER member (store 0) now has that name
                if iobs[1][:1].lower() in m.stores[0] and iobs[1][:1].lower() in op[1:]:
                    tag = ("shadowed",)
            iobs = iobs + (("not-current", want) + tag,)
        # outcome classes for distinct_nontrivial
        if mobs[0] == "exc":
            cls = "notfound-cached" if any(pre_cached) else "notfound"
        elif mobs[-1] == 0:
            cls = "hit" if want[:2] == mobs[:2] else "hit-not-reloaded"
        else:
            cls = "reload" if any(pre_cached) else "miss"
        _SIGS.add((m.kind, m.size, m.auto_reload, op[0], cls))
    return (iobs, mobs)


def canon(s):
    return s["im"].canon()


def absm(s):
    return s["m"].abs()


def ops_of(s):
    cfg = s["cfg"]
    return enabled_ops(s["m"], cfg[3], cfg[4])


# --------------------------------------------------------------------------
# replay script: plain jinja2 calls


def plain_script(cfg, hist):
    kind, size, auto_reload, names, versions = cfg
    L = ["import os, jinja2"]
    if kind in ("dict", "overlay"):
        L += ["s0 = {}", "loaders = [jinja2.DictLoader(s0)]"]
    elif kind == "fstr":
        L += ["s0 = {}", "loaders = [jinja2.FunctionLoader(lambda name: s0.get(name))]"]
    elif kind == "ftriple":
        L += ["s0 = {}  # name -> (source, generation)",
              "def load(name):",
              "    if name not in s0: return None",
              "    src, gen = s0[name]",
              "    return src, None, (lambda: name in s0 and s0[name][1] == gen)",
              "loaders = [jinja2.FunctionLoader(load)]", "gen = 0"]
    elif kind == "fs":
        L += ["import tempfile", "d = tempfile.mkdtemp(dir='/dev/shm')", "loaders = [jinja2.FileSystemLoader(d)]", "clock = down = 10**6"]
    elif kind == "choice":
        L += ["s0, s1 = {}, {}", "loaders = [jinja2.ChoiceLoader([jinja2.DictLoader(s0), jinja2.DictLoader(s1)])]"]
    elif kind == "dict2":
        L += ["s0, s1 = {}, {}", "loaders = [jinja2.DictLoader(s0), jinja2.DictLoader(s1)]"]
    L += [f"env = jinja2.Environment(loader=loaders[0], cache_size={size!r}, auto_reload={auto_reload!r})",
          "def show(f, names):",
          "    try: print('  -> rendered', repr(f().render()))",
          "    except jinja2.TemplateNotFound as e: print('  ->', type(e).__name__)",
          "    for n in names:",
          "        try: print('     current source of %r according to env.loader.get_source: %r' % (n, env.loader.get_source(env, n)[0]))",
          "        except jinja2.TemplateNotFound: print('     %r: not found by env.loader.get_source' % n)",
          "    if env.cache is not None:",
          "        print('     cache (most recent first for LRUCache):', [(k[1], t.render(), t.is_up_to_date) for k, t in env.cache.items()])"]
    for op in hist:
        op = tuple(op)
        L.append(f"print({op!r})")
        if op[0] == "get":
            L.append(f"show(lambda: env.get_template({op[1]!r}), {list(op[1:])!r})")
        elif op[0] == "select":
            L.append(f"show(lambda: env.select_template({list(op[1:])!r}), {list(op[1:])!r})")
        elif op[0] in ("modify", "add"):
            src = text(op[1], op[2], op[3])
            if kind == "fs":
                if len(op) > 4:
                    L += [f"open(os.path.join(d, {op[2]!r}), 'w').write({src!r}); down -= 1  # older mtime",
                          f"os.utime(os.path.join(d, {op[2]!r}), ns=(down * 10**9, down * 10**9))"]
                else:
                    L += [f"open(os.path.join(d, {op[2]!r}), 'w').write({src!r}); clock += 1",
                          f"os.utime(os.path.join(d, {op[2]!r}), ns=(clock * 10**9, clock * 10**9))"]
            elif kind == "ftriple":
                L.append(f"gen += 1; s0[{op[2]!r}] = ({src!r}, gen)")
            else:
                L.append(f"s{op[1]}[{op[2]!r}] = {src!r}")
        elif op[0] == "delete":
            if kind == "fs":
                L.append(f"os.remove(os.path.join(d, {op[2]!r}))")
            else:
                L.append(f"del s{op[1]}[{op[2]!r}]")
        elif op[0] == "use":
            L.append(f"env.loader = loaders[{op[1]}]")
        elif op[0] == "overlay":
            L.append("parent = env; env = parent.overlay()  # no explicit cache_size: an empty cache like the parent's")
    if kind == "fs":
        L.append("import shutil; shutil.rmtree(d)")
    return "\n".join(L) + "\n"


def replay(detail):
    """./check C25 --replay <json>: re-run the history on implementation and model side by side."""
    core.import_all_jinja()
    cfg = tuple(detail["cfg"])
    cfg = (cfg[0], cfg[1], cfg[2], tuple(cfg[3]), tuple(cfg[4]))
    base = core.scratch_dir("c25r")
    s = make_system(cfg, base)()
    bad = False
    for op in detail["history"] + ([detail["op"]] if detail.get("op") else []):
        op = tuple(op)
        i, m = step(s, op)
        ci, cm = canon(s), absm(s)
        flag = "" if (i == m and ci == cm) else "   <-- MISMATCH"
        bad = bad or bool(flag)
        print(op, "impl:", i, "model:", m, flag)
        print("    impl state ", ci)
        print("    model state", cm)
    return bad


# --------------------------------------------------------------------------
# shards


def _unexpected_exc(x):
    """class name of an exception the model never predicts, found anywhere inside an observation / canonical state"""
    if isinstance(x, tuple):
        if len(x) >= 2 and x[0] == "exc" and isinstance(x[1], str) and x[1].startswith("other:"):
            return x[1][len("other:"):]
        for y in x:
            r = _unexpected_exc(y)
            if r:
                return r
    return None


def _classify(cfg, kind, hist, op, a, b):
    """stable narrow signature of a violation"""
    okind = op[0] if op else "init"
    exc = _unexpected_exc(a)
    if exc:
        # get_template / select_template / a cached template's is_up_to_date raised something that is neither a
        # result nor TemplateNotFound
        return f"C25/unexpected-exception/{cfg[0]}/{exc}"
    if kind == "obs" and isinstance(a, tuple) and isinstance(b, tuple) and a[:len(b)] == b:
        extra = a[len(b):]
        if all(isinstance(x, tuple) and x and x[0] == "not-current" for x in extra):
            # implementation and cache model agree, but the rendered text is not the current source
            shadowed = all(x[-1] == "shadowed" for x in extra)
            return f"C25/not-current-source/{cfg[0]}" + ("/shadowed-by-earlier-loader" if shadowed else "")
        return f"C25/invariant/{cfg[0]}/{okind}"
    if kind == "obs":
        what = "result"
        if isinstance(a, tuple) and isinstance(b, tuple) and a[:2] == b[:2]:
            what = "compile-count"
        return f"C25/{what}/{cfg[0]}/size{cfg[1]}/auto_reload={cfg[2]}/{okind}"
    return f"C25/cache-state/{cfg[0]}/size{cfg[1]}/auto_reload={cfg[2]}/{okind}"


def _report(p, cfg, kind, hist, op, a, b):
    sig = _classify(cfg, kind, hist, op, a, b)
    full = [list(o) for o in hist] + ([list(op)] if op else [])
    p.violation(sig, {
        "msg": f"config={cfg} history={list(hist)} op={op}: impl {a!r} != reference {b!r}",
        "cfg": [cfg[0], cfg[1], cfg[2], list(cfg[3]), list(cfg[4])],
        "history": [list(o) for o in hist], "op": list(op) if op else None,
        "impl": repr(a), "model": repr(b), "mismatch": kind,
        "script": plain_script(cfg, full),
    })


def bfs_shard(arg):
    cfg, base, merge_reps, state_cap = arg
    core.import_all_jinja()
    p = core.Part()
    _SIGS.clear()
    MEMO["on"] = True
    res = e2.explore(make_system(cfg, base), ops_of, step, canon, absm, merge_reps=merge_reps, max_violations=100000,
                     state_cap=state_cap)
    if not res.fixpoint:
        raise core.HarnessError(f"no fixpoint for {cfg}")
    if res.states >= state_cap:
        # never on a tree that agrees with the model (its largest configuration has < state_cap / 4 states); a
        # diverging implementation can have a larger state space than the model predicts
        p.count("state_caps_hit", 1)
    p.evals += res.transitions
    p.count("states", res.states)
    p.count("transitions", res.transitions)
    p.count("merges_validated", res.merges_validated)
    p.count("configurations", 1)
    p.count("fixpoints_reached", 1 if res.fixpoint and res.states < state_cap else 0)
    p.counters["cfg %s size=%d auto_reload=%s names=%d versions=%d" % (cfg[:3] + (len(cfg[3]), len(cfg[4])))] = (
        f"states={res.states} transitions={res.transitions} "
        f"max_depth={res.max_depth} merges_validated={res.merges_validated} fixpoint={res.fixpoint}")
    for s in _SIGS:
        p.sig(("bfs",) + s)
    for h in res.sample_histories[:1]:
        p.sample({"kind": "history reaching a new state", "config": [cfg[0], cfg[1], cfg[2]], "history": h}, cap=1)
    seen = set()
    for kind, hist, op, a, b in res.violations:
        sig = _classify(cfg, kind, hist, op, a, b)
        if sig in seen:
            continue  # BFS order: the first one is the shortest
        seen.add(sig)
        _report(p, cfg, kind, hist, op, a, b)
    return p


def flat_shard(arg):
    """Dedup-free enumeration (cross-check of state merging).

    ("ext", cfg, prefix, depth, base): the history `prefix` and all its extensions up to length `depth`;
    ("short", cfg, k, base): all histories of length 1..k (those shorter than the "ext" prefixes)."""
    mode, cfg = arg[0], arg[1]
    base = arg[-1]
    core.import_all_jinja()
    p = core.Part()
    _SIGS.clear()
    system = make_system(cfg, base)
    seen = set()
    MEMO["on"] = False  # the cross-check runs the real compiler every time (and compares compile with _compile counts)

    def rec(hist, depth):
        s = system()
        bad = None
        for o in hist:
            i, m = step(s, o)
            if i != m and bad is None:
                bad = ("obs", o, i, m)
        if hist:
            p.evals += 1
            ci, cm = canon(s), absm(s)
            if ci != cm and bad is None:
                bad = ("state", hist[-1], ci, cm)
            if bad is not None:
                sig = _classify(cfg, bad[0], hist[:-1], bad[1], bad[2], bad[3])
                if sig not in seen:
                    seen.add(sig)
                    _report(p, cfg, bad[0], hist[:-1], hist[-1], bad[2], bad[3])
        if len(hist) < depth:
            for o in ops_of(s):
                rec(hist + (o,), depth)

    try:
        if mode == "ext":
            rec(tuple(arg[2]), arg[3])
        else:
            rec((), arg[2])
    finally:
        MEMO["on"] = True
    p.count("flat_histories", p.evals)
    for s in _SIGS:
        p.sig(("flat",) + s)
    if mode == "ext":
        p.sample({"kind": "flat enumeration: this history and all its extensions", "config": [cfg[0], cfg[1], cfg[2]],
                  "prefix": [list(o) for o in arg[2]], "depth": arg[3]}, cap=1)
    return p


def flat_prefixes(cfg, k):
    """all histories of exactly k operations (enabledness comes from the model)"""
    out = []

    def rec(hist):
        if len(hist) == k:
            out.append(hist)
            return
        m = Model(cfg[0], cfg[1], cfg[2])
        for o in hist:
            model_step(m, o)
        for o in enabled_ops(m, cfg[3], cfg[4]):
            rec(hist + (o,))

    rec(())
    return out


# --------------------------------------------------------------------------


AB, ABC = ("a", "b"), ("a", "b", "c")
SIZES = (0, 1, 2, -1)


def configurations(quick):
    """(kind, cache_size, auto_reload, names, versions); bounds chosen from measured state counts (see run())"""
    plan = []  # (kind, sizes, names, versions)
    if quick:
        for kind in ("dict", "fstr", "ftriple"):
            plan.append((kind, SIZES, AB, (0, 1, 2)))  # version 0 = the empty template
        plan.append(("fs", SIZES, AB, (1, 2)))
        plan.append(("fs", (0, 1), AB, (0, 1)))
        plan.append(("overlay", SIZES, AB, (1, 2)))
        plan.append(("choice", (0, 1), AB, (1, 2)))
        plan.append(("choice", (2, -1), AB, (1,)))
        plan.append(("dict2", (0,), AB, (0, 1, 2)))
        plan.append(("dict2", (1, 2, -1), AB, (1,)))  # 4 cache keys: size 2 evicts
    else:
        for kind in ("dict", "fstr", "ftriple"):
            plan.append((kind, SIZES, ABC, (1, 2, 3)))
        plan.append(("fs", SIZES, ABC, (1, 2)))
        plan.append(("fs", SIZES, AB, (1, 2, 3)))
        for kind in ("dict", "fstr", "ftriple", "fs"):
            plan.append((kind, SIZES, AB, (0, 1, 2)))  # version 0 = the empty template
        plan.append(("dict2", (0, 1), AB, (0, 1)))
        plan.append(("overlay", SIZES, ABC, (1, 2)))
        plan.append(("overlay", SIZES, AB, (0, 1, 2)))
        plan.append(("choice", SIZES, AB, (1, 2, 3)))
        plan.append(("choice", (0, 1), ABC, (1, 2)))
        plan.append(("dict2", SIZES, AB, (1, 2)))
        plan.append(("dict2", (0, 1), AB, (1, 2, 3)))
        plan.append(("dict2", (0, 1), ABC, (1, 2)))
    cfgs = []
    for kind, sizes, names, versions in plan:
        for size in sizes:
            for ar in (True, False):
                cfgs.append((kind, size, ar, names, versions))
    return cfgs


def run(ctx: core.Ctx):
    core.import_all_jinja()
    base = core.scratch_dir("c25")
    ctx.rule = ("BFS over canonical states (loader contents, active loader, cache entries most-recent-first as "
                "(loader, name, rendered text, is_up_to_date)) of a real Environment; every enabled operation on every "
                "state compared with the reference cache model; a transition is one operation executed on the real "
                "Environment; distinct = (loader kind, cache size, auto_reload, operation, outcome class in "
                "{hit, hit-not-reloaded, miss, reload, notfound, notfound-cached})")
    ctx.assumptions += [
        "file mtimes are forced with os.utime (newer: increasing counter, older: decreasing counter): 'changed but same mtime' is out of scope",
        "CALIBRATED: a lookup of a cached template counts as a use for the LRU order even when the template turns out stale",
        "CALIBRATED: a cached template whose reload raises TemplateNotFound stays in the cache",
        "CALIBRATED: with ChoiceLoader the up-to-date function is the serving sub-loader's (used only to keep model and "
        "implementation in lock-step; the property oracle 'current source' is evaluated independently)",
        "the unbounded cache (cache_size=-1) is compared as a set of entries, it has no recency order",
        "no bytecode cache; single thread; one Environment per history",
        "harness shortcut in the BFS part: Environment.compile is counted, then served from a per-worker memo keyed by "
        "(source, name, file basename) - the compiler is not under test here; the dedup-free enumeration runs the real "
        "compiler on every call and also requires compile/_compile call counts to agree",
    ]
    cfgs = configurations(ctx.quick)
    # heaviest first is not possible (pmap shuffles), but shards are independent configurations
    state_cap = 6000 if ctx.quick else 100000
    ctx.pmap(bfs_shard, [(c, base, 2 if (ctx.quick or NSTORES[c[0]] == 1) else 1, state_cap) for c in cfgs])
    if ctx.counters.get("state_caps_hit"):
        ctx.cap_hit(f"{ctx.counters['state_caps_hit']} configuration(s) stopped adding states at the state cap {state_cap}")
    depth = 4 if ctx.quick else 6
    flat_cfgs = [("dict", 1, True, ("a", "b"), (1, 2))]
    if not ctx.quick:
        flat_cfgs.append(("dict", 1, False, ("a", "b"), (1, 2)))
    plen = 1 if ctx.quick else 2
    shards = []
    for cfg in flat_cfgs:
        if plen > 1:
            shards.append(("short", cfg, plen - 1, base))
        shards += [("ext", cfg, h, depth, base) for h in flat_prefixes(cfg, plen)]
    ctx.pmap(flat_shard, shards)
    ctx.cov["bounds"] = {
        "configurations": len(cfgs),
        "names_versions": sorted({repr((c[0], c[3], c[4])) for c in cfgs}),
        "cache_sizes": [0, 1, 2, -1], "auto_reload": [True, False], "loader_kinds": list(KINDS),
        "flat_depth": depth, "flat_configurations": [repr(c[:3]) for c in flat_cfgs],
    }
    import re

    depths = [int(re.search(r"max_depth=(\d+)", v).group(1)) for k, v in ctx.counters.items() if k.startswith("cfg ")]
    ctx.cov["max_depth"] = max(depths) if depths else 0
    ctx.cov["fixpoint_reached"] = ctx.counters.get("fixpoints_reached", 0) == len(cfgs)
    ctx.cov["states"] = ctx.counters.get("states", 0)
    ctx.cov["transitions"] = ctx.counters.get("transitions", 0)
    ctx.cov["merges_validated"] = ctx.counters.get("merges_validated", 0)
    ctx.cov["traces_validated_against_impl"] = ctx.counters.get("transitions", 0) + ctx.counters.get("flat_histories", 0)
    ctx.cov["distinct_histories"] = ctx.counters.get("flat_histories", 0)
