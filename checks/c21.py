"""C21 — undefined values behave as documented for every undefined type (R-undef = hand-written table)."""
from __future__ import annotations

import asyncio
import copy
import logging
import pickle

from vf import core

META = {
    "level": "exploration",
    "engine": "E1",
    "technique": "exhaustive cross product (undefined type x origin x how obtained x operation x other operand x operand "
    "order), executed as direct Python operations and as template source in sync and async environments, against a "
    "hand-written reference table taken from the class docstrings",
    "text": "Every cell of {Undefined, ChainableUndefined, DebugUndefined, StrictUndefined and make_logging_undefined over "
    "each} x {missing name, missing attribute, missing dict item, missing list index, explicit hint} x {object from the "
    "API, object captured from a rendering template} x the operation table (str/format, truth, iteration sync+async, "
    "containment, len, ==/!=, hash, + - * / // % **, < <= > >=, unary, int/float/complex, attribute/item/chained access, "
    "call, defined/undefined tests, default filter, copy, deepcopy, pickle with protocols >= 2, __html__) x other operand in "
    "{1, 1.5, 's', [1], None, another undefined; thorough also True, 2**70, (1,), {'a': 1}, b's'} x both orders is executed and compared with the table: a documented "
    "value, or jinja2.UndefinedError (exactly that class) whose message names the missing variable/attribute/hint.  The "
    "template-expressible cells are also rendered from template source in a sync and an async-enabled environment.  "
    "Logging variants must additionally emit a log record naming the variable for printing and iteration.  A cross-type "
    "grid pairs every undefined type with every other (including two distinct logging wrappers of one base) for ==, !=, "
    "in-list, dict lookup and |unique.",
    "note": "Operand pairs where Python gives a built-in operand the last word ('s' % u, u in 's', u in 1/1.5/None) and "
    "pickle of the logging variants and pickle protocols 0/1 (Python refuses non-empty __slots__ there) are excluded.  Cells the docstrings do not spell out (len -> 0, == by "
    "type, hash, w in u -> False, DebugUndefined text for non-name origins) are frozen from the tree and tagged CALIBRATED.",
    "design_ref": "DESIGN.md §4 C21, §3 R-undef",
}

BASES = ["Undefined", "ChainableUndefined", "DebugUndefined", "StrictUndefined"]
TYPES = [(b, False) for b in BASES] + [(b, True) for b in BASES]
ORIGINS = ["name", "attr", "item", "index", "hint"]
HINT = "HINT: the value q was never provided"
# protocols 0 and 1 are out of scope: Python's legacy copyreg path refuses every class that defines non-empty
# __slots__ without __getstate__ (TypeError for Undefined itself, while the subclasses with empty __slots__ pass) -
# a limitation of Python, not of jinja
PICKLE_PROTOCOLS = list(range(2, pickle.HIGHEST_PROTOCOL + 1))

ARITH = {"add": "+", "sub": "-", "mul": "*", "truediv": "/", "floordiv": "//", "mod": "%", "pow": "**"}
CMP = {"lt": "<", "le": "<=", "gt": ">", "ge": ">="}
EQ = {"eq": "==", "ne": "!="}
WKINDS = ["int", "float", "str", "list", "none", "undef"]
WKINDS_THOROUGH = WKINDS + ["bool", "bigint", "tuple", "dict", "bytes"]  # the last five reach templates as variables
W_SRC = {"int": "1", "float": "1.5", "str": "'s'", "list": "[1]", "none": "none", "undef": "y",
         "bool": "true", "bigint": "w_bigint", "tuple": "(1,)", "dict": "{'a': 1}", "bytes": "w_bytes"}
W_VALUES = {"int": 1, "float": 1.5, "str": "s", "list": [1], "none": None, "bool": True, "bigint": 2**70,
            "tuple": (1,), "dict": {"a": 1}, "bytes": b"s"}
_SCALARS = ("int", "float", "none", "bool", "bigint")
NULLARY = (["str", "format", "bool", "not", "iter", "aiter", "len", "hash", "neg", "pos", "int", "float", "complex",
            "getattr", "getattr:_x", "getattr:__x", "getattr:__x_", "getattr:x__", "getattr:__x__",
            "getitem_str", "getitem_int", "chain", "call0", "call_args", "is_defined", "is_undefined",
            "default", "default_bool", "copy", "deepcopy", "html"]
           + ["pickle%d" % p for p in PICKLE_PROTOCOLS])


class Obj:
    """attribute owner for the 'missing attribute' origin (picklable, value equality, stable repr)."""

    def __init__(self):
        self.present = 1

    def __repr__(self):
        return "Obj()"

    def __eq__(self, other):
        return type(other) is Obj

    def __hash__(self):
        return 7


class ListHandler(logging.Handler):
    def __init__(self):
        super().__init__()
        self.records = []

    def emit(self, record):
        self.records.append((record.levelname, record.getMessage()))


# ----------------------------------------------------------------------------- reference table (R-undef)

def names_for(origin, who):
    """what the error message / debug text must contain for the undefined operand `who` ('u' or 'w')."""
    if who == "w":
        return ("exact", "'y' is undefined")
    if origin == "name":
        return ("exact", "'x' is undefined")  # docstring: "UndefinedError: 'foo' is undefined"
    if origin in ("attr", "item"):
        return ("contains", "'missing'")
    if origin == "index":
        return ("contains", "7")
    return ("exact", HINT)  # api.rst: _undefined_hint is "a string with the error message for the undefined object"


def ref_str(base, origin):
    """documented text of printing the undefined value."""
    if base == "StrictUndefined":
        return ("err", "u")
    if base == "DebugUndefined":
        if origin == "name":
            return ("val", "{{ x }}")  # docstring: str(DebugUndefined(name='foo')) == '{{ foo }}'
        # CALIBRATED: for the other origins the docstring only says "returns the debug info when printed";
        # required: '{{ ... }}' wrapper containing the attribute/item/hint
        return ("debug", {"attr": "missing", "item": "missing", "index": "7", "hint": HINT}[origin])
    return ("val", "")


def ref(base, origin, op, order=None, wk=None):
    """expected outcome of one cell.

    ("val", v) | ("err", who) | ("self",) | ("clone",) | ("noattr",) | ("hash",) | ("debug", needle) | ("excluded", why)
    """
    strict = base == "StrictUndefined"
    chain = base == "ChainableUndefined"
    if op in ("str", "format"):
        return ref_str(base, origin)
    if op == "bool":
        return ("err", "u") if strict else ("val", False)
    if op == "not":
        return ("err", "u") if strict else ("val", True)
    if op in ("iter", "aiter"):
        return ("err", "u") if strict else ("val", [])  # Strict: "barks on print and iteration"
    if op == "len":
        return ("err", "u") if strict else ("val", 0)  # CALIBRATED: len of a non-strict undefined is 0
    if op == "hash":
        return ("err", "u") if strict else ("hash",)  # CALIBRATED: hashable; law: equal objects hash equal
    if op in ("neg", "pos", "int", "float", "complex", "call0", "call_args"):
        return ("err", "u")
    if op.startswith("getattr:"):
        name = op[8:]
        if name[:2] == "__" and name[-2:] == "__":
            # CALIBRATED (comment in Undefined.__getattr__): a true dunder name raises AttributeError on every type so
            # that Python's protocol probing keeps working; any other name, however many underscores, is ordinary
            return ("attrerr",)
        return ("self",) if chain else ("err", "u")
    if op in ("getattr", "getitem_str", "getitem_int", "chain"):
        return ("self",) if chain else ("err", "u")
    if op == "is_defined":
        return ("val", False)
    if op == "is_undefined":
        return ("val", True)
    if op in ("default", "default_bool"):
        return ("val", "D")
    if op in ("copy", "deepcopy") or op.startswith("pickle"):
        return ("clone",)
    if op == "html":
        return ref_str(base, origin) if chain else ("noattr",)
    # binary
    left_is_u = order == "uw"
    if op in ARITH or op in CMP:
        if op == "mod" and not left_is_u and wk in ("str", "bytes"):
            return ("excluded", "'s' % u: str/bytes.__mod__ accept any object with __getitem__ as a mapping and return 's'")
        if wk == "undef":
            return ("err", "u" if left_is_u else "w")  # the left operand's method runs first (same type)
        return ("err", "u")
    if op in EQ:
        if strict:
            return ("err", "u" if (left_is_u or wk != "undef") else "w")
        same = wk == "undef"  # CALIBRATED: two undefined values of the same type are equal, nothing else is
        return ("val", same if op == "eq" else not same)
    if op == "contains":
        if left_is_u:  # u in w
            if wk in _SCALARS:
                return ("excluded", "u in <non-container>: TypeError from the right operand")
            if wk in ("str", "bytes"):
                return ("excluded", "u in 's': str/bytes.__contains__ insist on their own operand types (TypeError)")
            if wk in ("list", "tuple", "dict"):
                # list/tuple compare u == 1, dict hashes u: both are refused by the strict type
                return ("err", "u") if strict else ("val", False)
            return ("err", "w") if strict else ("val", False)  # u in y: y is the container
        return ("err", "u") if strict else ("val", False)  # CALIBRATED: nothing is contained in a non-strict undefined
    raise AssertionError((op, order, wk))


# ----------------------------------------------------------------------------- building the objects

def make_env(base, logging_flag, is_async=False):
    import jinja2
    from jinja2 import Environment, make_logging_undefined

    cls = getattr(jinja2, base)
    handler = None
    if logging_flag:
        logger = logging.Logger("c21-" + base)
        logger.propagate = False
        handler = ListHandler()
        logger.addHandler(handler)
        cls = make_logging_undefined(logger=logger, base=cls)
    env = Environment(undefined=cls, enable_async=is_async)
    return env, handler


def context_for(env):
    return {"o": Obj(), "d": {"a": 1}, "l": [1], "h": env.undefined(hint=HINT), "w_bigint": 2**70, "w_bytes": b"s"}


V_SRC = {"name": "x", "attr": "o.missing", "item": "d['missing']", "index": "l[7]", "hint": "h"}


def obtain(env, origin, how):
    """the undefined object for an origin, from the public API or captured from a rendering template."""
    if how == "api":
        if origin == "name":
            return env.undefined(name="x")
        if origin == "attr":
            return env.getattr(Obj(), "missing")
        if origin == "item":
            return env.getitem({"a": 1}, "missing")
        if origin == "index":
            return env.getitem([1], 7)
        return env.undefined(hint=HINT)
    box = []
    env.from_string("{{ probe(" + V_SRC[origin] + ") }}").render(probe=lambda v: box.append(v) or "", **context_for(env))
    return box[0]


def other_operand(env, wk):
    if wk == "undef":
        return env.undefined(name="y")
    return copy.copy(W_VALUES[wk])


# ----------------------------------------------------------------------------- executing one cell directly

async def _alist(u):
    return [i async for i in u]


def _drive(coro):
    """run a coroutine that never really suspends, without an event loop."""
    try:
        coro.send(None)
    except StopIteration as e:
        return e.value
    raise core.HarnessError("async iteration of an undefined suspended")


import operator as _op

_BIN = {"add": _op.add, "sub": _op.sub, "mul": _op.mul, "truediv": _op.truediv, "floordiv": _op.floordiv,
        "mod": _op.mod, "pow": _op.pow, "lt": _op.lt, "le": _op.le, "gt": _op.gt, "ge": _op.ge, "eq": _op.eq,
        "ne": _op.ne}


def do_direct(env, u, op, order=None, w=None):
    try:
        if op == "str":
            return ("val", str(u))
        if op == "format":
            return ("val", f"{u}")
        if op == "bool":
            return ("val", bool(u))
        if op == "not":
            return ("val", not u)
        if op == "iter":
            return ("val", list(u))
        if op == "aiter":
            return ("val", _drive(_alist(u)))
        if op == "len":
            return ("val", len(u))
        if op == "hash":
            return ("val", hash(u))
        if op == "neg":
            return ("val", -u)
        if op == "pos":
            return ("val", +u)
        if op == "int":
            return ("val", int(u))
        if op == "float":
            return ("val", float(u))
        if op == "complex":
            return ("val", complex(u))
        if op == "getattr":
            return ("val", u.foo)
        if op.startswith("getattr:"):
            return ("val", getattr(u, op[8:]))
        if op == "getitem_str":
            return ("val", u["k"])
        if op == "getitem_int":
            return ("val", u[0])
        if op == "chain":
            return ("val", u.foo.bar["baz"])
        if op == "call0":
            return ("val", u())
        if op == "call_args":
            return ("val", u(1, k=2))
        if op == "is_defined":
            return ("val", env.tests["defined"](u))
        if op == "is_undefined":
            return ("val", env.tests["undefined"](u))
        if op == "default":
            return ("val", env.filters["default"](u, "D"))
        if op == "default_bool":
            return ("val", env.filters["default"](u, "D", True))
        if op == "copy":
            return ("val", copy.copy(u))
        if op == "deepcopy":
            return ("val", copy.deepcopy(u))
        if op.startswith("pickle"):
            return ("val", pickle.loads(pickle.dumps(u, int(op[6:]))))
        if op == "html":
            if not hasattr(u, "__html__"):
                return ("noattr",)
            return ("val", u.__html__())
        if op == "contains":
            return ("val", (u in w) if order == "uw" else (w in u))
        f = _BIN[op]
        return ("val", f(u, w) if order == "uw" else f(w, u))
    except Exception as e:  # noqa: BLE001
        return ("exc", type(e), str(e))


def error_message_of(u):
    """the message this undefined value fails with (behavioural: force a documented failure)."""
    try:
        int(u)
    except Exception as e:  # noqa: BLE001
        return (type(e).__name__, str(e))
    return ("no-error", "")


def message_ok(rule, msg):
    how, text = rule
    return msg == text if how == "exact" else text in msg


def judge(spec, out, origin, u, twin):
    """None when the outcome satisfies the reference cell, else a short reason."""
    from jinja2 import UndefinedError

    kind = spec[0]
    if kind == "err":
        if out[0] != "exc":
            return f"expected UndefinedError, got value {out[1]!r}"
        if out[1] is not UndefinedError:
            return f"expected UndefinedError, got {out[1].__name__}: {out[2]}"
        rule = names_for(origin, spec[1])
        if not message_ok(rule, out[2]):
            return f"UndefinedError message {out[2]!r} does not name the missing value ({rule[0]} {rule[1]!r})"
        return None
    if kind == "attrerr":
        if out[0] == "exc" and out[1] is AttributeError:
            return None
        return f"expected AttributeError, got {out[1].__name__ + ': ' + out[2] if out[0] == 'exc' else _show(out[1])}"
    if kind == "noattr":
        return None if out == ("noattr",) else f"expected no __html__, got {out!r}"
    if out[0] != "val":
        return f"expected a value, got {out[1].__name__ if out[0] == 'exc' else out}: {out[2] if out[0] == 'exc' else ''}"
    v = out[1]
    if kind == "val":
        if type(v) is not type(spec[1]) or v != spec[1]:
            return f"expected {spec[1]!r}, got {_show(v)}"
        return None
    if kind == "debug":
        if not (type(v) is str and v.startswith("{{ ") and v.endswith(" }}") and spec[1] in v):
            return f"expected '{{{{ ... {spec[1]} ... }}}}', got {_show(v)}"
        return None
    if kind == "self":
        return None if v is u else f"expected the undefined object itself, got {_show(v)}"
    if kind == "hash":
        if type(v) is not int:
            return f"hash is {_show(v)}"
        if twin is not None and u == twin and hash(twin) != v:
            return "equal undefined values with different hashes"
        return None
    if kind == "clone":
        if v is u or type(v) is not type(u):
            return f"copy is {_show(v)} ({'same object' if v is u else type(v).__name__})"
        if error_message_of(v) != error_message_of(u):
            return f"copy fails with {error_message_of(v)!r}, original with {error_message_of(u)!r}"
        from jinja2.utils import missing
        if (v._undefined_obj is missing) != (u._undefined_obj is missing) or v._undefined_name != u._undefined_name \
                or v._undefined_hint != u._undefined_hint or v._undefined_exception is not u._undefined_exception:
            return "copy differs in the documented _undefined_* attributes"
        if v._undefined_obj is not missing and v._undefined_obj != u._undefined_obj:
            return "copy has a different owner object"
        return None
    raise AssertionError(spec)


def _show(v):
    from jinja2 import Undefined

    if isinstance(v, Undefined):
        return "<%s>" % type(v).__name__
    return repr(v)


def tname(base, logging_flag):
    return base + ("+logging" if logging_flag else "")


SCRIPT_DIRECT = (
    "import copy, pickle, logging, jinja2\n"
    "from checks import c21\n"
    "base, logging_flag, origin, how, op, order, wk = %r\n"
    "env, handler = c21.make_env(base, logging_flag)\n"
    "u = c21.obtain(env, origin, how)\n"
    "w = c21.other_operand(env, wk) if wk else None\n"
    "print('object  :', type(u).__mro__[0].__name__, 'bases', [c.__name__ for c in type(u).__mro__[1:-1]])\n"
    "print('outcome :', c21.do_direct(env, u, op, order, w))\n"
    "print('expected:', c21.ref(base, origin, op, order, wk))\n"
    "print('log     :', handler.records if handler else None)\n"
)


def direct_cells(wkinds=WKINDS):
    for op in NULLARY:
        yield (op, None, None)
    for op in list(ARITH) + list(CMP) + list(EQ) + ["contains"]:
        for order in ("uw", "wu"):
            for wk in wkinds:
                yield (op, order, wk)


# ----------------------------------------------------------------------------- template route

def template_cells(wkinds=WKINDS):
    """(op, order, wk, source-format with V and W placeholders, how a reference value is printed)"""
    t = [
        ("str", "{{ V }}"),
        ("format", "{{ '%s'|format(V) }}"),
        ("bool", "{% if V %}True{% else %}False{% endif %}"),
        ("not", "{{ not V }}"),
        ("iter", "{% for i in V %}[{{ i }}]{% else %}[]{% endfor %}"),
        ("len", "{{ V|length }}"),
        ("neg", "{{ -V }}"),
        ("pos", "{{ +V }}"),
        ("getattr", "{{ V.foo }}"),
        ("getitem_str", "{{ V['k'] }}"),
        ("getitem_int", "{{ V[0] }}"),
        ("chain", "{{ V.foo.bar['baz'] }}"),
        # the |attr filter is attribute access too: same cell as V.foo for every type
        ("getattr", "{{ V|attr('foo') }}"),
        ("chain", "{{ V|attr('foo')|attr('bar') }}"),
        ("chain", "{{ (V|attr('foo')).bar['baz'] }}"),
        ("call0", "{{ V() }}"),
        ("call_args", "{{ V(1, k=2) }}"),
        ("is_defined", "{{ V is defined }}"),
        ("is_undefined", "{{ V is undefined }}"),
        ("default", "{{ V|default('D') }}"),
        ("default_bool", "{{ V|default('D', true) }}"),
    ]
    for op, src in t:
        yield (op, None, None, src)
    for table in (ARITH, CMP, EQ):
        for op, sym in table.items():
            for wk in wkinds:
                yield (op, "uw", wk, "{{ V %s W }}" % sym)
                yield (op, "wu", wk, "{{ W %s V }}" % sym)
    for wk in wkinds:
        yield ("contains", "uw", wk, "{{ V in W }}")
        yield ("contains", "wu", wk, "{{ W in V }}")


def expected_text(spec, base, origin):
    """what the template prints for a reference cell, or None when the cell is an error."""
    kind = spec[0]
    if kind == "val":
        return ("text", str(spec[1]))
    if kind == "self":
        return expected_text(ref_str(base, origin), base, origin)
    if kind == "debug":
        return ("debug", spec[1])
    if kind == "err":
        return ("err", spec[1])
    raise AssertionError(spec)


def do_template(env, src, is_async):
    ctx = context_for(env)
    try:
        t = env.from_string(src)
        if is_async:
            return ("val", asyncio.run(t.render_async(**ctx)))
        return ("val", t.render(**ctx))
    except Exception as e:  # noqa: BLE001
        return ("exc", type(e), str(e))


def judge_text(exp, out, origin):
    from jinja2 import UndefinedError

    if exp[0] == "err":
        if out[0] != "exc":
            return f"expected UndefinedError, rendered {out[1]!r}"
        if out[1] is not UndefinedError:
            return f"expected UndefinedError, got {out[1].__name__}: {out[2]}"
        rule = names_for(origin, exp[1])
        if not message_ok(rule, out[2]):
            return f"UndefinedError message {out[2]!r} does not name the missing value ({rule[0]} {rule[1]!r})"
        return None
    if out[0] != "val":
        return f"expected text, got {out[1].__name__}: {out[2]}"
    if exp[0] == "text":
        return None if out[1] == exp[1] else f"expected {exp[1]!r}, rendered {out[1]!r}"
    v = out[1]
    if not (v.startswith("{{ ") and v.endswith(" }}") and exp[1] in v):
        return f"expected '{{{{ ... {exp[1]} ... }}}}', rendered {v!r}"
    return None


SCRIPT_TMPL = (
    "import asyncio, jinja2\n"
    "from checks import c21\n"
    "base, logging_flag, origin, src, is_async = %r\n"
    "env, handler = c21.make_env(base, logging_flag, is_async)\n"
    "print('source  :', src)\n"
    "print('outcome :', c21.do_template(env, src, is_async))\n"
    "print('log     :', handler.records if handler else None)\n"
)

# the two spellings of "iterate asynchronously" share one signature
_SIG_OP = {"aiter": "async-iteration"}


def shard(arg):
    ti, origin, wkinds = arg
    base, logging_flag = TYPES[ti]
    tn = tname(base, logging_flag)
    p = core.Part()
    # ---- direct route
    for how in ("api", "template-captured"):
        for op, order, wk in direct_cells(wkinds):
            env, handler = make_env(base, logging_flag)  # fresh environment (and class, for logging) per cell
            u = obtain(env, origin, how)
            if type(u) is not env.undefined:
                raise core.HarnessError(f"{origin}/{how}: got {type(u)}")
            twin = obtain(env, origin, "api")
            w = other_operand(env, wk) if wk else None
            spec = ref(base, origin, op, order, wk)
            if op.startswith("pickle") and logging_flag:
                spec = ("excluded", "pickle of a class created inside make_logging_undefined")
            if handler:
                del handler.records[:]
            out = do_direct(env, u, op, order, w)
            p.evals += 1
            if spec[0] == "excluded":
                p.count("excluded_cells")
                p.sig(("excluded", spec[1][:20], out[0]))
                continue
            okind = out[0] if out[0] != "exc" else out[1].__name__
            p.sig((tn, op, order, wk == "undef", okind))
            if how == "api" and (op == "str" or (op, order, wk) == ("floordiv", "wu", "float")):
                shown = repr(out[1]) if out[0] == "val" else f"{out[1].__name__}: {out[2]}" if out[0] == "exc" else out[0]
                p.sample({"type": tn, "origin": origin, "op": op if order is None else f"1.5 // {V_SRC[origin]}",
                          "outcome": shown, "expected": [str(x) for x in spec]}, cap=2)
            why = judge(spec, out, origin, u, twin)
            if why is None and handler is not None and op in ("str", "iter"):
                # documented: the logging variant "will log iterations and printing"
                rule = names_for(origin, "u")
                if not any(message_ok(("contains", rule[1]), m) for _, m in handler.records):
                    why = f"no log record naming the value (records: {handler.records!r})"
            if why:
                sop = _SIG_OP.get(op, op)
                tail = "" if order is None else f"/{order}"
                p.violation(f"C21/{sop}{tail}/{tn}", {
                    "msg": f"direct {tn} origin={origin} obtained={how} op={op} order={order} other={wk}: {why}",
                    "route": "direct", "script": SCRIPT_DIRECT % ((base, logging_flag, origin, how, op, order, wk),)})
    # ---- template route, sync and async
    for is_async in (False, True):
        for op, order, wk, fmt in template_cells(wkinds):
            spec = ref(base, origin, op, order, wk)
            p.evals += 1
            env, handler = make_env(base, logging_flag, is_async)
            src = fmt.replace("V", V_SRC[origin]).replace("W", W_SRC[wk] if wk else "")
            out = do_template(env, src, is_async)
            if spec[0] == "excluded":
                p.count("excluded_cells")
                p.sig(("excluded-template", spec[1][:20], out[0]))
                continue
            okind = "text:" + out[1][:12] if out[0] == "val" else out[1].__name__
            p.sig(("template", is_async, tn, op, order, wk == "undef", okind))
            why = judge_text(expected_text(spec, base, origin), out, origin)
            if why:
                sop = "async-iteration" if (op == "iter" and is_async) else op
                tail = "" if order is None else f"/{order}"
                p.violation(f"C21/{sop}{tail}/{tn}", {
                    "msg": f"template {'async' if is_async else 'sync'} {tn} origin={origin} {src!r}: {why}",
                    "route": "template-async" if is_async else "template",
                    "script": SCRIPT_TMPL % ((base, logging_flag, origin, src, is_async),)})
    return p


# ----------------------------------------------------------------------------- two undefined values of different types

# (base, logging wrapper?, factory call): the wrappers of two make_logging_undefined calls are different classes too
XTYPES = [(b, False, 0) for b in BASES] + [(b, True, 1) for b in BASES] + [(b, True, 2) for b in BASES]
XOPS = ["eq", "ne", "contains", "dict-lookup", "unique"]
X_SRC = {"eq": "{{ a == b }}", "ne": "{{ a != b }}", "contains": "{{ a in [b] }}",
         "dict-lookup": "{{ {b: 1}.get(a, 'absent') }}", "unique": "{{ [a, b]|unique|list|length }}"}


def xname(t):
    return t[0] + ("+logging#%d" % t[2] if t[1] else "")


def model_is_proper_subclass(tb, ta):
    """class hierarchy as documented: Chainable/Debug/Strict derive from Undefined, a logging wrapper from its base."""
    if ta == tb or ta[1]:
        return False  # nothing derives from a logging wrapper
    if tb[1] and tb[0] == ta[0]:
        return True
    return ta[0] == "Undefined"


class _OrderProbe:
    log: list = []

    def __init__(self, tag):
        self.tag = tag

    def __eq__(self, other):
        _OrderProbe.log.append(self.tag)
        return False

    __hash__ = None  # type: ignore[assignment]


def _list_contains_left_is_needle():
    """ask Python itself which operand list.__contains__ puts on the left of ==."""
    del _OrderProbe.log[:]
    _OrderProbe("needle") in [_OrderProbe("item")]  # noqa: B015
    return _OrderProbe.log[0] == "needle"


def xref(ta, tb, op):
    """a is of type ta (missing name x), b of type tb != ta (missing name y).

    CALIBRATED (same rule as the same-type cells): undefined values are equal only to undefined values of their own type,
    so two different undefined types are never equal; a strict operand refuses ==, != and hash.  __eq__ always answers
    (True/False/raise), so the operand Python asks first decides: the right one when its class derives from the left's.
    """
    def strict(t):
        return t[0] == "StrictUndefined"

    def compare(left, right, lname, rname):
        first, fname = (right, rname) if model_is_proper_subclass(right, left) else (left, lname)
        return ("err", fname) if strict(first) else None

    if op in ("eq", "ne"):
        return compare(ta, tb, "a", "b") or ("val", op == "ne")
    if op == "contains":
        if _list_contains_left_is_needle():
            e = compare(ta, tb, "a", "b")
        else:
            e = compare(tb, ta, "b", "a")
        return e or ("val", False)
    if op == "dict-lookup":  # {b: 1}.get(a, 'absent'): b is hashed first, then a; different types are never equal
        return ("err", "b") if strict(tb) else ("err", "a") if strict(ta) else ("val", "absent")
    if op == "unique":  # a is hashed first
        return ("err", "a") if strict(ta) else ("err", "b") if strict(tb) else ("val", 2)
    raise AssertionError(op)


def xmake(t):
    env, handler = make_env(t[0], t[1])
    return env


def xdirect(env, a, b, op):
    try:
        if op == "eq":
            return ("val", a == b)
        if op == "ne":
            return ("val", a != b)
        if op == "contains":
            return ("val", a in [b])
        if op == "dict-lookup":
            return ("val", {b: 1}.get(a, "absent"))
        return ("val", len(list(env.filters["unique"](env, [a, b]))))
    except Exception as e:  # noqa: BLE001
        return ("exc", type(e), str(e))


SCRIPT_X = (
    "from checks import c21\n"
    "ta, tb, op, route = %r\n"
    "ea, eb = c21.xmake(ta), c21.xmake(tb)\n"
    "a, b = ea.undefined(name='x'), eb.undefined(name='y')\n"
    "print('a:', [c.__name__ for c in type(a).__mro__[:-1]], ' b:', [c.__name__ for c in type(b).__mro__[:-1]])\n"
    "print('direct  :', c21.xdirect(ea, a, b, op))\n"
    "print('template:', c21.X_SRC[op], '->', c21.xtemplate(ea, a, b, op, False))\n"
    "print('expected:', c21.xref(ta, tb, op))\n"
)


def xtemplate(env_a, a, b, op, is_async):
    from jinja2 import Environment

    env = env_a if not is_async else Environment(undefined=env_a.undefined, enable_async=True)
    try:
        t = env.from_string(X_SRC[op])
        if is_async:
            return ("val", asyncio.run(t.render_async(a=a, b=b)))
        return ("val", t.render(a=a, b=b))
    except Exception as e:  # noqa: BLE001
        return ("exc", type(e), str(e))


def cross_shard(ai):
    from jinja2 import UndefinedError

    ta = XTYPES[ai]
    p = core.Part()
    for tb in XTYPES:
        if tb == ta:
            continue
        for op in XOPS:
            spec = xref(ta, tb, op)
            for route in ("direct", "template", "template-async"):
                env_a, env_b = xmake(ta), xmake(tb)
                a, b = env_a.undefined(name="x"), env_b.undefined(name="y")
                if type(a) is type(b):
                    raise core.HarnessError(f"{ta} and {tb} gave the same class")
                p.evals += 1
                if route == "direct":
                    out = xdirect(env_a, a, b, op)
                else:
                    out = xtemplate(env_a, a, b, op, route == "template-async")
                    if out[0] == "val":
                        out = ("val", {"True": True, "False": False, "2": 2, "1": 1}.get(out[1], out[1]))
                okind = repr(out[1]) if out[0] == "val" else out[1].__name__
                p.sig(("cross", xname(ta), xname(tb), op, okind))
                why = None
                if spec[0] == "err":
                    want_msg = "'x' is undefined" if spec[1] == "a" else "'y' is undefined"
                    if out[0] != "exc":
                        why = f"expected UndefinedError ({want_msg}), got value {out[1]!r}"
                    elif out[1] is not UndefinedError or out[2] != want_msg:
                        why = f"expected UndefinedError ({want_msg}), got {out[1].__name__}: {out[2]}"
                elif out[0] != "val" or type(out[1]) is not type(spec[1]) or out[1] != spec[1]:
                    why = f"expected {spec[1]!r}, got {out[1:] if out[0] == 'val' else (out[1].__name__, out[2])!r}"
                if why:
                    p.violation(f"C21/cross-type/{op}", {
                        "msg": f"{route}: a = {xname(ta)}(name='x'), b = {xname(tb)}(name='y'), {X_SRC[op]}: {why}",
                        "script": SCRIPT_X % ((ta, tb, op, route),)})
    p.sample({"kind": "two undefined types", "a": xname(ta), "b": xname(XTYPES[(ai + 1) % len(XTYPES)]),
              "source": X_SRC["eq"], "expected": [str(i) for i in xref(ta, XTYPES[(ai + 1) % len(XTYPES)], "eq")]}, cap=1)
    return p


def run(ctx: core.Ctx):
    core.import_all_jinja()
    ctx.rule = ("full grid, nothing thinned: 8 undefined types x 5 origins x (2 ways of obtaining x 200+ direct cells + 2 "
                "environments x 190+ template cells); distinct = (type, operation, operand order, other-is-undefined, outcome "
                "class) for direct cells and (sync/async, type, operation, order, outcome text/exception) for template cells")
    ctx.assumptions += [
        "excluded (counted as excluded_cells): 's' % u (str.__mod__ treats any object with __getitem__ as a mapping and "
        "returns 's' for every undefined type), u in 's' (TypeError from str.__contains__), u in 1 / 1.5 / None (TypeError: "
        "not a container) - Python gives the built-in operand the last word",
        "excluded: pickle of the make_logging_undefined variants (class is local to the factory; import by qualified name "
        "cannot work); copy.copy/copy.deepcopy of them are in the table",
        "pickle is tried with every protocol 2..%d; protocols 0 and 1 are excluded: Python's legacy reduce path raises "
        "TypeError for any class with non-empty __slots__ and no __getstate__ (Undefined itself), a Python limitation"
        % pickle.HIGHEST_PROTOCOL,
        "CALIBRATED (docstrings silent): len(non-strict) == 0; undefined == undefined of the same type, != anything else; "
        "non-strict undefined is hashable; `w in u` is False; DebugUndefined text for attribute/item/hint origins only "
        "required to be '{{ ... }}' containing the attribute/item/hint",
        "error message rule: \"'x' is undefined\" exactly for a missing name (class docstrings); contains the quoted "
        "attribute/key for missing attribute/item; contains the index for a missing list index; equals the hint for hint=",
        "for binary operators between two undefined values of the same type the left operand (for `in`: the container) is "
        "the one whose name the error carries (Python data model order)",
        "in the main grid the other undefined operand is of the same type as the one under test (same environment); a "
        "separate cross-type grid pairs every undefined type with every other one (4 bases, their logging wrappers, and a "
        "second wrapper class from another make_logging_undefined call) for ==, !=, `in [b]`, dict lookup and |unique, "
        "direct and from template source (sync + async): CALIBRATED different undefined types are never equal; the operand "
        "Python asks first (the right one when its class derives from the left's) raises if it is strict",
        "logging variants: only printing and iteration are required to log (documented); other log traffic is not compared",
        "Python-level attribute access uses the names foo, _x, __x, __x_, x__ (ordinary: UndefinedError / self for the "
        "chainable type) and __x__ (true dunder: AttributeError on every type, CALIBRATED from the comment in __getattr__)",
        "int/float filters are not used (their own contract is C23); int()/float()/complex() are exercised directly",
    ]
    ctx.pmap(cross_shard, list(range(len(XTYPES))))
    wkinds = WKINDS if ctx.quick else WKINDS_THOROUGH
    ctx.pmap(shard, [(ti, origin, wkinds) for ti in range(len(TYPES)) for origin in ORIGINS])
    # one defect, one signature: a deviation that shows on a base type and on its logging variant keeps the base
    # signature; one that shows on all four base types is filed under "all-types"
    sigs = {s for s, _ in ctx.viol}
    merged = []
    for s, d in ctx.viol:
        if s.endswith("+logging") and s[:-len("+logging")] in sigs:
            s = s[:-len("+logging")]
        merged.append((s, d))
    sigs = {s for s, _ in merged}
    final = []
    for s, d in merged:
        stem, _, t = s.rpartition("/")
        if t in BASES and all(stem + "/" + b in sigs for b in BASES):
            s = stem + "/all-types"
        final.append((s, d))
    final.sort(key=lambda sd: (len(sd[1].get("msg", "")), sd[1].get("msg", "")))
    ctx.viol[:] = final
    ctx.cov["bounds"] = {"types": [tname(*t) for t in TYPES], "origins": ORIGINS, "other_operands": wkinds,
                         "direct_cells_per_object": len(list(direct_cells(wkinds))),
                         "template_cells_per_environment": len(list(template_cells(wkinds))),
                         "pickle_protocols": PICKLE_PROTOCOLS,
                         "cross_type_pairs": len(XTYPES) * (len(XTYPES) - 1), "cross_type_operations": XOPS}
