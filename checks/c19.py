"""C19 — the immutable sandbox never modifies list, dict, set or deque data.

Part A: container type x every name in dir(type) x argument tuples x access
routes.  Part B: every built-in filter x container as value / as each
positional or keyword argument.  Sync and async, autoescape off and on.  Oracle: deep comparison of
all context data with a copy taken before rendering.
"""
from __future__ import annotations

import collections
import copy
import inspect
import itertools
import random as _random

from vf import core, sbx

META = {
    "level": "exploration",
    "engine": "E1",
    "technique": "bounded-exhaustive enumeration of container type x every dir() name x argument tuples x access routes, "
    "and of every built-in filter x container placement, in ImmutableSandboxedEnvironment (sync and async); oracle: "
    "order-sensitive deep comparison of every context container with a deepcopy taken before rendering, plus a table of "
    "mutating methods that is itself validated against CPython over the same argument menu",
    "text": "For list, dict, set, deque (and a bounded deque) every public method name is called with all 43 argument tuples of "
    "length 0-2 over {0, 1, 'k', [9], {'k': 9}, {9}} along 16 routes (direct, set/with alias, attr filter with literal and "
    "dynamic name, subscript string, dynamic subscript, map(attribute=), macro argument, attribute of a holder, item of a "
    "list, loop variable, namespace, do statement, conditional expression, format field); every dunder name with 0-1 "
    "arguments.  Every filter in env.filters is applied with a container as the value (bare, nested in a literal list, "
    "nested in a context list), and with a container in each of the first three positional arguments behind all dummy "
    "prefixes over {0, 'k', 'list'} and in every keyword parameter of the filter's signature, for 5 value shapes, sync/async x autoescape off/on, for 6 containers (the five above "
    "and a list of int, nested list, str, None, float, dict items so element-wise in-place rewrites show); results are "
    "printed and iterated so lazy filters run.  Part A is repeated under autoescape (quick: 3 routes, thorough: all).  After each render all context containers must equal their deep copies "
    "(order-sensitive); a name in the (CPython-validated) mutating table must end in SecurityError.",
    "note": "Bounded: containers of 2-3 scalars, one call per template, exact builtin types only (no subclasses).  The "
    "mutating-method table is checked against plain CPython calls at start-up: each listed method mutates for at least one "
    "argument tuple of the menu, no unlisted public method mutates for any.",
    "design_ref": "DESIGN.md §4 C19",
}

TYPES = ["list", "dict", "set", "deque", "deque-bounded"]
#: part B also uses a list whose items are ints, floats, None, nested lists and dicts, so that an element-wise
#: in-place rewrite (e.g. items replaced by their str()) is visible to the type-sensitive comparison
#: ... and lists whose items are NOT in key order (dicts / lists / strings to sort or group by "k", "n", 0, 1)
B_TYPES = TYPES + ["list-mixed", "list-of-dicts", "list-of-lists", "list-of-strings"]


def fresh(tname):
    if tname == "list":
        return [2, 0, 1]
    if tname == "dict":
        return {"k": 1, 0: 2}
    if tname == "set":
        return {0, "k"}
    if tname == "deque":
        return collections.deque([2, 0, 1])
    if tname == "deque-bounded":
        return collections.deque([2, 0, 1], maxlen=4)
    if tname == "list-of-dicts":
        return [{"k": 2, "n": "b"}, {"k": 1, "n": "c"}, {"k": 2, "n": "a"}, {"k": 0, "n": "d"}]
    if tname == "list-of-lists":
        return [[2, "b"], [1, "c"], [2, "a"], [0, "d"]]
    if tname == "list-of-strings":
        return ["b", "C", "a", "B"]
    if tname == "dict-str":
        return {"k": 1, "a": [5], "flag": False}
    if tname == "list-mixed":
        return [1, [7, 8], "s", None, 2.5, {"k": [3]}]
    raise AssertionError(tname)


def pytype(tname):
    return {"list": list, "dict": dict, "set": set, "deque": collections.deque, "deque-bounded": collections.deque,
            "list-mixed": list, "dict-str": dict, "list-of-dicts": list,
            "list-of-lists": list, "list-of-strings": list}[tname]


#: reference table (python library reference, "Mutable Sequence Types", "Mapping Types", "Set Types", collections.deque)
MUTATING = {
    "list": {"append", "clear", "extend", "insert", "pop", "remove", "reverse", "sort"},
    "dict": {"clear", "pop", "popitem", "setdefault", "update"},
    "set": {"add", "clear", "difference_update", "discard", "intersection_update", "pop", "remove",
            "symmetric_difference_update", "update"},
    "deque": {"append", "appendleft", "clear", "extend", "extendleft", "insert", "pop", "popleft", "remove", "reverse",
              "rotate"},
}
MUTATING["deque-bounded"] = MUTATING["deque"]

ARG_VALUES = [("0", lambda: 0), ("1", lambda: 1), ("'k'", lambda: "k"), ("[9]", lambda: [9]), ("{'k': 9}", lambda: {"k": 9}),
              ("{9}", lambda: {9})]


def arg_tuples(maxlen=2):
    out = [()]
    for n in range(1, maxlen + 1):
        out += list(itertools.product(range(len(ARG_VALUES)), repeat=n))
    return out


def same(a, b):
    """order-sensitive structural equality with exact types"""
    if type(a) is not type(b):
        return False
    if isinstance(a, (list, tuple, collections.deque)):
        if isinstance(a, collections.deque) and a.maxlen != b.maxlen:
            return False
        return len(a) == len(b) and all(same(x, y) for x, y in zip(a, b))
    if isinstance(a, dict):
        return len(a) == len(b) and all(same(k1, k2) and same(v1, v2) for (k1, v1), (k2, v2) in zip(a.items(), b.items()))
    if isinstance(a, (set, frozenset)):
        return a == b and sorted(map(repr, a)) == sorted(map(repr, b))
    if isinstance(a, Holder):
        return same(a.x, b.x)
    return a == b


class Holder:
    def __init__(self, x):
        self.x = x

    def __repr__(self):
        return "<holder>"


def describe(v):
    if isinstance(v, collections.deque):
        return "deque(%s%s)" % (describe(list(v)), "" if v.maxlen is None else ", maxlen=%d" % v.maxlen)
    if isinstance(v, set):
        return "{" + ", ".join(sorted(map(repr, v))) + "}" if v else "set()"
    if isinstance(v, list):
        return "[" + ", ".join(describe(x) for x in v) + "]"
    if isinstance(v, dict):
        return "{" + ", ".join(f"{describe(k)}: {describe(x)}" for k, x in v.items()) + "}"
    if isinstance(v, Holder):
        return "Holder(%s)" % describe(v.x)
    return repr(v)


def validate_table():
    """The MUTATING table against CPython itself, over the same argument menu."""
    tuples = arg_tuples()
    for tname in TYPES:
        for name in dir(pytype(tname)):
            if name.startswith("_"):
                continue
            mutated = False
            for tup in tuples:
                x = fresh(tname)
                before = copy.deepcopy(x)
                try:
                    m = getattr(x, name)
                    if callable(m):
                        m(*[ARG_VALUES[i][1]() for i in tup])
                except Exception:  # noqa: BLE001
                    pass
                if not same(x, before):
                    mutated = True
                    break
            if mutated != (name in MUTATING[tname]):
                raise core.HarnessError(f"mutating-method table disagrees with CPython for {tname}.{name}: mutated={mutated}")


# ------------------------------------------------------------------ part A: methods

def _args(n):
    return ", ".join(f"a{i}" for i in range(n))


#: route id -> fn(method name M, nargs) -> template;  x is the container, n == M, h.x is x, w == [x]
ROUTES = [
    ("direct", lambda M, k: "{{ x.%s(%s) }}" % (M, _args(k))),
    ("alias-set", lambda M, k: "{%% set f = x.%s %%}{{ f(%s) }}" % (M, _args(k))),
    ("alias-with", lambda M, k: "{%% with f = x.%s %%}{{ f(%s) }}{%% endwith %%}" % (M, _args(k))),
    ("attr-filter", lambda M, k: '{{ (x|attr("%s"))(%s) }}' % (M, _args(k))),
    ("attr-filter-dyn", lambda M, k: "{{ (x|attr(n))(%s) }}" % _args(k)),
    ("subscript", lambda M, k: '{{ x["%s"](%s) }}' % (M, _args(k))),
    ("subscript-dyn", lambda M, k: "{{ x[n](%s) }}" % _args(k)),
    ("map-attr", lambda M, k: '{{ ([x]|map(attribute="%s")|first)(%s) }}' % (M, _args(k))),
    ("macro-arg", lambda M, k: "{%% macro m(f) %%}{{ f(%s) }}{%% endmacro %%}{{ m(x.%s) }}" % (_args(k), M)),
    ("holder-attr", lambda M, k: "{{ h.x.%s(%s) }}" % (M, _args(k))),
    ("list-item", lambda M, k: "{{ w[0].%s(%s) }}" % (M, _args(k))),
    ("loop-var", lambda M, k: "{%% for y in w %%}{{ y.%s(%s) }}{%% endfor %%}" % (M, _args(k))),
    ("namespace", lambda M, k: "{%% set q = namespace(f=x.%s) %%}{{ q.f(%s) }}" % (M, _args(k))),
    ("do", lambda M, k: "{%% do x.%s(%s) %%}" % (M, _args(k))),
    ("condexpr", lambda M, k: "{{ (x.%s if true else 0)(%s) }}" % (M, _args(k))),
    ("format-field", lambda M, k: '{{ "<{0.%s}>".format(x) }}' % M),
]


ESC_ROUTES_QUICK = ("direct", "attr-filter", "format-field")


def make_env(asy, esc=False):
    from jinja2.sandbox import ImmutableSandboxedEnvironment

    import jinja2

    return ImmutableSandboxedEnvironment(enable_async=asy, autoescape=esc, extensions=["jinja2.ext.do", "jinja2.ext.i18n"],
                                         cache_size=0, loader=jinja2.DictLoader({"lib": "{% macro lm() %}L{% endmacro %}"}))


def method_case(asy, tname, M, route, tup, compiled=None, esc=False):
    fn = dict(ROUTES)[route]
    src = fn(M, len(tup))
    x = fresh(tname)
    data = {"x": x, "h": Holder(x), "w": [x], "n": M}
    for i, ai in enumerate(tup):
        data[f"a{i}"] = ARG_VALUES[ai][1]()
    before = copy.deepcopy(data)
    env = make_env(asy, esc)
    if compiled is None:
        compiled = sbx.compile_src(env, src)
    res = sbx.render_code(env, compiled, data)
    changed = [k for k in data if not same(data[k], before[k])]
    return src, res, changed, before, data


def method_script(asy, tname, M, route, tup, esc=False):
    return (
        "from checks import c19\n"
        f"src, res, changed, before, after = c19.method_case({asy!r}, {tname!r}, {M!r}, {route!r}, {tuple(tup)!r}, esc={esc!r})\n"
        "print('template:', src)\n"
        "print('context before:', {k: c19.describe(v) for k, v in before.items()})\n"
        "print('context after :', {k: c19.describe(v) for k, v in after.items()})\n"
        "print('result:', res, ' changed:', changed)\n"
        "# plain: ImmutableSandboxedEnvironment().from_string(src).render(x=<container>, a0=..., a1=...)\n"
    )


PRIMED_ROUTES = ("direct", "subscript", "attr-filter", "map-attr", "alias-set", "format-field")


def prime_plain_sandbox(asy, tname, M):
    """History step: a NON-immutable SandboxedEnvironment (legitimately) reads and calls the same method name on
    another object of the same type, along every lookup path, in the same process."""
    from jinja2.sandbox import SandboxedEnvironment

    env = SandboxedEnvironment(enable_async=asy, cache_size=0)
    for src in ("{{ x.%s }}" % M, '{{ x["%s"] }}' % M, '{{ x|attr("%s") }}' % M, '{{ [x]|map(attribute="%s")|list }}' % M,
                '{{ "{0.%s}".format(x) }}' % M, "{{ x.%s() }}" % M, "{{ x.%s(0) }}" % M):
        sbx.render_code(env, sbx.compile_src(env, src), {"x": fresh(tname)})


# ------------------------------------------------------------------ part A': methods reached UNBOUND through the type object
#
# `dict.update(d, x=1)`: the receiver of the attribute lookup is the type (the `dict` default global, or a type
# object handed in as data), the container only appears as the first call argument.

class ListSub(list):
    pass


class DictSub(dict):
    pass


class SetSub(set):
    pass


class DequeSub(collections.deque):
    pass


#: receiver id -> (template expression of the type, type object put in the context as T (None: a global), container type name)
TYPE_RECEIVERS = {
    "dict-global": ("dict", None, "dict"),
    "dict": ("T", dict, "dict"),
    "list": ("T", list, "list"),
    "set": ("T", set, "set"),
    "deque": ("T", collections.deque, "deque"),
    "dict-subclass": ("T", DictSub, "dict"),
    "list-subclass": ("T", ListSub, "list"),
    "set-subclass": ("T", SetSub, "set"),
    "deque-subclass": ("T", DequeSub, "deque"),
    "type-in-holder": ("h.x", "holder", "dict"),
    "type-in-list": ("w[0]", "listitem", "list"),
    "type-of-literal": ("tt[0]", "tt", "list"),
}
#: route id -> fn(type expr E, method M, nargs k) -> template; the container is x, extra arguments a0, a1
TYPE_ROUTES = [
    ("direct", lambda E, M, k: "{{ %s.%s(%s) }}" % (E, M, ", ".join(["x"] + [f"a{i}" for i in range(k)]))),
    ("attr-filter", lambda E, M, k: '{{ (%s|attr("%s"))(%s) }}' % (E, M, ", ".join(["x"] + [f"a{i}" for i in range(k)]))),
    # no subscript route: T["m"] on a type is types.GenericAlias (dict['update'](x) builds a new dict), not a method
    ("alias-set", lambda E, M, k: "{%% set f = %s.%s %%}{{ f(%s) }}" % (E, M, ", ".join(["x"] + [f"a{i}" for i in range(k)]))),
    # (map(attribute=) looks items up first, T["m"], so it is the same GenericAlias)
    ("macro-arg", lambda E, M, k: "{%% macro m(f, y) %%}{{ f(%s) }}{%% endmacro %%}{{ m(%s.%s, x) }}"
     % (", ".join(["y"] + [f"a{i}" for i in range(k)]), E, M)),
    ("kwargs", lambda E, M, k: "{{ %s.%s(x, **kw) }}" % (E, M)),
    ("format-field", lambda E, M, k: '{{ "<{0.%s}>".format(%s) }}' % (M, E)),
]


def type_case(asy, rid, M, route, tup, compiled=None):
    expr, T, tname = TYPE_RECEIVERS[rid]
    src = dict(TYPE_ROUTES)[route](expr, M, len(tup))
    x = fresh(tname)
    data = {"x": x, "kw": {"zz": 1}}
    if T == "holder":
        data["h"] = Holder(dict)
    elif T == "listitem":
        data["w"] = [list]
    elif T == "tt":
        data["tt"] = (list, dict)
    elif T is not None:
        data["T"] = T
    for i, ai in enumerate(tup):
        data[f"a{i}"] = ARG_VALUES[ai][1]()
    before = copy.deepcopy({k: v for k, v in data.items() if k not in ("T", "h", "w", "tt")})
    env = make_env(asy)
    if compiled is None:
        compiled = sbx.compile_src(env, src)
    res = sbx.render_code(env, compiled, data)
    changed = [k for k in before if not same(data[k], before[k])]
    return src, res, changed, before, data


def type_shard(arg):
    asy, rid, names = arg
    core.import_all_jinja()
    p = core.Part()
    expr, T, tname = TYPE_RECEIVERS[rid]
    for M in names:
        is_mut = M in MUTATING[tname] or M in ("__init__", "__setitem__", "__delitem__", "__iadd__", "__imul__", "__ior__",
                                               "__iand__", "__ixor__", "__isub__", "__setattr__", "__delattr__")
        is_mut = is_mut and hasattr(pytype(tname), M)
        dunder = M.startswith("_")
        worst = None
        for route, fn in TYPE_ROUTES:
            if dunder and route not in ("direct", "attr-filter"):
                continue
            comp = {}
            for tup in arg_tuples(2):
                if route in ("format-field", "kwargs") and tup:
                    continue
                k = len(tup)
                if k not in comp:
                    comp[k] = sbx.compile_src(make_env(asy), fn(expr, M, k))
                    if comp[k][0] != "code":
                        raise core.HarnessError(f"does not compile: {fn(expr, M, k)!r} {comp[k]}")
                p.evals += 1
                src, res, changed, before, after = type_case(asy, rid, M, route, tup, comp[k])
                oc = "ok" if res[0] == "ok" else res[1]
                p.sig(("type", tname, M, oc))
                argtxt = "(x" + "".join(", " + ARG_VALUES[i][0] for i in tup) + ")"
                reached = is_mut and ((res not in (("ok", "<>"), ("ok", "&lt;&gt;"))) if route == "format-field"
                                      else not (res[0] == "exc" and res[1] == "SecurityError"))
                if changed or reached:
                    rank = (0 if changed else 1, len(tup), route != "direct")
                    what = (f"changed {', '.join(f'{c}: {describe(before[c])} -> {describe(after[c])}' for c in changed)}"
                            if changed else f"was handed out (outcome {res!r})")
                    det = {
                        "msg": f"[async={asy}] mutating method reached through the type object ({rid}): {tname}.{M}{argtxt} via "
                               f"{route} with x={describe(before['x'])} {what}; template {src!r} -> {res!r}",
                        "async": asy, "receiver": rid, "method": M, "route": route, "args": argtxt, "template": src,
                        "script": "from checks import c19\n"
                                  f"src, res, changed, before, after = c19.type_case({asy!r}, {rid!r}, {M!r}, {route!r}, {tuple(tup)!r})\n"
                                  "print('template:', src)\n"
                                  "print('before:', {k: c19.describe(v) for k, v in before.items()})\n"
                                  "print('after :', {k: c19.describe(after[k]) for k in before})\n"
                                  "print('result:', res, ' changed:', changed)\n",
                    }
                    if worst is None or rank < worst[0]:
                        worst = (rank, f"C19/{'mutated' if changed else 'reachable'}-through-type/{tname}.{M}", det)
                if M in ("update", "append") and route == "direct" and tup == (4,):
                    p.sample({"async": asy, "receiver": rid, "method": M, "route": route, "template": src, "outcome": oc,
                              "context_changed": changed}, cap=1)
        if worst:
            p.violation(worst[1], worst[2])
    return p


def history_shard(arg):
    """Two-environment histories.  These shards run in a worker pool of their own, before anything else, so that
    within a process the plain sandbox is always the FIRST user of a (type, method) pair."""
    asy, tname, names = arg
    core.import_all_jinja()
    p = core.Part()
    esc, maxargs = False, 2
    for M in names:
        is_mut = M in MUTATING[tname]
        worst = None
        if True:
            # two-environment history: plain sandbox first, immutable sandbox afterwards
            prime_plain_sandbox(asy, tname, M)
            for route, fn in ROUTES:
                if route not in PRIMED_ROUTES:
                    continue
                comp = {}
                for tup in arg_tuples(min(maxargs, 2)):
                    if route == "format-field" and tup:
                        continue
                    k = len(tup)
                    if k not in comp:
                        comp[k] = sbx.compile_src(make_env(asy, esc), fn(M, k))
                    p.evals += 1
                    src, res, changed, before, after = method_case(asy, tname, M, route, tup, comp[k], esc)
                    oc = "ok" if res[0] == "ok" else res[1]
                    p.sig((tname, M, "after-plain", oc))
                    argtxt = "(" + ", ".join(ARG_VALUES[i][0] for i in tup) + ")"
                    reached = is_mut and ((res not in (("ok", "<>"), ("ok", "&lt;&gt;"))) if route == "format-field"
                                          else not (res[0] == "exc" and res[1] == "SecurityError"))
                    if changed or reached:
                        rank = (0 if changed else 1, len(tup), route != "direct")
                        what = (f"changed {', '.join(f'{c}: {describe(before[c])} -> {describe(after[c])}' for c in changed)}"
                                if changed else f"was handed out (outcome {res!r})")
                        det = {
                            "msg": f"[async={asy}] after a plain SandboxedEnvironment used {pytype(tname).__name__}.{M} in the same "
                                   f"process, the immutable sandbox: {tname} {describe(before['x'])}: {M}{argtxt} via {route} {what}; "
                                   f"template {src!r} -> {res!r}",
                            "async": asy, "type": tname, "method": M, "route": route, "args": argtxt, "template": src,
                            "script": "from checks import c19\n"
                                      f"c19.prime_plain_sandbox({asy!r}, {tname!r}, {M!r})\n"
                                      + method_script(asy, tname, M, route, tup, esc).split("\n", 1)[1],
                        }
                        sig = f"C19/{'mutated' if changed else 'reachable'}-after-plain-sandbox/{tname}.{M}"
                        if worst is None or rank < worst[0] or not worst[1].endswith(f"{tname}.{M}"):
                            worst = (rank, sig, det)
        if worst:
            p.violation(worst[1], worst[2])
    return p


def method_shard(arg):
    asy, tname, names, maxargs, esc, route_ids = arg
    core.import_all_jinja()
    p = core.Part()
    tuples = arg_tuples(maxargs)
    for M in names:
        is_mut = M in MUTATING[tname]
        worst = None  # (rank, signature, detail)
        for route, fn in ROUTES:
            if route_ids is not None and route not in route_ids:
                continue
            comp = {}
            for tup in tuples:
                if route == "format-field" and tup:
                    continue
                k = len(tup)
                if k not in comp:
                    comp[k] = sbx.compile_src(make_env(asy, esc), fn(M, k))
                    if comp[k][0] != "code":
                        raise core.HarnessError(f"does not compile: {fn(M, k)!r} {comp[k]}")
                p.evals += 1
                src, res, changed, before, after = method_case(asy, tname, M, route, tup, comp[k], esc)
                oc = "ok" if res[0] == "ok" else res[1]
                p.sig((tname, M, oc))
                argtxt = "(" + ", ".join(ARG_VALUES[i][0] for i in tup) + ")"
                if changed:
                    rank = (0, len(tup), route != "direct")
                    det = {
                        "msg": f"[async={asy} autoescape={esc}] {tname} {describe(before['x'])}: {M}{argtxt} via {route} changed "
                               f"{', '.join(f'{c}: {describe(before[c])} -> {describe(after[c])}' for c in changed)}; "
                               f"template {src!r} -> {res!r}",
                        "async": asy, "type": tname, "method": M, "route": route, "args": argtxt, "template": src,
                        "script": method_script(asy, tname, M, route, tup, esc),
                    }
                    if worst is None or rank < worst[0]:
                        worst = (rank, f"C19/mutated/{tname}.{M}", det)
                elif is_mut:
                    reached = (res not in (("ok", "<>"), ("ok", "&lt;&gt;"))) if route == "format-field" else not (res[0] == "exc" and res[1] == "SecurityError")
                    if reached:
                        rank = (1, len(tup), route != "direct")
                        det = {
                            "msg": f"[async={asy} autoescape={esc}] mutating method {tname}.{M}{argtxt} via {route} was handed out "
                                   f"(outcome {res!r} instead of SecurityError / undefined); template {src!r}",
                            "async": asy, "type": tname, "method": M, "route": route, "args": argtxt, "template": src,
                            "script": method_script(asy, tname, M, route, tup, esc),
                        }
                        if worst is None or rank < worst[0]:
                            worst = (rank, f"C19/reachable/{tname}.{M}", det)
                if M in ("append", "index", "keys", "union") and route == "alias-set" and len(tup) == 1 and tup[0] == 0:
                    p.sample({"async": asy, "type": tname, "method": M, "route": route, "args": argtxt, "template": src,
                              "outcome": oc, "context_changed": changed}, cap=1)
        if worst:
            p.violation(worst[1], worst[2])
        p.count("method_names")
    return p


# ------------------------------------------------------------------ part B: filters

DUMMIES = ["0", '"k"', '"list"']
VALUE_FORMS = ['"ab"', "3", "[[5]]", "[1, 2]", "w"]


def filter_params(func):
    """keyword parameter names of a filter after the pass_* argument and the value"""
    try:
        sig = inspect.signature(func)
    except (TypeError, ValueError):
        return []
    names = [n for n, q in sig.parameters.items() if q.kind in (q.POSITIONAL_OR_KEYWORD, q.KEYWORD_ONLY)]
    from jinja2.utils import _PassArg

    skip = 1 + (1 if _PassArg.from_obj(func) is not None else 0)
    return names[skip:]


def filter_programs(fname, params):
    """all (kind, expression) placements of the container `c` for one filter"""
    out = []
    # container as the value
    for pre in ["", "0", '"k"', "2, true", '"n"', "1", '"k", "n"', '"k,n"', "true", '"k", "eq", 2', '"upper"']:
        out.append(("value", "c|%s(%s)" % (fname, pre) if pre else "c|%s" % fname))
    for kwv in ['attribute="k"', 'attribute="n"', "attribute=0", "attribute=1", 'attribute="k", reverse=true',
                'attribute="n", case_sensitive=true', "reverse=true", "case_sensitive=true", 'attribute="k,n"',
                'by="value"', 'attribute="k", default=0']:
        out.append(("value+kwconst", "c|%s(%s)" % (fname, kwv)))
        out.append(("value+kwconst", "w[0]|%s(%s)" % (fname, kwv)))
    out.append(("value-nested-literal", "[c]|%s" % fname))
    out.append(("value-nested-context", "w|%s" % fname))
    for kw in sorted(set(params) | {"attribute", "default", "start"}):
        out.append(("value+kw", "c|%s(%s=c)" % (fname, kw)))
    # container as an argument
    for v in VALUE_FORMS:
        for npre in range(3):
            for pre in itertools.product(DUMMIES, repeat=npre):
                out.append((f"arg{npre}", "%s|%s(%s)" % (v, fname, ", ".join(pre + ("c",)))))
        for kw in sorted(set(params) | {"attribute", "default", "start"}):
            out.append(("kwarg", "%s|%s(%s=c)" % (v, fname, kw)))
    return out


def filter_template(expr):
    return "{%% set r = %s %%}{{ r }}{%% for i in r %%}{{ i }}{%% endfor %%}" % expr


def filter_case(asy, tname, expr, compiled=None, esc=False):
    src = filter_template(expr)
    data = {"c": fresh(tname), "w": [fresh(tname)]}
    before = copy.deepcopy(data)
    env = make_env(asy, esc)
    if compiled is None:
        compiled = sbx.compile_src(env, src)
    _random.seed(0)  # pins the `random` filter of the code under test; the harness itself draws nothing
    with core.alarm(120):
        res = sbx.render_code(env, compiled, data)
    changed = [k for k in data if not same(data[k], before[k])]
    return src, res, changed, before, data


def filter_shard(arg):
    asy, esc, fnames = arg
    core.import_all_jinja()
    p = core.Part()
    env0 = make_env(asy, esc)
    for fname in fnames:
        params = filter_params(env0.filters[fname])
        worst = {}
        for kind, expr in filter_programs(fname, params):
            comp = sbx.compile_src(make_env(asy, esc), filter_template(expr))
            if comp[0] != "code":
                raise core.HarnessError(f"does not compile: {expr!r} {comp}")
            # the unordered lists only matter where the container is the filter's VALUE
            for tname in (B_TYPES if kind.startswith("value") else B_TYPES[:6]):
                p.evals += 1
                try:
                    src, res, changed, before, after = filter_case(asy, tname, expr, comp, esc)
                except core.CaseTimeout:
                    p.violation(f"C19/filter-hang/{fname}", {"msg": f"[async={asy} autoescape={esc}] {expr!r} with c={tname} did not finish in 120 s"})
                    continue
                oc = "ok" if res[0] == "ok" else res[1]
                p.sig((fname, kind.rstrip("012"), oc, esc))
                if changed:
                    # signature names the object that changed: its role in the expression and its type
                    key = changed[0]
                    head = expr.split("|", 1)[0]
                    role = "value" if key in head else "argument"
                    sig = f"C19/filter-mutated/{fname}/{role}/{type(before[key]).__name__}"
                    rank = (len(expr), not expr.startswith("c|"), tname)
                    det = {
                        "msg": f"[async={asy} autoescape={esc}] {{{{ {expr} }}}} with c={describe(before['c'])}, w={describe(before['w'])} changed "
                               f"{', '.join(f'{c}: {describe(before[c])} -> {describe(after[c])}' for c in changed)} "
                               f"(outcome {res!r})",
                        "async": asy, "autoescape": esc, "filter": fname, "placement": kind, "type": tname, "template": src,
                        "script": "from checks import c19\n"
                                  f"src, res, changed, before, after = c19.filter_case({asy!r}, {tname!r}, {expr!r}, esc={esc!r})\n"
                                  "print('template:', src)\n"
                                  "print('context before:', {k: c19.describe(v) for k, v in before.items()})\n"
                                  "print('context after :', {k: c19.describe(v) for k, v in after.items()})\n"
                                  "print('result:', res, ' changed:', changed)\n",
                    }
                    if sig not in worst or rank < worst[sig][0]:
                        worst[sig] = (rank, det)
                if fname in ("sum", "indent", "sort") and kind in ("value", "kwarg") and tname == "list":
                    p.sample({"async": asy, "filter": fname, "placement": kind, "type": tname, "template": src,
                              "outcome": oc, "context_changed": changed}, cap=1)
        for sig, (_, det) in sorted(worst.items()):
            p.violation(sig, det)
        p.count("filters")
    return p


# ------------------------------------------------------------------ part C: namespace() and attribute assignment
#
# The only statements that store into an object are `{% set ns.attr = v %}` / `{% set ns.attr %}..{% endset %}`; they
# are meant for Namespace objects only.  Routes: a namespace built FROM a context container, and attribute
# assignment aimed at the container itself (single, repeated, after a branch that is not taken, after rebinding
# a namespace name to the container, through loop variables, macro parameters and aliases).

C_TYPES = ["dict", "dict-str", "list", "set", "deque", "list-mixed"]
ASSIGNS = [
    ("set", "{% set @T.a = 99 %}"),
    ("set-existing-key", "{% set @T.k = 99 %}"),
    ("set-block", "{% set @T.a %}x{% endset %}"),
    ("set-block-filter", "{% set @T.a | upper %}x{% endset %}"),
    ("set-tuple", "{% set @T.a, @T.b = 1, 2 %}"),
    ("set-twice", "{% set @T.a = 1 %}{% set @T.b = 2 %}"),
    ("set-from-self", "{% set @T.a = @T.k %}"),
]
NS_BUILD = [
    ("namespace(c)", "{% set ns = namespace(c) %}"),
    ("namespace(c, k=1)", "{% set ns = namespace(c, z=1) %}"),
    ("namespace(**c)", "{% set ns = namespace(**c) %}"),
    ("namespace(c)-with", "{% with ns = namespace(c) %}@BODY{% endwith %}"),
    ("namespace(h.x)", "{% set ns = namespace(h.x) %}"),
    ("namespace(w[0])", "{% set ns = namespace(w[0]) %}"),
    ("namespace(c|items)", "{% set ns = namespace(c|items) %}"),
    ("namespace(namespace(c))", "{% set ns = namespace(c) %}{% set ns = namespace(ns) %}"),
    ("namespace(c)-in-macro", "{% macro m(ns) %}@BODY{% endmacro %}{{ m(namespace(c)) }}"),
    ("namespace(c)-in-loop", "{% for ns in [namespace(c)] %}@BODY{% endfor %}"),
]
#: attribute assignment aimed at a context container; @A = an assignment from ASSIGNS with target name substituted
DIRECT = [
    ("direct", "@A[c]"),
    ("after-untaken-if", "{% if false %}@A[c]{% endif %}@A[c]"),
    ("after-untaken-if-flag", "{% if flag %}{% set c.a = 1 %}{% endif %}@A[c]"),
    ("after-untaken-elif", "{% if true %}{% elif true %}@A[c]{% endif %}@A[c]"),
    ("after-untaken-else", "{% if true %}{% else %}@A[c]{% endif %}@A[c]"),
    ("after-empty-for", "{% for i in [] %}@A[c]{% endfor %}@A[c]"),
    ("after-for-else", "{% for i in [1] %}{% else %}@A[c]{% endfor %}@A[c]"),
    ("in-taken-if", "{% if true %}@A[c]{% endif %}"),
    ("in-for", "{% for i in [1, 2] %}@A[c]{% endfor %}"),
    ("rebound-namespace", "{% set ns = namespace() %}@A[ns]{% set ns = c %}@A[ns]"),
    ("rebound-namespace-with", "{% set ns = namespace() %}@A[ns]{% with ns = c %}@A[ns]{% endwith %}"),
    ("rebound-in-loop", "{% for ns in [namespace(), c] %}@A[ns]{% endfor %}"),
    ("alias", "{% set g = c %}@A[g]"),
    ("holder-alias", "{% set g = h.x %}@A[g]"),
    ("loop-var", "{% for y in w %}@A[y]{% endfor %}"),
    ("macro-param", "{% macro m(x) %}@A[x]{% endmacro %}{{ m(namespace()) }}{{ m(c) }}"),
    ("macro-param-untaken", "{% macro m(x, go) %}{% if go %}@A[x]{% endif %}@A[x]{% endmacro %}{{ m(namespace(), true) }}{{ m(c, false) }}"),
    ("call-block-param", "{% macro m() %}{{ caller(c) }}{% endmacro %}{% call(x) m() %}@A[x]{% endcall %}"),
    ("mixed-tuple", "{% set ns = namespace() %}{% set ns.a, c.b = 1, 2 %}"),
    ("mixed-tuple-rev", "{% set ns = namespace() %}{% set c.b, ns.a = 1, 2 %}"),
    ("in-block", "{% block b %}@A[c]{% endblock %}"),
    ("in-filter-block", "{% filter upper %}@A[c]{% endfilter %}"),
    ("second-statement-other-frame", "{% for i in [1] %}{% if false %}@A[c]{% endif %}{% endfor %}{% for i in [1] %}@A[c]{% endfor %}"),
]

_NS = "{% set ns = namespace() %}"
#: fixed programs: tuple targets that mix a Name and an attribute target of the SAME name (the name is rebound
#: to a context container inside the very assignment that stores the attribute), block assignments whose body
#: rebinds the target name, and dotted targets where the grammar has none (must be a syntax error or harmless)
FIXED = [
    # ---- Name + NSRef of the same name in one tuple target
    ("tuple-rebind/name-first", _NS + "{% set ns, ns.x = c, 1 %}"),
    ("tuple-rebind/attr-first", _NS + "{% set ns.x, ns = 1, c %}{% set ns.y, ns = 2, c %}"),
    ("tuple-rebind/three", _NS + "{% set q, ns, ns.x = 0, c, 1 %}"),
    ("tuple-rebind/two-attrs", _NS + "{% set ns, ns.x, ns.k = c, 1, 2 %}"),
    ("tuple-rebind/attr-name-attr", _NS + "{% set ns.x, ns, ns.y = 1, c, 2 %}"),
    ("tuple-rebind/nested-tuple", _NS + "{% set (ns, ns.x), q = (c, 1), 2 %}"),
    ("tuple-rebind/nested-tuple-2", _NS + "{% set q, (ns, ns.x) = 2, (c, 1) %}"),
    ("tuple-rebind/value-pair-from-context", _NS + "{% set ns, ns.x = pair %}"),
    ("tuple-rebind/holder", _NS + "{% set ns, ns.x = h.x, 1 %}"),
    ("tuple-rebind/list-item", _NS + "{% set ns, ns.x = w[0], 1 %}"),
    ("tuple-rebind/in-loop", _NS + "{% for i in [1, 2] %}{% set ns, ns.x = c, i %}{% endfor %}"),
    ("tuple-rebind/loop-local-namespace", "{% for i in [1, 2] %}{% set ns = namespace() %}{% set ns, ns.x = c, i %}{% endfor %}"),
    ("tuple-rebind/loop-var", "{% for ns in [namespace()] %}{% set ns, ns.x = c, 1 %}{% endfor %}"),
    ("tuple-rebind/in-macro", "{% macro m(ns) %}{% set ns, ns.x = c, 1 %}{% endmacro %}{{ m(namespace()) }}"),
    ("tuple-rebind/macro-arg-value", "{% macro m(ns, v) %}{% set ns, ns.x = v, 1 %}{% endmacro %}{{ m(namespace(), c) }}"),
    ("tuple-rebind/in-call-block", "{% macro m() %}{{ caller(namespace()) }}{% endmacro %}{% call(ns) m() %}{% set ns, ns.x = c, 1 %}{% endcall %}"),
    ("tuple-rebind/in-if", _NS + "{% if true %}{% set ns, ns.x = c, 1 %}{% endif %}"),
    ("tuple-rebind/in-with", "{% with ns = namespace() %}{% set ns, ns.x = c, 1 %}{% endwith %}"),
    ("tuple-rebind/in-block", _NS + "{% block b %}{% set ns = namespace() %}{% set ns, ns.x = c, 1 %}{% endblock %}"),
    ("tuple-rebind/twice", _NS + "{% set ns, ns.x = namespace(), 1 %}{% set ns, ns.x = c, 2 %}"),
    ("tuple-rebind/existing-key", _NS + "{% set ns, ns.k = c, 99 %}"),
    ("tuple-rebind/other-alias", _NS + "{% set q = ns %}{% set ns, q.x = c, 1 %}{% set q, q.x = c, 1 %}"),
    # ---- block assignment whose body rebinds the target name
    ("block-rebind/set", "{% set c.a %}{% set c = namespace() %}x{% endset %}"),
    ("block-rebind/set-filter", "{% set c.a | upper %}{% set c = namespace() %}x{% endset %}"),
    ("block-rebind/existing-key", "{% set c.k %}{% set c = namespace() %}x{% endset %}"),
    ("block-rebind/namespace-call-args", "{% set c.a %}{% set c = namespace(a=1) %}{{ c.a }}{% endset %}"),
    ("block-rebind/tuple", "{% set c.a %}{% set c, q = namespace(), 1 %}x{% endset %}"),
    ("block-rebind/with", "{% set c.a %}{% with c = namespace() %}x{% endwith %}{% endset %}"),
    ("block-rebind/for", "{% set c.a %}{% for c in [namespace()] %}x{% endfor %}{% endset %}"),
    ("block-rebind/macro-def", "{% set c.a %}{% macro c() %}{% endmacro %}x{% endset %}"),
    ("block-rebind/import", '{% set c.a %}{% import "lib" as c %}x{% endset %}'),
    ("block-rebind/nested-block-set", "{% set c.a %}{% set c %}y{% endset %}x{% endset %}"),
    ("block-rebind/loop-var", "{% for y in w %}{% set y.a %}{% set y = namespace() %}x{% endset %}{% endfor %}"),
    ("block-rebind/macro-param", "{% macro m(x) %}{% set x.a %}{% set x = namespace() %}v{% endset %}{% endmacro %}{{ m(c) }}"),
    ("block-rebind/alias", "{% set g = c %}{% set g.a %}{% set g = namespace() %}x{% endset %}"),
    ("block-rebind/in-if", "{% if true %}{% set c.a %}{% set c = namespace() %}x{% endset %}{% endif %}"),
    ("block-rebind/body-if", "{% set c.a %}{% if true %}{% set c = namespace() %}{% endif %}x{% endset %}"),
    ("block-rebind/after-real-namespace", _NS + "{% set ns.a %}{% set ns = c %}x{% endset %}{% set ns.b %}y{% endset %}"),
    # ---- dotted / subscripted targets where the grammar has no attribute targets
    ("dotted-target/with", "{% with c.x = 1 %}{% endwith %}"),
    ("dotted-target/with-second", "{% with q = 1, c.x = 2 %}{% endwith %}"),
    ("dotted-target/with-existing-key", "{% with c.k = 99 %}{{ c.k }}{% endwith %}"),
    ("dotted-target/with-loop-var", "{% for y in w %}{% with y.x = 1 %}{% endwith %}{% endfor %}"),
    ("dotted-target/with-macro-param", "{% macro m(x) %}{% with x.a = 1 %}{% endwith %}{% endmacro %}{{ m(c) }}"),
    ("dotted-target/with-holder", "{% with h.x.a = 1 %}{% endwith %}"),
    ("dotted-target/for", "{% for c.x in [1] %}{% endfor %}"),
    ("dotted-target/for-tuple", "{% for i, c.x in [(1, 2)] %}{% endfor %}"),
    ("dotted-target/for-loop-var", "{% for y in w %}{% for y.x in [1] %}{% endfor %}{% endfor %}"),
    ("dotted-target/macro-param", "{% macro m(c.x) %}{% endmacro %}{{ m(1) }}"),
    ("dotted-target/call-param", "{% macro m() %}{{ caller(1) }}{% endmacro %}{% call(c.x) m() %}{% endcall %}"),
    ("dotted-target/import-as", '{% import "lib" as c.x %}'),
    ("dotted-target/from-import-as", '{% from "lib" import lm as c.x %}'),
    ("dotted-target/set-two-levels", "{% set c.x.y = 1 %}"),
    ("dotted-target/set-subscript", '{% set c["x"] = 1 %}'),
    ("dotted-target/set-call", "{% set c.update(x=1) = 1 %}"),
    ("dotted-target/set-block-two-levels", "{% set c.x.y %}v{% endset %}"),
    ("dotted-target/block-name", "{% block c.x %}{% endblock %}"),
    ("dotted-target/trans-var", "{% trans c.x=1 %}t{% endtrans %}"),
    ("dotted-target/filter-block", "{% filter c.x %}{% endfilter %}"),
]


def _assign(pat, target):
    return pat.replace("@T", target)


def partc_programs():
    out = []
    for aid, apat in ASSIGNS:
        for nid, npat in NS_BUILD:
            body = _assign(apat, "ns") + "{{ ns.a }}"
            src = npat.replace("@BODY", body) if "@BODY" in npat else npat + body
            out.append((f"namespace/{nid}/{aid}", src))
        for did, dpat in DIRECT:
            src = dpat
            for t in ("c", "ns", "g", "y", "x"):
                src = src.replace(f"@A[{t}]", _assign(apat, t))
            if "@A" in dpat or aid == "set":
                out.append((f"assign/{did}/{aid}", src))
    for fid, src in FIXED:
        out.append((f"{fid}/fixed", src))
    return out


def partc_case(asy, esc, tname, src, compiled=None):
    x = fresh(tname)
    data = {"c": x, "h": Holder(x), "w": [x], "flag": False, "pair": (x, 1)}
    before = copy.deepcopy(data)
    env = make_env(asy, esc)
    if compiled is None:
        compiled = sbx.compile_src(env, src)
    res = sbx.render_code(env, compiled, data)
    changed = [k for k in data if not same(data[k], before[k])]
    return res, changed, before, data, compiled


def partc_shard(arg):
    asy, esc, lo, hi = arg
    core.import_all_jinja()
    p = core.Part()
    for pid, src in partc_programs()[lo:hi]:
        comp = sbx.compile_src(make_env(asy, esc), src)
        if comp[0] == "code":
            viol, st = sbx.structural(comp[2])
            p.count("struct_programs")
            p.count("struct_namespace_stores", st["namespace_store"])
            for kind, code in viol:
                if kind == "subscript":
                    p.violation(f"C19/struct/unguarded-item-store/{pid.split('/')[1]}", {
                        "msg": f"generated code stores an item into a template value without the Namespace guard: {code!r} "
                               f"in program {src!r}",
                        "script": "from checks import c19\n"
                                  f"print(c19.make_env({asy!r}, {esc!r}).compile({src!r}, raw=True))\n",
                    })
        for tname in C_TYPES:
            p.evals += 1
            res, changed, before, after, _ = partc_case(asy, esc, tname, src, comp)
            oc = "ok" if res[0] == "ok" else res[1]
            p.sig((pid.rsplit("/", 1)[0], pytype(tname).__name__, oc))
            if changed:
                p.violation(f"C19/assign-mutated/{pid.rsplit('/', 1)[0]}/{pytype(tname).__name__}", {
                    "msg": f"[async={asy} autoescape={esc}] {src!r} with c={describe(before['c'])} changed "
                           f"{', '.join(f'{k}: {describe(before[k])} -> {describe(after[k])}' for k in changed)} "
                           f"(outcome {res!r})",
                    "async": asy, "autoescape": esc, "program": pid, "type": tname, "template": src,
                    "script": "from checks import c19\n"
                              f"res, changed, before, after, _ = c19.partc_case({asy!r}, {esc!r}, {tname!r}, {src!r})\n"
                              "print('context before:', {k: c19.describe(v) for k, v in before.items()})\n"
                              "print('context after :', {k: c19.describe(v) for k, v in after.items()})\n"
                              "print('result:', res, ' changed:', changed)\n",
                })
            if pid in ("namespace/namespace(c)/set", "assign/after-untaken-if-flag/set") and tname == "dict-str":
                p.sample({"async": asy, "program": pid, "type": tname, "template": src, "outcome": oc,
                          "context_changed": changed}, cap=2)
    return p


def dispatch(arg):
    kind, payload = arg
    return {"method": method_shard, "filter": filter_shard, "partc": partc_shard, "history": history_shard,
            "type": type_shard}[kind](payload)


def chunks(xs, n):
    return [xs[i:i + n] for i in range(0, len(xs), n)]


def run(ctx: core.Ctx):
    core.import_all_jinja()
    validate_table()
    ctx.rule = ("type x dir() name x argument tuple x route, and filter x placement x container type, each rendered in a "
                "fresh ImmutableSandboxedEnvironment; every case is compared against a deepcopy of its context; distinct = "
                "(type, method, outcome class) and (filter, placement kind, outcome class)")
    ctx.assumptions += [
        "mutating-method table taken from the Python library reference and validated against CPython over the argument menu",
        "arguments are passed as context variables a0, a1 (they are compared with their copies too)",
        "filters are exercised through one template shape that prints and iterates the result",
    ]
    shards = []
    nnames = {}
    for tname in TYPES:
        names = dir(pytype(tname))
        public = [n for n in names if not n.startswith("_")]
        dunder = [n for n in names if n.startswith("_")]
        nnames[tname] = {"public": len(public), "underscore": len(dunder)}
        for asy in (False, True):
            for c in chunks(public, 3):
                shards.append((asy, tname, c, 2 if ctx.quick else 3, False, None))
            for c in chunks(dunder, 12):
                shards.append((asy, tname, c, 1 if ctx.quick else 2, False, None))
            # autoescape on: attribute access does not depend on it; quick keeps three routes, thorough all
            for c in chunks(public, 6):
                shards.append((asy, tname, c, 2, True, ESC_ROUTES_QUICK if ctx.quick else None))
    hist = [("history", (asy, tname, c)) for tname in TYPES for asy in (False, True)
            for c in chunks([n for n in dir(pytype(tname)) if not n.startswith("_")], 4)]
    ctx.pmap(dispatch, hist)
    fnames = sorted(make_env(False).filters)
    allshards = [("method", sh) for sh in shards]
    allshards += [("filter", (asy, esc, c)) for asy in (False, True) for esc in (False, True) for c in chunks(fnames, 2)]
    for rid, (expr, T, tname) in TYPE_RECEIVERS.items():
        tnames = dir(pytype(tname))
        public = [n for n in tnames if not n.startswith("_")]
        dunder = [n for n in tnames if n.startswith("_")]
        for asy in (False, True):
            allshards += [("type", (asy, rid, c)) for c in chunks(public, 6)]
            if not ctx.quick or rid in ("dict-global", "list", "set", "deque"):
                allshards += [("type", (asy, rid, c)) for c in chunks(dunder, 12)]
    nprog = len(partc_programs())
    allshards += [("partc", (asy, esc, lo, lo + 40)) for asy in (False, True) for esc in (False, True)
                  for lo in range(0, nprog, 40)]
    ctx.pmap(dispatch, allshards)
    ctx.cov["bounds"] = {
        "types": TYPES, "names_per_type": nnames, "arg_values": [a for a, _ in ARG_VALUES], "max_args_public": 2 if ctx.quick else 3,
        "max_args_underscore": 1 if ctx.quick else 2, "routes": len(ROUTES), "filters": len(fnames),
        "filter_value_forms": VALUE_FORMS, "filter_dummies": DUMMIES, "modes": ["sync", "async"], "autoescape": [False, True], "filter_container_types": B_TYPES,
        "type_object_receivers": list(TYPE_RECEIVERS), "type_object_routes": len(TYPE_ROUTES),
        "two_environment_history_routes": list(PRIMED_ROUTES), "assignment_programs": nprog, "assignment_container_types": C_TYPES,
        "method_routes_under_autoescape": list(ESC_ROUTES_QUICK) if ctx.quick else "all",
    }
