"""C11 — plain text, comments and raw blocks render verbatim."""
from __future__ import annotations

import itertools
import re

from vf import core, gen_ws as g

META = {
    "level": "exploration",
    "engine": "E1",
    "technique": "bounded-exhaustive enumeration of all short strings over a text / partial-delimiter / line-break "
    "alphabet in all six newline_sequence x keep_trailing_newline configurations against a hand-written line-break "
    "specification (R-text), and of all short comment / raw bodies made of delimiter look-alikes under every "
    "whitespace modifier of the surrounding tags against the reference whitespace model (R-ws)",
    "text": "(a) every string of <= 5 symbols (thorough 6) over {a, space, {, }, %, #, -, \\n, \\r, \\r\\n} without a "
    "delimiter start sequence is rendered by a fresh Environment in each of the 6 configurations and must equal "
    "R-text(source); one symbol longer is checked the same way at the parser's output (the TemplateData the "
    "compiler would emit); the same strings including {{ {% {# are rendered under ASP-style delimiters where '{' "
    "is plain text, and strings that do not contain the prefix under line-statement / line-comment prefixes made of "
    "regular-expression metacharacters. (d) every string of <= 3 symbols with a line break: an environment renders it, "
    "has newline_sequence or keep_trailing_newline reassigned, renders again, then a fresh environment with the "
    "original options renders - each as R-text says for its current options. (b) every sequence of <= 4 (thorough 5) fragments over {{ }} {% %} {# #} a space \\n raw endraw "
    "- + that does not contain the terminator is used as a comment body and as a raw body between fixed context "
    "text, with the -/+ modifiers of the surrounding tags and trim/lstrip settings: a comment contributes nothing, "
    "a raw body is output verbatim up to the documented effect of its own tags' modifiers. (c) every string of <= 3 "
    "(thorough 4) symbols over {a < > & ' \" space \\n} as template text and as raw body, next to a {{ x }} output, at "
    "top level and inside {% autoescape true|false|flag %} (flag True/False), in environments with autoescape off and "
    "on: the text/raw body is verbatim in every mode, only the value of x is escaped where the region is on; texts of "
    "<= 2 symbols are additionally rendered with Environment(finalize=...) as a plain, @pass_environment, @pass_context "
    "and @pass_eval_context callable that rewrites every value: only the value of x is finalized.",
    "note": "Bounded lengths; at the longest length only the parse result is compared in all six configurations "
    "(thorough additionally renders that length under newline_sequence='\\r\\n'); for the longest bodies only a "
    "sub-grid of modifiers/settings is used (see bounds). 'Terminator' is decided by an independent regular "
    "expression written from the documented tag syntax. R-ws rules K1-K4 are calibrated (see C12).",
    "design_ref": "DESIGN.md §4 C11, §3 R-text/R-ws",
}

SYMS = ("a", " ", "{", "}", "%", "#", "-", "\n", "\r", "\r\n")
CONFIGS = [(ns, k) for ns in ("\n", "\r\n", "\r") for k in (False, True)]
STARTS = ("{{", "{%", "{#")


def r_text(src, newline_sequence, keep_trailing_newline):
    """R-text: every line break (\\r\\n, \\r, \\n) becomes newline_sequence; at most one
    trailing line break is removed, none when keep_trailing_newline."""
    parts = []  # alternating text / break markers
    i = 0
    n = len(src)
    cur = []
    breaks = 0
    while i < n:
        ch = src[i]
        if ch == "\r":
            parts.append("".join(cur))
            cur = []
            breaks += 1
            i += 2 if i + 1 < n and src[i + 1] == "\n" else 1
        elif ch == "\n":
            parts.append("".join(cur))
            cur = []
            breaks += 1
            i += 1
        else:
            cur.append(ch)
            i += 1
    parts.append("".join(cur))
    # parts = lines; len(parts) == breaks + 1
    if not keep_trailing_newline and breaks and parts[-1] == "":
        parts.pop()
    return newline_sequence.join(parts)


def strings(prefix, length, allow_starts=False):
    """all strings made of exactly `length` symbols starting with the symbol tuple
    `prefix`; the symbol pair (\\r)(\\n) is skipped because the same string is
    produced by the single symbol (\\r\\n)."""
    rest = length - len(prefix)
    if rest < 0:
        return
    for tail in itertools.product(SYMS, repeat=rest):
        seq = prefix + tail
        ok = True
        for x, y in zip(seq, seq[1:]):
            if x == "\r" and y == "\n":
                ok = False
                break
        if not ok:
            continue
        s = "".join(seq)
        if not allow_starts and ("{{" in s or "{%" in s or "{#" in s):
            continue
        yield s


# line prefixes made of regular-expression metacharacters; a text that does not contain the literal prefix has no
# line statement / line comment in it and must render as plain text
PREFIXES = [("..", None), ("%+", None), (None, "#+"), ("[%]", "[#]"), ("a?", "-*")]


def render_plain(src, ns, ktn, extra=None):
    from jinja2 import Environment

    return Environment(newline_sequence=ns, keep_trailing_newline=ktn, **(extra or {})).from_string(src).render()


def parse_plain(src, ns, ktn):
    from jinja2 import Environment, nodes

    tree = Environment(newline_sequence=ns, keep_trailing_newline=ktn).parse(src)
    out = []
    for node in tree.body:
        if type(node) is not nodes.Output:
            return ("node", type(node).__name__)
        for child in node.nodes:
            if type(child) is not nodes.TemplateData:
                return ("node", type(child).__name__)
            out.append(child.data)
    return "".join(out)


def cfg_label(ns, ktn):
    return f"nl={ns!r},keep={int(ktn)}"


def text_shard(arg) -> core.Part:
    mode, prefix, lengths, configs = arg
    p = core.Part()
    extra = g.env_kwargs(g.DELIMS["asp"]) if mode == "asp" else None
    if mode.startswith("prefix"):
        lsp, lcp = PREFIXES[int(mode[6:])]
        extra = {"line_statement_prefix": lsp, "line_comment_prefix": lcp}
    nstr = 0
    for length in lengths:
        for s in strings(tuple(prefix), length, allow_starts=(mode == "asp")):
            if mode.startswith("prefix") and any(x is not None and x in s for x in PREFIXES[int(mode[6:])]):
                continue  # contains the literal prefix: may legitimately be a line statement / comment
            nstr += 1
            for ns, ktn in configs:
                p.evals += 1
                exp = r_text(s, ns, ktn)
                try:
                    if mode == "parse":
                        got = parse_plain(s, ns, ktn)
                    else:
                        got = render_plain(s, ns, ktn, extra)
                except Exception as e:  # noqa: BLE001
                    got = ("exc", type(e).__name__, str(e))
                if exp != s or mode.startswith("prefix"):
                    # non-trivial: the documented rules change the text; distinct = the change pattern
                    p.sig((mode, ns, ktn, _shape(s)))
                if got != exp:
                    kind = "raises" if isinstance(got, tuple) else "text"
                    p.violation(f"C11/{kind}/{mode}/{cfg_label(ns, ktn)}", {
                        "msg": f"source {s!r} newline_sequence={ns!r} keep_trailing_newline={ktn} ({mode}): "
                               f"got {got!r}, expected {exp!r}",
                        "source": s, "got": repr(got), "expected": exp, "size": len(s),
                        "script": "import jinja2\n"
                                  f"env = jinja2.Environment(newline_sequence={ns!r}, keep_trailing_newline={ktn}, **{extra or {}!r})\n"
                                  f"print(repr(env.from_string({s!r}).render()))\n"
                                  f"print('expected', {exp!r})\n",
                    })
            p.sample({"part": "a/" + mode, "source": s}, cap=1)
    p.count("strings/" + mode, nstr)
    return p


def _shape(s):
    """line-break skeleton of a string: text runs collapsed to 't'."""
    out = []
    i = 0
    while i < len(s):
        if s.startswith("\r\n", i):
            out.append("R")
            i += 2
        elif s[i] == "\r":
            out.append("r")
            i += 1
        elif s[i] == "\n":
            out.append("n")
            i += 1
        else:
            if not out or out[-1] != "t":
                out.append("t")
            i += 1
    return "".join(out)


# --------------------------------------------------------------------------
# (b) comment and raw bodies

FRAGS = ("{{", "}}", "{%", "%}", "{#", "#}", "a", " ", "\n", "raw", "endraw", "-", "+")
PRE = "a\n  "
POST = "\n b"
# the end of a raw block as the documentation describes the tag: block start, optional
# -/+, the word endraw, optional -/+, block end
RAW_END = re.compile(r"\{%[-+]?\s*endraw\s*[-+]?%\}")

MODS3 = [("", ""), ("-", "-"), ("+", "+")]
RAW_INNER = [(or_, cl) for or_ in ("", "-") for cl in ("", "-", "+")]
SET2 = [(False, False), (True, True)]


def comment_ok(l, body, r):
    if "#}" in body:
        return False
    if l == "" and (body + r)[:1] in ("-", "+"):
        return False  # would read as a left modifier: the same source is enumerated with that modifier
    if r == "" and body[-1:] in ("-", "+"):
        return False
    if (body + r + "#}").find("#}") != len(body) + len(r):
        return False
    return True


def raw_ok(tag):
    pieces = g.tag_source(tag)
    body, closing = pieces[1][0], pieces[2][0]
    m = RAW_END.search(body + closing)
    return m is not None and m.start() == len(body)


def body_grid(kind, nfr, full_upto):
    """modifier x setting grid for a body of nfr fragments."""
    if kind == "comment":
        if nfr <= full_upto:
            return [(m, s) for m in g.MODS_BLOCK for s in g.SETTINGS]
        return [(m, s) for m in MODS3 for s in SET2]
    if nfr <= full_upto:
        outer = [("", ""), ("-", "-")]
        return [((ol, or_, cl, cr), s) for ol, cr in outer for or_, cl in RAW_INNER for s in g.SETTINGS]
    return [(("", or_, cl, ""), s) for or_, cl in RAW_INNER for s in SET2]


def body_shard(arg) -> core.Part:
    prefix, lengths, full_upto = arg
    from jinja2 import Environment

    p = core.Part()
    nbodies = 0
    for nfr in lengths:
        rest = nfr - len(prefix)
        if rest < 0:
            continue
        for tail in itertools.product(FRAGS, repeat=rest):
            body = "".join(tuple(prefix) + tail)
            nbodies += 1
            for kind in ("comment", "raw"):
                for mods, (trim, lstrip) in body_grid(kind, nfr, full_upto):
                    if kind == "comment":
                        if not comment_ok(mods[0], body, mods[1]):
                            p.count("excluded/comment")
                            continue
                        tag = ("comment", mods[0], mods[1], body)
                    else:
                        tag = ("raw", mods[0], mods[1], body, mods[2], mods[3])
                        if not raw_ok(tag):
                            p.count("excluded/raw")
                            continue
                    sk = (PRE, tag, POST)
                    src = g.to_source(sk)
                    exp = g.expected(sk, trim, lstrip)
                    p.evals += 1
                    try:
                        got = Environment(trim_blocks=trim, lstrip_blocks=lstrip).from_string(src).render()
                    except Exception as e:  # noqa: BLE001
                        got = ("exc", type(e).__name__, str(e))
                    if any(f in body for f in ("{{", "{%", "{#", "}}", "%}", "#}", "raw")):
                        p.sig((kind, mods, trim, lstrip, _bshape(body)))
                    if got != exp:
                        k2 = "raises" if isinstance(got, tuple) else "output"
                        p.violation(f"C11/{kind}-body/{k2}/{'|'.join(mods)}/trim={int(trim)},lstrip={int(lstrip)}", {
                            "msg": f"source {src!r} trim_blocks={trim} lstrip_blocks={lstrip}: got {got!r}, expected {exp!r}",
                            "source": src, "body": body, "got": repr(got), "expected": exp, "size": len(src),
                            "script": "import jinja2\n"
                                      f"env = jinja2.Environment(trim_blocks={trim}, lstrip_blocks={lstrip})\n"
                                      f"print(repr(env.from_string({src!r}).render()))\n"
                                      f"print('expected', {exp!r})\n",
                        })
            if "\n" in body and nfr <= full_upto:
                _body_newline_seq(p, body)
            p.sample({"part": "b", "body": body, "comment_source": g.to_source((PRE, ("comment", "", "", body), POST)),
                      "raw_source": g.to_source((PRE, ("raw", "", "", body, "", ""), POST))}, cap=1)
    p.count("bodies", nbodies)
    return p


NLSEQ_VARIANTS = [("\r\n", "\n"), ("\r", "\n"), ("\r\n", "\r\n"), ("\r", "\r")]  # (newline_sequence, source form)


def _body_newline_seq(p, body):
    """bodies containing a line break under the non-default newline sequences: every line break of the output,
    inside a raw body as well as around it, is the configured sequence."""
    from jinja2 import Environment

    cases = [("comment", m) for m in (("", ""), ("-", "-"))] + [("raw", ("", or_, cl, "")) for or_, cl in RAW_INNER]
    for kind, mods in cases:
        if kind == "comment":
            if not comment_ok(mods[0], body, mods[1]):
                continue
            tag = ("comment", mods[0], mods[1], body)
        else:
            tag = ("raw", mods[0], mods[1], body, mods[2], mods[3])
            if not raw_ok(tag):
                continue
        sk = (PRE, tag, POST)
        src_n = g.to_source(sk)
        for trim, lstrip in SET2:
            exp_n = g.expected(sk, trim, lstrip)
            for ns, form in NLSEQ_VARIANTS:
                src = src_n.replace("\n", form)
                exp = exp_n.replace("\n", ns)
                p.evals += 1
                try:
                    got = Environment(trim_blocks=trim, lstrip_blocks=lstrip, newline_sequence=ns).from_string(src).render()
                except Exception as e:  # noqa: BLE001
                    got = ("exc", type(e).__name__, str(e))
                p.sig((kind, mods, trim, lstrip, ns, form, _bshape(body)))
                if got != exp:
                    p.violation(f"C11/{kind}-body/newline_sequence={ns!r}/{'|'.join(mods)}/trim={int(trim)},lstrip={int(lstrip)}", {
                        "msg": f"source {src!r} newline_sequence={ns!r} trim_blocks={trim} lstrip_blocks={lstrip}: "
                               f"got {got!r}, expected {exp!r}",
                        "source": src, "body": body, "got": repr(got), "expected": exp, "size": len(src),
                        "script": "import jinja2\n"
                                  f"env = jinja2.Environment(trim_blocks={trim}, lstrip_blocks={lstrip}, newline_sequence={ns!r})\n"
                                  f"print(repr(env.from_string({src!r}).render()))\n"
                                  f"print('expected', {exp!r})\n",
                    })


def _bshape(body):
    """which look-alikes a body contains (sorted), plus whether it starts/ends with whitespace."""
    have = [f for f in ("{{", "}}", "{%", "%}", "{#", "#}", "endraw", "\n") if f in body]
    return ",".join(have) + ("^" if body[:1].isspace() else "") + ("$" if body[-1:].isspace() else "")


# --------------------------------------------------------------------------
# (c) template text and raw bodies under autoescaping

ESC_SYMS = ("a", "<", ">", "&", "'", '"', " ", "\n")
X_VALUE = "<x>"
X_ESCAPED = "&lt;x&gt;"  # documented HTML escaping of the *value*; template text is never escaped
# (label, opening, closing, render kwargs, region autoescape state: None = the environment's setting)
ESC_MODES = [
    ("top", "", "", {}, None),
    ("const-true", "{% autoescape true %}", "{% endautoescape %}", {}, True),
    ("const-false", "{% autoescape false %}", "{% endautoescape %}", {}, False),
    ("flag-true", "{% autoescape flag %}", "{% endautoescape %}", {"flag": True}, True),
    ("flag-false", "{% autoescape flag %}", "{% endautoescape %}", {"flag": False}, False),
]


def _wrap(v):
    return "[%s]" % (v,)


def finalizers():
    """Environment(finalize=...) variants; each rewrites every value it is given.  The documentation: finalize
    processes 'the result of a variable expression before it is output' - template text is not one."""
    import jinja2

    @jinja2.pass_environment
    def fin_env(env, v):
        return _wrap(v)

    @jinja2.pass_context
    def fin_ctx(ctx, v):
        return _wrap(v)

    @jinja2.pass_eval_context
    def fin_eval(ectx, v):
        return _wrap(v)

    return [("none", None), ("plain", _wrap), ("pass_environment", fin_env), ("pass_context", fin_ctx),
            ("pass_eval_context", fin_eval)]


def _finalized_text_prediction(text, on):
    """What comes out when the template text itself is (wrongly) handed to finalize and, where the region is on,
    escaped as an ordinary value.  Only used to give that one behaviour a single signature, never as the oracle."""
    import markupsafe

    e = (lambda v: str(markupsafe.escape(v))) if on else (lambda v: v)
    return e(_wrap(text)) + e(_wrap(X_VALUE)) + e(_wrap(text)) + "."


FIN_MAX_SYMBOLS = 2  # finalize variants are combined with texts of at most this many symbols


def esc_shard(arg) -> core.Part:
    from jinja2 import Environment

    first, lengths = arg
    p = core.Part()
    fins = finalizers()
    for n in lengths:
        rest = n - len(first)
        if rest < 0:
            continue
        for tail in itertools.product(ESC_SYMS, repeat=rest):
            text = "".join(tuple(first) + tail)
            for place in ("text", "raw"):
                piece = text if place == "text" else "{% raw %}" + text + "{% endraw %}"
                for label, opening, closing, kwargs, region in ESC_MODES:
                    src = opening + piece + "{{ x }}" + piece + closing + "."
                    for env_auto in (False, True):
                        on = env_auto if region is None else region
                        for fname, fin in (fins if n <= FIN_MAX_SYMBOLS else fins[:1]):
                            xval = (X_ESCAPED if on else X_VALUE)
                            exp = text + (xval if fin is None else _wrap(xval)) + text + "."
                            p.evals += 1
                            try:
                                got = Environment(autoescape=env_auto, finalize=fin).from_string(src).render(x=X_VALUE, **kwargs)
                            except Exception as e:  # noqa: BLE001
                                got = ("exc", type(e).__name__, str(e))
                            if fin is not None or any(c in text for c in "<>&'\""):
                                p.sig(("esc", place, label, env_auto, fname, "".join(sorted(set(text) & set("<>&'\"")))))
                            if got != exp:
                                k2 = "raises" if isinstance(got, tuple) else "output"
                                fam = "autoescape" if fin is None else "finalize=" + fname
                                sig = f"C11/{fam}-{place}/{k2}/{label}/env={int(env_auto)}"
                                if fin is not None and label.startswith("flag-") and got == _finalized_text_prediction(text, on):
                                    # one narrow signature for: template data inside {% autoescape <expr> %} goes through finalize
                                    sig = "C11/volatile-autoescape/finalize-applied-to-template-data"
                                p.violation(sig, {
                                    "msg": f"source {src!r} Environment(autoescape={env_auto}, finalize={fname}) "
                                           f"render(x={X_VALUE!r}, **{kwargs!r}): got {got!r}, expected {exp!r} "
                                           "(template text / raw body verbatim; finalize = '[%s]' % value)",
                                    "source": src, "got": repr(got), "expected": exp, "size": len(src),
                                    "script": "import jinja2\nfrom checks import c11\n"
                                              f"fin = dict(c11.finalizers())[{fname!r}]\n"
                                              f"env = jinja2.Environment(autoescape={env_auto}, finalize=fin)\n"
                                              f"print(repr(env.from_string({src!r}).render(x={X_VALUE!r}, **{kwargs!r})))\n"
                                              f"print('expected', {exp!r})\n",
                                })
            p.sample({"part": "c", "text": text,
                      "source": "{% autoescape flag %}" + text + "{{ x }}" + text + "{% endautoescape %}."}, cap=1)
    return p


# --------------------------------------------------------------------------
# (d) an environment is reconfigured after use; a fresh environment with the original options is unaffected


def reconf_shard(arg) -> core.Part:
    import jinja2

    first, lengths = arg
    p = core.Part()
    for n in lengths:
        rest = n - len(first)
        if rest < 0:
            continue
        for s in strings(tuple(first), n):
            if not ("\n" in s or "\r" in s):
                continue
            for ns, ktn in CONFIGS:
                changes = [("newline_sequence", x) for x in ("\n", "\r\n", "\r") if x != ns] + [("keep_trailing_newline", not ktn)]
                for attr, val in changes:
                    p.evals += 1
                    jinja2.clear_caches()
                    obs = []
                    try:
                        a = jinja2.Environment(newline_sequence=ns, keep_trailing_newline=ktn)
                        obs.append(("A before", a.from_string(s).render(), r_text(s, ns, ktn)))
                        setattr(a, attr, val)
                        ns2, ktn2 = (val, ktn) if attr == "newline_sequence" else (ns, val)
                        obs.append(("A after", a.from_string(s).render(), r_text(s, ns2, ktn2)))
                        b = jinja2.Environment(newline_sequence=ns, keep_trailing_newline=ktn)
                        obs.append(("fresh B", b.from_string(s).render(), r_text(s, ns, ktn)))
                    except Exception as e:  # noqa: BLE001
                        obs.append(("raises", (type(e).__name__, str(e)), None))
                    p.sig(("reconf", ns, ktn, attr, val, _shape(s)))
                    for who, got, exp in obs:
                        if got != exp:
                            p.violation(f"C11/reconfigured/{who.replace(' ', '-')}/{attr}", {
                                "msg": f"A = Environment(newline_sequence={ns!r}, keep_trailing_newline={ktn}) renders {s!r}; "
                                       f"then A.{attr} = {val!r}; A renders again; fresh B with A's original options renders: "
                                       f"{who} gave {got!r}, expected {exp!r}",
                                "source": s, "size": len(s),
                                "script": "import jinja2\n"
                                          f"s = {s!r}\n"
                                          f"a = jinja2.Environment(newline_sequence={ns!r}, keep_trailing_newline={ktn})\n"
                                          "print('A before', repr(a.from_string(s).render()))\n"
                                          f"a.{attr} = {val!r}\n"
                                          "print('A after ', repr(a.from_string(s).render()))\n"
                                          f"b = jinja2.Environment(newline_sequence={ns!r}, keep_trailing_newline={ktn})\n"
                                          f"print('fresh B ', repr(b.from_string(s).render()), 'expected', {r_text(s, ns, ktn)!r})\n",
                            })
                            break
            p.sample({"part": "d", "source": s}, cap=1)
    return p


def run(ctx: core.Ctx):
    core.import_all_jinja()
    ctx.rule = ("(a) all strings of <= k symbols without {{ {% {# (strings are unique per symbol sequence: the pair \\r,\\n "
                "is represented only by the symbol \\r\\n) x 6 configurations; non-trivial = R-text changes the string; "
                "distinct = (mode, configuration, line-break skeleton). (b) all fragment sequences x modifier/setting "
                "grid minus those containing the terminator or printing ambiguously; non-trivial = body contains a "
                "delimiter look-alike or 'raw'; distinct = (kind, modifiers, setting, set of look-alikes + edge whitespace). "
                "(c) all strings over the HTML-special alphabet as text and as raw body x 5 autoescape region modes x "
                "environment autoescape off/on; non-trivial = contains an HTML-special character; distinct = "
                "(placement, mode, environment, set of special characters)")
    ctx.assumptions += [
        "R-text is written from the Environment docstring (newline_sequence, keep_trailing_newline) and the lexer's "
        "documented line-break set \\r\\n, \\r, \\n",
        "R-ws rules K1-K4 calibrated as in C12 (K2, K3 matter for raw bodies)",
        "context text around comment/raw bodies is fixed: 'a\\n  ' before, '\\n b' after",
        "at the longest string length the comparison is made on Environment.parse output (TemplateData), not on render()",
        "(c) the escaped form of the probe value '<x>' is '&lt;x&gt;' (documented HTML escaping)",
    ]
    k_render = 5 if ctx.quick else 6
    k_parse = k_render + 1
    k_body = 4 if ctx.quick else 5
    full_upto = k_body - 1
    pref2 = [(x, y) for x in SYMS for y in SYMS]
    shards = [("render", (), [0, 1], CONFIGS)]
    shards += [("render", pr, list(range(2, k_render + 1)), CONFIGS) for pr in pref2]
    shards += [("asp", (), [0, 1], CONFIGS)] + [("asp", pr, [2, 3, 4], CONFIGS) for pr in pref2]
    pref3 = [(x, y, z) for x in SYMS for y in SYMS for z in SYMS]
    shards += [("parse", pr, [k_parse], CONFIGS) for pr in pref3]
    if not ctx.quick:
        shards += [("render", pr, [k_parse], [("\r\n", False)]) for pr in pref3]
    for i in range(len(PREFIXES)):
        shards += [("prefix%d" % i, (), [0, 1], CONFIGS[:3:2])] + [("prefix%d" % i, (x,), [2, 3, 4], CONFIGS[:3:2]) for x in SYMS]
    ctx.pmap(text_shard, shards)
    rshards = [((), [1])] + [((x,), [2, 3]) for x in SYMS]
    ctx.pmap(reconf_shard, rshards)
    bshards = [((), [0, 1], full_upto)] + [((x, y), list(range(2, k_body + 1)), full_upto) for x in FRAGS for y in FRAGS]
    ctx.pmap(body_shard, bshards)
    k_esc = 3 if ctx.quick else 4
    eshards = [((), [0])] + [((x,), list(range(1, k_esc + 1))) for x in ESC_SYMS]
    ctx.pmap(esc_shard, eshards)
    ctx.viol.sort(key=lambda v: (v[0], v[1].get("size", 0), v[1].get("msg", "")))  # smallest input first per signature
    ctx.cov["bounds"] = {
        "a_render_all_6_configs_max_symbols": k_render,
        "a_parse_level_all_6_configs_symbols": k_parse,
        "a_render_crlf_config_symbols": None if ctx.quick else k_parse,
        "a_asp_delimiters_max_symbols": 4,
        "a_alphabet": [repr(s) for s in SYMS],
        "a_metachar_line_prefixes": [list(x) for x in PREFIXES], "a_metachar_prefix_max_symbols": 4,
        "d_reconfigure_after_use_max_symbols": 3,
        "b_fragments": list(FRAGS),
        "b_max_fragments": k_body,
        "b_full_modifier_grid_upto_fragments": full_upto,
        "b_grid_full": "comment: 9 modifier pairs x 4 trim/lstrip settings; raw: 6 inner x 2 outer modifier combinations x 4 settings",
        "c_alphabet": [repr(x) for x in ESC_SYMS], "c_max_symbols": k_esc,
        "c_finalize_variants": ["none", "plain", "pass_environment", "pass_context", "pass_eval_context"],
        "c_finalize_max_symbols": FIN_MAX_SYMBOLS,
        "c_modes": [m[0] for m in ESC_MODES], "c_placements": ["text", "raw"], "c_env_autoescape": [False, True],
        "b_newline_sequence": "bodies containing a line break, up to the full-grid length: newline_sequence \\r\\n and \\r x "
                              "source forms x 2 comment / 6 raw modifier combinations x 2 settings",
        "b_grid_longest": "comment: 3 modifier pairs x 2 settings; raw: 6 inner modifier combinations x 2 settings",
    }
    ctx.cov["shards_completed"] = len(shards) + len(bshards) + len(eshards) + len(rshards)
