"""C23 — string and number filters satisfy their documented contracts."""
from __future__ import annotations

import math
import re

from vf import core, filt
from vf.filt import Raises

META = {
    "level": "exploration",
    "engine": "E1",
    "technique": "bounded-exhaustive enumeration of all short strings over a sharp fragment alphabet x all argument tuples "
    "of small ranges against executable specifications and laws written from the filter docstrings (R-filt)",
    "text": "Every string of <= 4 (thorough <= 6) fragments over {a, B, space, -, LF, CRLF, e-acute, <, &, 9} (plus longer "
    "strings over 2-3 symbol sub-alphabets where the contract is about lengths) is pushed through truncate (length 0..8 x "
    "killwords x end x leeway 0..2), wordwrap (width 1..5 x break_long_words x break_on_hyphens x wrapstring), indent "
    "(width 0/2/'> ' x first x blank, on str and Markup), center, trim, title, capitalize, upper, lower, replace, "
    "wordcount, urlencode, striptags, format; filesizeformat and round over boundary-value grids; int and float over "
    "every string of <= 4 characters over digits and '. e E + - _ x X o O b B space' plus inf/nan/huge/bool/None/"
    "containers/objects and bases 2, 8, 10, 16.  Each application runs through template source and "
    "Environment.call_filter; both must equal the specification (exact where the docstring determines the value, "
    "law-based - length bound, prefix cut, text preservation, tiling of the input by output lines - where it does not).",
    "note": "Bounded: fragment count and argument ranges in coverage.bounds; sync environment only (these filters have no "
    "async variant); autoescape off (Markup interplay is C24); one Environment per argument tuple reused across inputs; "
    "rules frozen from the tree where the docstring is silent are tagged CALIBRATED in the source and listed in "
    "assumptions.",
    "design_ref": "DESIGN.md §4 C22 / C23 / C24",
}

SIGMA = ("a", "B", " ", "-", "\n", "\r\n", "é", "<", "&", "9")


# =====================================================================================
# R-filt: specifications
# =====================================================================================

def split_lines(s):
    """lines of a text; LF and CRLF (and the other str.splitlines boundaries that
    the alphabets never contain) end a line; a final line break leaves an empty last line."""
    return re.split(r"\r\n|\n|\r", s)


def paragraphs(s):
    out = split_lines(s)
    if out[-1] == "":
        out.pop()  # CALIBRATED: a trailing line break does not open a further (empty) paragraph; "" has none
    return out


def spec_truncate(s, length=255, killwords=False, end="...", leeway=5):
    # default leeway 5: "The default leeway on newer Jinja versions is 5"
    if len(s) <= length + leeway:
        return s  # "Strings that only exceed the length by the tolerance margin ... will not be truncated."
    cut = s[:length - len(end)]
    if killwords:
        return cut + end  # "cut the text at length"
    # "Otherwise it will discard the last word."
    # CALIBRATED: words are separated by U+0020 only; a cut without any space is kept whole.
    i = cut.rfind(" ")
    if i >= 0:
        cut = cut[:i]
    return cut + end


def law_truncate(s, out, length=255, killwords=False, end="...", leeway=5):
    """documented laws only (no calibration); returns a law name or None."""
    if not isinstance(out, str):
        return "not-a-string"
    if len(s) <= length + leeway:
        return None if out == s else "changed-short-string"
    if len(out) > length:
        return "exceeds-length"
    if not out.endswith(end):
        return "no-ellipsis"
    body = out[:len(out) - len(end)]
    if not s.startswith(body):
        return "not-a-prefix"
    if killwords and len(body) != length - len(end):
        return "killwords-cut-not-at-length"
    return None


def law_wordwrap(s, out, width, blw, boh, sep):
    """`out` was produced with wrapstring `sep` (a string that does not occur in s)."""
    if not isinstance(out, str):
        return "not-a-string"
    paras = paragraphs(s)
    lines = out.split(sep)
    if not paras:
        return None if out == "" else "text-from-nothing"
    k = 0
    for p in paras:
        want = "".join(p.split())
        if want == "":
            # a paragraph without text yields one (empty) line
            if k >= len(lines):
                return "paragraph-lost"
            if lines[k].strip() != "":
                return "paragraph-mixed"
            if lines[k] != "":
                return "blank-paragraph-not-empty"
            k += 1
            continue
        mine, have = [], ""
        while k < len(lines) and len(have) < len(want):
            mine.append(lines[k])
            have += "".join(lines[k].split())
            k += 1
        if have != want:
            return "text-not-preserved"
        spans = _tile(p, mine, 0, 0)
        if spans is None:
            return "lines-do-not-tile-paragraph"
        for ln in mine:
            if ln == "":
                return "empty-line"
            if blw and len(ln) > width:
                return "line-longer-than-width"
            if not blw and len(ln) > width and len(ln.split()) > 1:
                return "overlong-line-is-not-one-word"
        for (a0, a1), (b0, b1) in zip(spans, spans[1:]):
            if a1 == b0 and not p[a1 - 1].isspace() and not p[b0].isspace():
                # a word was split between p[a1-1] and p[b0]
                l = a1
                while l > 0 and not p[l - 1].isspace():
                    l -= 1
                r = b0
                while r < len(p) and not p[r].isspace():
                    r += 1
                if blw and r - l > width:
                    continue
                if boh and (p[a1 - 1] == "-" or p[b0] == "-"):
                    continue  # "If a word contains hyphens, it may be split across lines."
                return "word-split-without-licence"
    if k != len(lines):
        return "extra-lines"
    return None


def _tile(p, lines, i, cur):
    """positions of `lines` inside p, in order, separated by whitespace only."""
    if i == len(lines):
        return [] if p[cur:].strip() == "" else None
    o = cur
    while True:
        if p.startswith(lines[i], o):
            rest = _tile(p, lines, i + 1, o + len(lines[i]))
            if rest is not None:
                return [(o, o + len(lines[i]))] + rest
        if o < len(p) and p[o].isspace():
            o += 1
        else:
            return None


def spec_indent(s, width=4, first=False, blank=False, markup=False):
    ind = width if isinstance(width, str) else " " * width
    if markup:
        from markupsafe import escape

        ind = str(escape(ind))
    out = []
    for i, line in enumerate(split_lines(s)):
        if i == 0:
            do = first  # CALIBRATED: first=True indents the first line even when it is empty and blank=False
        else:
            do = blank or line != ""  # CALIBRATED: "blank" means empty; whitespace-only lines are indented
        out.append(ind + line if do else line)
    return "\n".join(out)


def law_center(s, out, width=80):
    if not isinstance(out, str):
        return "not-a-string"
    if len(s) >= width:
        return None if out == s else "changed-wide-string"
    if len(out) != width:
        return "wrong-width"
    for l in range(width - len(s) + 1):
        r = width - len(s) - l
        if out == " " * l + s + " " * r and abs(l - r) <= 1:
            return None
    return "not-centered"


def spec_trim(s, chars=None):
    hit = (lambda c: c.isspace()) if chars is None else (lambda c: c in chars)
    i, j = 0, len(s)
    while i < j and hit(s[i]):
        i += 1
    while j > i and hit(s[j - 1]):
        j -= 1
    return s[i:j]


TITLE_DELIMS = set("-({[<")  # CALIBRATED: besides whitespace these characters start a new word


def spec_title(s):
    # "words will start with uppercase letters, all remaining characters are lowercase"
    out, word = [], ""

    def flush():
        if word:
            # uppercase (not titlecase: U+01C6 -> U+01C4, sharp s -> SS, fi ligature -> FI) first character;
            # CALIBRATED: the remainder is lowercased on its own (final-sigma context does not include the first character)
            out.append(word[0].upper() + word[1:].lower())

    for ch in s:
        if ch.isspace() or ch in TITLE_DELIMS:
            flush()
            word = ""
            out.append(ch)
        else:
            word += ch
    flush()
    return "".join(out)


def spec_capitalize(s):
    # "The first character will be uppercase, all others lowercase."
    # CALIBRATED: "uppercase" of the first character is its Unicode titlecase form (differs only for digraphs,
    # sharp s and ligatures: U+01C6 -> U+01C5, sharp s -> Ss, fi -> Fi), and the rest is lowercased in the context of the whole string
    # (word-final capital sigma -> final small sigma), as Python's str.capitalize documents.
    if not s:
        return s
    return s[0].title() + s.lower()[len(s[0].lower()):]


def spec_upper(s):
    return s.upper()


def spec_lower(s):
    return s.lower()


def spec_replace(s, old, new, count=None):
    out, i, n = [], 0, 0
    while i < len(s):
        if (count is None or n < count) and s.startswith(old, i):
            out.append(new)
            i += len(old)
            n += 1
        else:
            out.append(s[i])
            i += 1
    return "".join(out)


def spec_wordcount(s):
    # CALIBRATED: a word is a maximal run of letters, digits and underscores
    n, inword = 0, False
    for ch in s:
        w = ch.isalnum() or ch == "_"
        if w and not inword:
            n += 1
        inword = w
    return n


_UNRESERVED = set("ABCDEFGHIJKLMNOPQRSTUVWXYZabcdefghijklmnopqrstuvwxyz0123456789_.-~")


def _quote(obj, qs):
    s = obj if isinstance(obj, str) else str(obj)
    out = []
    for b in s.encode("utf-8"):
        ch = chr(b)
        if ch in _UNRESERVED or (ch == "/" and not qs):  # 'When given a string, "/" is not quoted.'
            out.append(ch)
        elif ch == " " and qs:
            out.append("+")
        else:
            out.append("%%%02X" % b)
    return "".join(out)


def spec_urlencode(v):
    if isinstance(v, str) or not hasattr(v, "__iter__"):
        return _quote(v, False)
    items = v.items() if isinstance(v, dict) else v
    return "&".join(f"{_quote(k, True)}={_quote(x, True)}" for k, x in items)


_ENT = {"&amp;": "&", "&lt;": "<", "&gt;": ">", "&#39;": "'", "&#34;": '"', "&quot;": '"'}


def spec_striptags(s):
    # "Strip SGML/XML tags and replace adjacent whitespace by one space."
    # CALIBRATED: comments <!-- ... --> go first; an unterminated '<' or '<!--' is left alone; leading/trailing
    # whitespace is dropped; finally entities are unescaped (so &lt;b&gt; survives as the text <b>).
    while True:
        a = s.find("<!--")
        if a < 0:
            break
        b = s.find("-->", a)
        if b < 0:
            break
        s = s[:a] + s[b + 3:]
    while True:
        a = s.find("<")
        if a < 0:
            break
        b = s.find(">", a)
        if b < 0:
            break
        s = s[:a] + s[b + 1:]
    s = " ".join(s.split())
    return re.sub(r"&(?:amp|lt|gt|quot|#39|#34);", lambda m: _ENT[m.group()], s)


def spec_format(fmt, *args, **kwargs):
    if args and kwargs:
        return Raises("FilterArgumentError")
    try:
        return fmt % (kwargs or args)  # "like ``string % values``" - Python's operator is the definition
    except Exception as e:  # noqa: BLE001
        return Raises(type(e).__name__)


DEC = ("kB", "MB", "GB", "TB", "PB", "EB", "ZB", "YB")
BIN = ("KiB", "MiB", "GiB", "TiB", "PiB", "EiB", "ZiB", "YiB")


def spec_filesizeformat(value, binary=False):
    # CALIBRATED (docstring only gives "13 kB, 4.1 MB, 102 Bytes"): "1 Byte" for exactly 1; below the base the
    # integer part + " Bytes"; otherwise one decimal in the largest unit whose next unit exceeds the value
    # (so 999 999 is "1000.0 kB"); beyond the table everything is YB / YiB.
    v = float(value)
    base = 1024 if binary else 1000
    names = BIN if binary else DEC
    if v == 1:
        return "1 Byte"
    if v < base:
        return "%d Bytes" % int(v)
    i = 0
    while i < len(names) - 1 and v >= base ** (i + 2):
        i += 1
    return "%.1f %s" % (base * v / base ** (i + 2), names[i])


def spec_round(value, precision=0, method="common"):
    if method not in ("common", "ceil", "floor"):
        return Raises("FilterArgumentError")
    if method == "common":
        # "Note that even if rounded to 0 precision, a float is returned."
        return float(round(value, precision))  # CALIBRATED: ties as Python's round()
    f = math.ceil if method == "ceil" else math.floor
    return f(value * (10 ** precision)) / (10 ** precision)


def law_round(value, out, precision=0, method="common"):
    if not isinstance(out, float):
        return "not-a-float"
    step = 10.0 ** -precision
    eps = 1e-9 * max(1.0, abs(value))
    if method == "ceil" and out < value - eps:
        return "ceil-rounded-down"
    if method == "floor" and out > value + eps:
        return "floor-rounded-up"
    if abs(out - value) > step + eps:
        return "moved-more-than-one-step"
    return None


class Obj:
    def __repr__(self):
        return "Obj()"


def _finite(f):
    return f == f and f not in (float("inf"), float("-inf"))


def spec_int(v, default=0, base=10):
    """the Python value, or the default for anything that cannot be converted."""
    if isinstance(v, str):
        try:
            return int(v, base)  # "handles input with prefixes such as 0b, 0o and 0x"
        except ValueError:
            pass
        try:
            f = float(v)  # "The base is ignored for decimal numbers": "42.23"|int is 42
        except ValueError:
            return default
        return int(f) if _finite(f) else default
    if isinstance(v, (bool, int)):
        return int(v)
    if isinstance(v, float):
        return int(v) if _finite(v) else default
    return default


def spec_float(v, default=0.0):
    if isinstance(v, (str, bool, int, float)):
        try:
            return float(v)
        except (ValueError, OverflowError):
            return default
    return default


# =====================================================================================
# configurations
# =====================================================================================

def cfg_truncate():
    out = []
    for length in range(0, 9):
        for kill in (False, True):
            for end in ("", "..", "..."):
                if len(end) > length:
                    continue  # rejected by an assertion; not part of the documented contract
                for leeway in (0, 1, 2):
                    out.append(((length, kill, end, leeway), {}))
    out += [((3,), {}), ((4, True), {}), ((), {"length": 5, "end": "!"}), ((6,), {"leeway": 1}), ((5, False, "..."), {})]
    return out


def cfg_wordwrap():
    out = []
    for w in (1, 2, 3, 4, 5):
        for blw in (True, False):
            for boh in (True, False):
                out.append((w, blw, boh))
    return out


def cfg_indent():
    out = []
    for w in (0, 2, "> "):
        for first in (False, True):
            for blank in (False, True):
                out.append(((w, first, blank), {}))
    out += [((), {}), ((), {"width": 2}), ((1,), {"blank": True}), ((), {"first": True, "width": "<"})]
    return out


def cfg_replace():
    out = []
    for old in ("a", "aa", " ", "\r\n", "<"):
        for new in ("", "x", "aa"):
            for count in (None, 0, 1, 2):
                out.append(((old, new) if count is None else (old, new, count), {}))
    out.append((("a", "B"), {"count": 1}))
    return out


SIMPLE = [
    ("upper", (), {}, spec_upper), ("lower", (), {}, spec_lower), ("capitalize", (), {}, spec_capitalize),
    ("title", (), {}, spec_title), ("wordcount", (), {}, spec_wordcount), ("urlencode", (), {}, spec_urlencode),
    ("trim", (), {}, spec_trim), ("trim", ("a",), {}, spec_trim), ("trim", ("aB",), {}, spec_trim),
    ("trim", (" -",), {}, spec_trim), ("trim", (), {"chars": "\n<"}, spec_trim), ("trim", ("",), {}, spec_trim),
    ("striptags", (), {}, spec_striptags),
]
CENTER = [(), (0,), (1,), (2,), (3,), (4,), (5,), (6,), (7,), (8,)]
# code points whose uppercase / titlecase / lowercase forms are not one-to-one: digraph with a distinct titlecase,
# sharp s, fi ligature, Greek capital sigma (word-final lowercase differs)
CASE_EXTRA = ("\u01c6", "\u00df", "\ufb01", "\u03a3")
CASE_SIGMA = SIGMA + CASE_EXTRA
STRIP_SIGMA = ("a", " ", "<", ">", "&", "&amp;", "&lt;", "\n", "<!--", "-->", "b", "/")
FORMAT_SIGMA = ("%s", "%d", "%%", "a", "%(k)s", "%", "%5s|")
FORMAT_ARGS = [((), {}), (("x",), {}), ((1,), {}), (("x", 2), {}), ((), {"k": "v"}), (("x",), {"k": "v"}),
               ((None,), {}), ((1.5, "y"), {})]
INT_SIGMA_REST = (".", "e", "E", "+", "-", "_", "x", "X", "o", "O", "b", "B", " ")


def number_extras():
    return [float("inf"), float("-inf"), float("nan"), 10 ** 400, -(10 ** 400), True, False, None, [], {}, Obj(), 0, 7,
            -3, 2.9, -2.9, 1e308, "inf", "-inf", "nan", "Infinity", "1e999", "-1e999", "１２", "0x1f", "0b101",
            "0o17", "1_000", " 12 ", "12abc", "1" * 500, "9" * 400 + ".5", (), "4.2e1", ".5", "5.", "0x1.8p1"]


def cfg_numbers():
    out = [("int", (), {}), ("int", (7,), {}), ("int", (), {"default": None})]
    for base in (2, 8, 10, 16):
        out.append(("int", (5, base), {}))
    out += [("int", (), {"base": 16}), ("int", (), {"base": 0}), ("float", (), {}), ("float", (1.5,), {}),
            ("float", (), {"default": "D"})]
    return out


FS_VALUES = None


def fs_values():
    vals = set(range(0, 2101))
    for base in (1000, 1024):
        for k in range(1, 10):
            for d in (-2, -1, 0, 1, 2):
                vals.add(base ** k + d)
            for m in (999.949, 999.95, 999.999, 1.5, 12.34):
                vals.add(int(base ** k * m / 1000) if m > 100 else int(base ** k * m))
    out = sorted(vals)
    out += [1.0, 1.5, 0.5, 999.9, 1023.9, -1, -5, -2000, "1", "1000", "1500.5", True]
    return out


def round_values():
    vals = [i / 4 for i in range(-12, 13)] + [i / 8 for i in (1, 3, 5, 7, 9)] + [0.05, 0.15, 0.25, 0.35, 1.1, 2.675,
            42.55, 123.456, -123.456, 1e-9, 1e15 + 0.5]
    vals += [-3, -1, 0, 1, 2, 5, 15, 25, 42, 149, 150]
    return vals


# =====================================================================================
# shards
# =====================================================================================

def inputs_for(first, maxlen, alphabet=SIGMA):
    """strings whose first fragment is `first` (None: just the empty string)."""
    if first is None:
        yield ""
        return
    for tail in filt.strings(alphabet, maxlen - 1):
        yield first + tail


def _viol(p, sig, src, route, value, got, exp, script_expr=None):
    p.violation(sig, {
        "msg": f"{src} [{route} route] on {value!r}: got {got!r}, expected {exp!r}",
        "source": src, "input": repr(value), "route": route,
        "script": ("import jinja2\nfrom markupsafe import Markup\nenv = jinja2.Environment()\n"
                   f"v = {script_expr or repr(value)}\n"
                   f"print(repr(env.compile_expression({src!r}, undefined_to_none=False)(xs=v)))\n"),
    })


def run_exact(p, name, args, kwargs, spec, inputs, conv=None, spec_kw=None, sigtag=None, law=None, classify=None,
              markup_result=False, alt_spec_kw=None):
    """exact comparison (plus optional law for a finer signature) on both routes."""
    r = filt.Routes(name, args, kwargs, want_async=False)
    for s in inputs:
        v = conv(s) if conv else s
        try:
            e = spec(s, *args, **dict(kwargs, **(spec_kw or {})))
        except Exception as ex:  # noqa: BLE001
            raise core.HarnessError(f"reference model failed: {name} {args} {kwargs} on {s!r}: {ex!r}")
        exp = filt.canon(e)
        if markup_result and isinstance(e, str):
            exp = ("Markup", e)
        alt = None
        if alt_spec_kw is not None:
            alt = ("Markup", spec(s, *args, **dict(kwargs, **alt_spec_kw)))
        for route in ("tpl", "call"):
            raw = []
            got = filt.outcome(lambda: raw.append(r.apply("sync", route, v, {})) or raw[0])
            p.evals += 1
            if got != exp and (alt is None or got != alt):
                kind = None
                if classify:
                    kind = classify(s, raw[0] if raw else None, got, exp)
                if kind is None and law and raw:
                    kind = law(s, raw[0], *args, **kwargs)
                if kind is None:
                    kind = "raises-" + got[1] if isinstance(got, tuple) and got[0] == "raises" else "wrong-result"
                _viol(p, f"C23/{sigtag or name}/{kind}", r.src, route, v, got, exp,
                      script_expr=(f"Markup({s!r})" if conv else None))
        if isinstance(s, str) and len(s) <= 2 or not isinstance(s, str):
            p.sig((name, repr(args), repr(kwargs), repr(exp)))
        if len(p.samples) < 1 and isinstance(s, str) and len(s) >= 3:
            p.sample({"filter": name, "source": r.src, "input": s, "expected": repr(exp)}, cap=1)


def run_law(p, name, args, kwargs, law, inputs, law_args=None):
    """law-based comparison; the two routes must also agree with each other."""
    r = filt.Routes(name, args, kwargs, want_async=False)
    for s in inputs:
        outs = []
        for route in ("tpl", "call"):
            raw = []
            got = filt.outcome(lambda: raw.append(r.apply("sync", route, s, {})) or raw[0])
            p.evals += 1
            outs.append(got)
            bad = None
            if isinstance(got, tuple) and got[0] == "raises":
                bad = "raises-" + got[1]
            else:
                bad = law(s, raw[0], *(law_args if law_args is not None else args))
            if bad:
                _viol(p, f"C23/{name}/{bad}", r.src, route, s, got, "law: " + bad)
        if outs[0] != outs[1]:
            _viol(p, f"C23/{name}/routes-disagree", r.src, "tpl-vs-call", s, outs[0], outs[1])
        if len(s) <= 2:
            p.sig((name, repr(args), repr(outs[0])))
        if len(p.samples) < 1 and len(s) >= 3:
            p.sample({"filter": name, "source": r.src, "input": s, "result": repr(outs[0])}, cap=1)


def truncate_classify(args, kwargs):
    def f(s, raw, got, exp):
        if raw is None:
            return None
        full = spec_args_truncate(args, kwargs)
        bad = law_truncate(s, raw, *full)
        return bad or "wrong-cut"
    return f


def spec_args_truncate(args, kwargs):
    names = ("length", "killwords", "end", "leeway")
    d = {"length": 255, "killwords": False, "end": "...", "leeway": 5}
    d.update(dict(zip(names, args)))
    d.update(kwargs)
    return tuple(d[n] for n in names)


def shard(arg):
    fam, sub, first, maxlen = arg
    core.import_all_jinja()
    p = core.Part()
    if fam == "simple":
        ins = list(inputs_for(first, maxlen))
        for name, args, kwargs, spec in SIMPLE:
            if name == "striptags":
                continue
            run_exact(p, name, args, kwargs, spec, ins)
        for a in CENTER:
            run_law(p, "center", a, {}, law_center, ins)
        p.count("strings_sigma", len(ins))
    elif fam == "case":
        ins = list(inputs_for(first, maxlen, CASE_SIGMA))
        for name, args, kwargs, spec in SIMPLE:
            if name in ("upper", "lower", "capitalize", "title"):
                run_exact(p, name, args, kwargs, spec, ins)
        p.count("strings_case_sigma", len(ins))
    elif fam == "extras":
        from markupsafe import Markup

        vals = [9, None, 1.5, True, -7]
        for name, args, kwargs, spec in SIMPLE:
            if name in ("urlencode", "striptags"):
                continue
            run_exact(p, name, args, kwargs, lambda v, *a, _s=spec, **k: _s(str(v), *a, **k), vals)
        run_exact(p, "urlencode", (), {}, spec_urlencode,
                  [9, None, 1.5, {"a b": "é/", "k": 1}, {}, [("a", None)], [("&", "="), ("x y", "/~")], (("k", "v"),),
                   {"<": ">"}, "/", "a/b c", "~_.-"])
    elif fam == "striptags":
        from markupsafe import Markup

        ins = list(inputs_for(first, maxlen, STRIP_SIGMA))
        run_exact(p, "striptags", (), {}, spec_striptags, ins)
        run_exact(p, "striptags", (), {}, spec_striptags, ins, conv=Markup, sigtag="striptags-markup")
        p.count("strings_striptags", len(ins))
    elif fam == "replace":
        ins = list(inputs_for(first, maxlen))
        for args, kwargs in cfg_replace():
            run_exact(p, "replace", args, kwargs, spec_replace, ins)
    elif fam == "truncate":
        alpha, n, ci, nc = sub
        ins = list(inputs_for(first, n, alpha))
        for args, kwargs in cfg_truncate()[ci::nc]:
            run_exact(p, "truncate", args, kwargs, spec_truncate, ins, classify=truncate_classify(args, kwargs))
        if ci == 0:
            p.count("strings_truncate", len(ins))
    elif fam == "wordwrap":
        alpha, n, ci, nc = sub
        ins = list(inputs_for(first, n, alpha))
        for (w, blw, boh) in cfg_wordwrap()[ci::nc]:
            run_law(p, "wordwrap", (w, blw, "|", boh), {}, law_wordwrap, ins, law_args=(w, blw, boh, "|"))
        # wrapstring defaults to Environment.newline_sequence; keyword spelling
        for (w, blw, boh) in ((2, True, True), (3, False, False))[ci::nc]:
            ref = filt.Routes("wordwrap", (w, blw, "|", boh), want_async=False)
            for nl in ("\n", "\r\n"):
                r = filt.Routes("wordwrap", (w,), {"break_long_words": blw, "break_on_hyphens": boh},
                                env_kwargs={"newline_sequence": nl}, want_async=False)
                for s in ins:
                    a = filt.outcome(lambda: ref.apply("sync", "call", s, {}))
                    for route in ("tpl", "call"):
                        b = filt.outcome(lambda: r.apply("sync", route, s, {}))
                        p.evals += 1
                        exp = ("str", a[1].replace("|", nl)) if a[0] == "str" else a
                        if b != exp:
                            _viol(p, "C23/wordwrap/default-wrapstring-is-not-newline_sequence", r.src, route, s, b, exp)
        if ci == 0:
            p.count("strings_wordwrap", len(ins))
    elif fam == "indent":
        from markupsafe import Markup

        ins = list(inputs_for(first, maxlen))
        for args, kwargs in cfg_indent():
            run_exact(p, "indent", args, kwargs, spec_indent, ins)
            # Markup receiver: whether the indentation string is escaped or trusted is C24's claim, not C23's
            run_exact(p, "indent", args, kwargs, spec_indent, ins, conv=Markup, spec_kw={"markup": True},
                      sigtag="indent-markup", markup_result=True, alt_spec_kw={"markup": False})
    elif fam == "format":
        ins = list(filt.strings(FORMAT_SIGMA, maxlen))
        for args, kwargs in FORMAT_ARGS:
            run_exact(p, "format", args, kwargs, spec_format, ins)
        p.count("strings_format", len(ins))
    elif fam == "filesize":
        vals = fs_values()
        for args, kwargs in [((), {}), ((True,), {}), ((False,), {}), ((), {"binary": True})]:
            run_exact(p, "filesizeformat", args, kwargs, spec_filesizeformat, vals)
        p.count("values_filesizeformat", len(vals))
    elif fam == "round":
        vals = round_values()

        def cls(v, raw, got, exp):
            if isinstance(v, int) and isinstance(raw, int) and not isinstance(raw, bool) and exp == ("float", repr(float(raw))):
                return "int-input-returns-int"
            return None

        for prec in (None, -1, 0, 1, 2):
            for method in (None, "common", "ceil", "floor", "up"):
                args = () if prec is None else (prec,)
                if method is not None:
                    args = (0 if prec is None else prec, method)
                run_exact(p, "round", args, {}, spec_round, vals, classify=cls, law=law_round)
        run_exact(p, "round", (), {"method": "floor", "precision": 1}, spec_round, vals, classify=cls, law=law_round)
        p.count("values_round", len(vals))
    elif fam == "numbers":
        digits, n = sub
        if first is None:
            ins = [""] + number_extras()
        else:
            ins = list(inputs_for(first, n, tuple(digits) + INT_SIGMA_REST))
        for name, args, kwargs in cfg_numbers():
            spec = spec_int if name == "int" else spec_float
            run_exact(p, name, args, kwargs, spec, ins,
                      classify=lambda s, raw, got, exp: ("raises-" + got[1] + "-instead-of-default")
                      if isinstance(got, tuple) and got[0] == "raises" else None)
        p.count("values_int_float", len(ins))
    else:
        raise AssertionError(fam)
    return p


def run(ctx: core.Ctx):
    core.import_all_jinja()
    q = ctx.quick
    n_sigma = 4 if q else 6
    n_heavy = 4 if q else 5          # replace / indent (many argument tuples)
    trunc_sets = [(SIGMA, 3 if q else 5), (("a", " "), 12 if q else 13), (("a", " ", "\n"), 8 if q else 9)]
    wrap_sets = [(SIGMA, 4 if q else 5), (("a", "-", " "), 7 if q else 9), (("a", "-", " ", "\n"), 5 if q else 7)]
    digits = "019" if q else "0123456789"
    n_num = 4
    ctx.rule = ("one case = (filter, argument tuple, input value, template-source/call_filter route); all strings up to the "
                "fragment bound over each alphabet are enumerated; non-trivial = every case (the filters are total); "
                "distinct = distinct (filter, arguments, result) over inputs of <= 2 fragments and all non-string inputs")
    ctx.assumptions += [
        "reference = plain-Python specifications / laws written from the docstrings of jinja2/filters.py",
        "CALIBRATED truncate: words are separated by U+0020 only and a cut without a space is kept whole (length/leeway/prefix laws are documented and checked separately)",
        "CALIBRATED wordwrap: a trailing line break does not open another paragraph; only necessary conditions on split points are checked (greedy filling is not)",
        "CALIBRATED indent: 'blank' means empty (whitespace-only lines are indented); first=True indents an empty first line regardless of blank; output line breaks are LF",
        "CALIBRATED title: word starts are string start and the character after whitespace or one of - ( { [ <; the first character is uppercased (not titlecased), the remainder lowercased on its own",
        "CALIBRATED capitalize: first character in Unicode titlecase form, rest lowercased in whole-string context (Python's str.capitalize), although the docstring says 'uppercase'",
        "CALIBRATED wordcount: word = maximal run of letters/digits/underscore",
        "CALIBRATED striptags: comments first, unterminated '<' kept, result stripped and entity-unescaped",
        "CALIBRATED filesizeformat: singular only for exactly 1, integer part below the base, one decimal above, unit chosen before rounding ('1000.0 kB')",
        "CALIBRATED round: ties of method 'common' follow Python's round(); ceil/floor computed as f(value * 10**p) / 10**p in floating point",
        "format: Python's % operator is the definition ('like string % values'); int/float: Python's int()/float() give the value where conversion is possible",
        "center: padding left/right may differ by at most one (which side gets the odd cell is not specified)",
        "replace with an empty search string and truncate with length < len(end) are outside the documented contract and not enumerated",
    ]
    firsts = [None] + list(SIGMA)
    shards = []
    shards += [("simple", None, f, n_sigma) for f in firsts]
    shards += [("extras", None, None, 0)]
    shards += [("case", None, f, 3 if q else 4) for f in [None] + list(CASE_SIGMA)]
    shards += [("striptags", None, f, 4 if q else 5) for f in [None] + list(STRIP_SIGMA)]
    shards += [("replace", None, f, n_heavy) for f in firsts]
    shards += [("indent", None, f, n_heavy) for f in firsts]
    for alpha, n in trunc_sets:
        nc = 2 if len(alpha) > 3 else 12
        shards += [("truncate", (alpha, n, ci, nc), f, n) for f in [None] + list(alpha) for ci in range(nc)]
    for alpha, n in wrap_sets:
        nc = 2 if len(alpha) > 4 else 5
        shards += [("wordwrap", (alpha, n, ci, nc), f, n) for f in [None] + list(alpha) for ci in range(nc)]
    shards += [("format", None, None, 3 if q else 4), ("filesize", None, None, 0), ("round", None, None, 0)]
    shards += [("numbers", (digits, n_num), f, n_num) for f in [None] + list(digits) + list(INT_SIGMA_REST)]
    ctx.pmap(shard, shards)
    ctx.cov["bounds"] = {
        "sigma": list(SIGMA), "max_fragments_simple_filters": n_sigma,
        "case_filters_extra_code_points": list(CASE_EXTRA), "max_fragments_case_filters_extended_alphabet": 3 if q else 4, "max_fragments_replace_indent": n_heavy,
        "truncate": {"argument_tuples": len(cfg_truncate()), "string_sets": [["".join(a), n] for a, n in trunc_sets]},
        "wordwrap": {"argument_tuples": len(cfg_wordwrap()), "string_sets": [["".join(a), n] for a, n in wrap_sets]},
        "indent_argument_tuples": len(cfg_indent()), "replace_argument_tuples": len(cfg_replace()),
        "striptags_alphabet": list(STRIP_SIGMA), "format_alphabet": list(FORMAT_SIGMA),
        "int_float": {"digits": digits, "other_characters": list(INT_SIGMA_REST), "max_length": n_num,
                      "argument_tuples": len(cfg_numbers()), "extra_values": len(number_extras())},
        "filesizeformat_values": len(fs_values()), "round_values": len(round_values()),
    }
