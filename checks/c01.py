"""C01 — every template source either compiles or fails with TemplateSyntaxError.

Bounded-exhaustive enumeration of source strings (E1 token strings and
deviation-bounded token mutations) under nine environment configurations.
The oracle needs no reference model: the property itself says what the only
two legal outcomes of loading a template are.
"""
from __future__ import annotations

import ast
import glob
import multiprocessing
import os
import re
import signal

from vf import core

META = {
    "level": "exploration",
    "engine": "E1",
    "technique": "bounded-exhaustive enumeration of all fragment strings up to length k over a delimiter/keyword alphabet, "
    "of all token-edit mutations at distance <= d of every template literal in the repo's tests, and of all "
    "identifier pairs in signature/call shapes, against the totality oracle (Template or TemplateSyntaxError with "
    "an in-range line; anything else, a hang, or generated Python that compile() rejects is a violation)",
    "text": "Every string of <= k fragments over the 30-fragment core alphabet (delimiters, whitespace-control signs, "
    "brackets, quotes, backslash, operators, a name, a digit, if/endif), every string of <= k-2 fragments over the "
    "69-fragment keyword alphabet (bare and framed in a block / variable tag), every delete/duplicate/swap/replace "
    "mutation at distance <= d of the ~690 harvested test-suite templates, and 42 hostile identifiers "
    "(Python keywords, NFKC-colliding spellings, non-identifier \\w names, caller/varargs/kwargs, internal prefixes) in 27 "
    "fixed, 41 one-name and 32 two-name (every ordered pair) signature / call / assignment shapes, every unbounded lexer/parser "
    "construct stretched to 8-40 repetitions (unterminated and terminated string literals with seven kinds of tail in twelve tag "
    "positions, runs of each operator / bracket / name / digit / blank / delimiter, nestings up to 20 deep, long chains), and "
    "every one of 84 expression positions filled with 13 nested filter/test expressions whose names occur once per template, "
    "every number spelling of <= 3 (4) fragments over ASCII and non-ASCII digits and number punctuation in 8 literal positions, and "
    "47 empty / minimal statements alone, after six kinds of (conditional) extends and inside 16 container bodies (thorough: two "
    "container levels), 35 block-like tags with their modifiers x 24 minimal bodies x 8 surroundings, and 22 whitespace-controlled tags (27 with line "
    "statements) after 0-3 blank lines x 1-3 repetitions x 9 trailing faults x 3 leads x 3 separators (quick: 1-2 x 9 x 2 x 2), break / continue in 4 placements x 4 loop kinds inside <= 2 levels of 12 containers (sync and async), and 80 "
    "constant expressions whose compile-time folding fails in 30 expression positions, is loaded through Environment.from_string, Environment.parse and Environment.compile(raw=True) "
    "+ Python compile() under nine configurations (default, ASP-style shared-prefix delimiters, ${ } variables, line "
    "statements + line comments, trim+lstrip, keep_trailing_newline, async, sandboxed, i18n+do+loopcontrols+debug).",
    "note": "Bounds: quick k=4 default / k=3 other configs, keyword alphabet <=2 (framed <=2), d<=1 on the 300 shortest seeds "
    "(40 in the other configs), identifier pairs over 20 (10) names; thorough k=5 default / k=4 elsewhere, keyword alphabet "
    "<=3 (framed <=3 in default/asp/line/ext, <=2 elsewhere), d<=1 on all seeds (300 shortest in the other configs), d<=2 on the 60 (15) shortest seeds, all pairs.  "
    "compile(raw)+compile() is skipped only for core-alphabet strings of the maximal length that from_string already "
    "loaded or Environment.parse already rejected (same parse/generate/compile steps); at k=5 (thorough, default config) the "
    "maximal length is enumerated for tuples that contain a tag opener only (9.95M of 24.3M; strings without an opener are complete "
    "to length 4) and goes through from_string alone; async and sandbox use k=3 in the thorough tier too.  Out of scope by construction: "
    "integer literals beyond the int-to-str digit limit and nesting beyond the recursion limit (both need inputs far "
    "larger than any bound here).  'Renderable' is checked as 'a Template object whose module code compiled'; "
    "rendering belongs to other properties.",
    "design_ref": "DESIGN.md §4 C01",
}

# --------------------------------------------------------------------------
# alphabets

# Core alphabet (DESIGN §4 C01 is authoritative: 8 delimiter/sign fragments,
# 2 whitespace, 18 one-character fragments, 2 words = 30).
SIGMA1 = ["{{", "}}", "{%", "%}", "{#", "#}", "-", "+", " ", "\n",
          "a", "1", ".", "(", ")", "[", "]", "{", "}", "|", ",", ":", "=", "'", '"', "\\", "~", "*",
          "if", "endif"]
KEYWORDS = ("x 0x 1e else elif for in endfor set endset block endblock macro endmacro call endcall filter "
            "endfilter raw endraw extends include import from with endwith autoescape endautoescape trans "
            "pluralize endtrans not is and or recursive scoped required print").split()
SIGMA2 = SIGMA1 + KEYWORDS

DELIMS = ("{{", "}}", "{%", "%}", "{#", "#}")

# name -> (class, kwargs, delimiter translation, extra fragments for both alphabets)
CONFIGS = [
    ("default", "Environment", {}, None, []),
    ("asp", "Environment",
     dict(block_start_string="<%", block_end_string="%>", variable_start_string="<%=", variable_end_string="%>",
          comment_start_string="<%#", comment_end_string="%>"),
     {"{{": "<%=", "}}": "%>", "{%": "<%", "%}": "%>", "{#": "<%#", "#}": "%>"}, ["<", "%", ">", "#"]),
    ("dollar", "Environment", dict(variable_start_string="${", variable_end_string="}"),
     {"{{": "${", "}}": "}"}, ["$"]),
    ("line", "Environment", dict(line_statement_prefix="#", line_comment_prefix="##"), None, ["#", "##"]),
    ("trim", "Environment", dict(trim_blocks=True, lstrip_blocks=True), None, []),
    ("ktn", "Environment", dict(keep_trailing_newline=True), None, []),
    ("async", "Environment", dict(enable_async=True), None, []),
    ("sandbox", "SandboxedEnvironment", {}, None, []),
    ("ext", "Environment",
     dict(extensions=["jinja2.ext.i18n", "jinja2.ext.do", "jinja2.ext.loopcontrols", "jinja2.ext.debug"]),
     None, ["do", "break", "continue", "debug", "trimmed", "notrimmed", "_"]),
]
NCFG = len(CONFIGS)  # the nine configurations every family runs under
# one more, used by the loop-control family only: loop controls in async code generation
CONFIGS.append(("extasync", "Environment", dict(enable_async=True, extensions=["jinja2.ext.loopcontrols", "jinja2.ext.do"]), None,
                ["break", "continue"]))
CFG_INDEX = {c[0]: i for i, c in enumerate(CONFIGS)}


def make_env(ci):
    import jinja2
    import jinja2.sandbox

    _, cls, kw, _, _ = CONFIGS[ci]
    if cls == "SandboxedEnvironment":
        return jinja2.sandbox.SandboxedEnvironment(**kw)
    return jinja2.Environment(**kw)


def env_ctor_text(ci):
    _, cls, kw, _, _ = CONFIGS[ci]
    mod = "jinja2.sandbox." if cls == "SandboxedEnvironment" else "jinja2."
    return f"{mod}{cls}(" + ", ".join(f"{k}={v!r}" for k, v in kw.items()) + ")"


def translate_fragment(ci, frag):
    tr = CONFIGS[ci][3]
    return tr.get(frag, frag) if tr else frag


def alphabet(ci, which):
    """Alphabet `which` (1 core / 2 keyword) translated for configuration ci,
    duplicates produced by the translation removed, order preserved."""
    base = SIGMA1 if which == 1 else SIGMA2
    out = []
    for f in base[:len(SIGMA1)] + CONFIGS[ci][4] + base[len(SIGMA1):]:
        f = translate_fragment(ci, f)
        if f not in out:
            out.append(f)
    return out


def translate_source(ci, src):
    tr = CONFIGS[ci][3]
    if not tr:
        return src
    return _delim_re.sub(lambda m: tr.get(m.group(), m.group()), src)


_delim_re = re.compile(r"\{\{|\}\}|\{%|%\}|\{#|#\}")

# --------------------------------------------------------------------------
# joining fragments
#
# J0: fragments are concatenated with no separator ("{%" "if" -> "{%if",
#     "if" "a" -> "ifa", "1e" "1" -> "1e1").
# J1: same, but a single space is put between two adjacent fragments when the
#     left one ends and the right one starts with a word character
#     ("if" "a" -> "if a"), so that keyword-argument shapes are reachable
#     without spending a fragment on the blank.  "{% if" needs the explicit
#     space fragment and occurs from k = 3 on.
# A tuple is evaluated under J0 and, when J1 gives a different string, under J1.


def _wordish(ch):
    return ch.isalnum() or ch == "_"


def joins(frags):
    s0 = "".join(frags)
    parts = []
    prev = ""
    diff = False
    for f in frags:
        if prev and f and _wordish(prev[-1]) and _wordish(f[0]):
            parts.append(" ")
            diff = True
        parts.append(f)
        prev = f
    if diff:
        return (s0, "".join(parts))
    return (s0,)


# --------------------------------------------------------------------------
# the oracle

_LEXER_MSG = re.compile(
    r"unexpected char |unexpected '[\]})]'|Missing end of |Invalid character in identifier|"
    r"truncated |invalid \\|malformed \\|illegal Unicode|unknown Unicode|.*codec can't|\\ at end of string|"
    r"character name"
)
_skel_cache: dict = {}


def skeleton(msg):
    s = _skel_cache.get(msg)
    if s is None:
        s = re.sub(r"'[^']*'", "'_'", msg)
        s = re.sub(r'"[^"]*"', '"_"', s)
        s = re.sub(r"\d+", "N", s)
        if len(_skel_cache) < 50000:
            _skel_cache[msg] = s
    return s


def line_breaks(src):
    return src.count("\n") + src.count("\r") - src.count("\r\n")


def _slug(s, n=48):
    return re.sub(r"[^A-Za-z0-9]+", "-", s).strip("-")[:n] or "x"


_STREAM_HELPERS = {"__next__", "__bool__", "push", "look", "skip", "next_if", "skip_if", "expect", "test", "test_any",
                   "wrap", "tokeniter", "eos", "close"}


def _jinja_frame(tb, skip_stream=False):
    """module.function of the innermost traceback frame inside jinja2
    (skip_stream: ignoring the token-stream helpers, so that an interrupted
    loop is named after the looping function, not after where the alarm hit)."""
    where = "python"
    while tb is not None:
        fn = tb.tb_frame.f_code.co_filename
        name = tb.tb_frame.f_code.co_name
        if os.sep + "jinja2" + os.sep in fn:
            mod = os.path.basename(fn)[:-3]
            if not (skip_stream and mod == "lexer" and name in _STREAM_HELPERS and where != "python"):
                where = mod + "." + name
        tb = tb.tb_next
    return where


APIS = ("from_string", "parse", "compile_raw+compile")
_API_CALL = {
    "from_string": "print(env.from_string(src))",
    "parse": "print(type(env.parse(src)))",
    "compile_raw+compile": "code = env.compile(src, raw=True)\nprint(code)\ncompile(code, '<template>', 'exec')",
}


def _script(ci, src, api):
    return ("import jinja2, jinja2.sandbox\n"
            f"env = {env_ctor_text(ci)}\n"
            f"src = {src!r}\n"
            f"{_API_CALL[api]}\n")


_CHAR_NAMES = {":": "colon", ",": "comma", "(": "lparen", ")": "rparen", "[": "lbracket", "]": "rbracket",
               "{": "lbrace", "}": "rbrace", "=": "assign", "*": "star", ".": "dot", "'": "quote", '"': "dquote",
               " ": "blank", "": "eol"}


def _py_syntax_sig(e):
    """Narrow, stable name for a SyntaxError raised by Python's compile() on
    generated code: the message with names masked, plus (for the catch-all
    'invalid syntax') the kind of character the compiler points at."""
    msg = e.msg or ""
    if msg.startswith("duplicate argument"):
        return "duplicate-param"
    if msg.startswith("keyword argument repeated"):
        return "repeated-keyword"
    if msg.startswith("'break' outside loop"):
        return "break-outside-loop"
    if msg.startswith("'continue' not properly in loop"):
        return "continue-outside-loop"
    sig = _slug(skeleton(msg))
    if msg == "invalid syntax" and e.text and e.offset:
        ch = e.text[e.offset - 1:e.offset]
        if ch.isalpha() or ch == "_":
            ch = "name"
        elif ch.isdigit():
            ch = "number"
        else:
            ch = _CHAR_NAMES.get(ch, "U%04X" % ord(ch))
        sig += "/at-" + ch
    return sig


CPU_ALARM = 3.0        # seconds of CPU time per case (all three entry points together)
HANGS_PER_SHARD = 3    # a shard stops enumerating after this many hangs ...
HANGS_PER_RUN = 8      # ... and every shard stops once the run has seen this many
HANGS = None           # multiprocessing.RawValue shared by the forked workers (set in run()); read without a lock
HANGS_LOCK = None


class StopShard(Exception):
    """raised by Checker.check when the hang caps are reached"""


def _on_cpu_alarm(signum, frame):
    raise core.CaseTimeout()


def guarded(fn):
    """Shard wrapper: a shard that ran into the hang caps returns what it has."""
    def shard(arg):
        p = core.Part()
        try:
            fn(arg, p)
        except StopShard:
            p.count("shards_cut_short")
        finally:
            signal.setitimer(signal.ITIMER_VIRTUAL, 0)
        return p
    shard.__name__ = fn.__name__
    shard.__qualname__ = fn.__qualname__
    return shard


class Checker:
    """Applies the totality oracle to one source under one configuration."""

    def __init__(self, p: core.Part, ci: int, space: str):
        import jinja2
        import jinja2.nodes

        self.p = p
        self.ci = ci
        self.space = space
        self.cfg = CONFIGS[ci][0]
        self.TSE = jinja2.TemplateSyntaxError
        self.TAE = jinja2.TemplateAssertionError
        self.Template = jinja2.Template
        self.TemplateNode = jinja2.nodes.Template
        self.hangs = 0
        signal.signal(signal.SIGVTALRM, _on_cpu_alarm)

    def bad(self, sig, src, api, what):
        self.p.violation(sig, {
            "msg": f"[{self.cfg}/{self.space}] {api}({src!r}): {what}",
            "config": self.cfg, "space": self.space, "source": src, "api": api,
            "script": _script(self.ci, src, api),
        })

    def check(self, src, full=2, seconds=CPU_ALARM):
        """Apply the oracle to one source.  full=2: all three entry points.
        full=1 skips the third one when from_string already succeeded (it
        repeats the same parse, generate and compile() steps) or when
        Environment.parse already raised (compile(raw=True) starts with the
        very same parse).  full=0: from_string only (it runs the same parse,
        generate and compile() itself)."""
        p = self.p
        if self.hangs >= HANGS_PER_SHARD or (HANGS is not None and HANGS.value >= HANGS_PER_RUN):
            raise StopShard()
        p.evals += 1
        try:
            self._attempt(src, full, seconds)
        except core.CaseTimeout:
            # On an oversubscribed virtual machine stolen time is charged to the
            # running process, so even the CPU-time alarm can fire on a stall.  A
            # genuine hang is deterministic: it must time out again with twice
            # the allowance before it is reported.
            n = len(p.viol)
            try:
                self._attempt(src, full, 2 * seconds)
            except core.CaseTimeout as e:
                del p.viol[n:]
                self.hangs += 1
                if HANGS is not None:
                    with HANGS_LOCK:
                        HANGS.value += 1
                self.bad(f"C01/hang/{self.cfg}/{_jinja_frame(e.__traceback__, True)}", src, self._api,
                         f"no result after {seconds} s and again after {2 * seconds} s of CPU time")
            else:
                del p.viol[n:]  # whatever the case violates was recorded by the first attempt
                p.count("timeouts_not_reproduced")

    def _attempt(self, src, full, seconds):
        env = make_env(self.ci)  # fresh environment per case
        nontrivial = None
        loaded = parse_failed = False
        # per-case alarm on the worker's CPU time (ITIMER_VIRTUAL): a loop or a
        # backtracking regex burns CPU, a stalled shared machine does not
        signal.setitimer(signal.ITIMER_VIRTUAL, seconds)
        try:
            for api in APIS:
                self._api = api
                try:
                    if api == "from_string":
                        r = env.from_string(src)
                        ok = loaded = isinstance(r, self.Template)
                    elif api == "parse":
                        if full == 0:
                            continue
                        r = env.parse(src)
                        ok = isinstance(r, self.TemplateNode)
                    else:
                        if full == 0 or ((loaded or parse_failed) and full == 1):
                            continue
                        r = env.compile(src, raw=True)
                        ok = isinstance(r, str)
                        if ok:
                            compile(r, "<template>", "exec")
                    if not ok:
                        self.bad("C01/not-a-template/" + api, src, api, f"returned {type(r).__name__}")
                    elif nontrivial is None:
                        nontrivial = "ok"
                except self.TSE as e:
                    if api == "parse":
                        parse_failed = True
                    ln = e.lineno
                    hi = 1 + line_breaks(src)
                    msg = e.message or ""
                    if type(ln) is not int or not (1 <= ln <= hi):
                        self.bad(f"C01/lineno-out-of-range/{'low' if type(ln) is int and ln < 1 else 'high'}/"
                                 + _slug(skeleton(msg)), src, api,
                                 f"{type(e).__name__}({msg!r}) lineno={ln!r}, source has lines 1..{hi}")
                    if nontrivial is None:
                        if _LEXER_MSG.match(msg):
                            nontrivial = False
                        else:
                            nontrivial = ("TAE:" if isinstance(e, self.TAE) else "TSE:") + skeleton(msg)
                except SyntaxError as e:
                    # Python's own SyntaxError: compile() of the generated module, inside
                    # from_string or in the explicit compile() of the raw source
                    self.bad("C01/python-syntaxerror/" + _py_syntax_sig(e), src, api,
                             f"generated code rejected by compile(): {e.msg}: {(e.text or '').strip()[:160]}")
                except Exception as e:  # noqa: BLE001
                    self.bad(f"C01/{type(e).__name__}/{_jinja_frame(e.__traceback__)}", src, api,
                             f"raised {type(e).__name__}: {str(e)[:200]}")
        finally:
            signal.setitimer(signal.ITIMER_VIRTUAL, 0)
        if nontrivial:
            self.p.sig(nontrivial)


# --------------------------------------------------------------------------
# (a) fragment strings


@guarded
def shard_strings(arg, p):
    """All fragment tuples over an alphabet that extend `prefix` up to length
    k (the prefix itself included); prefix None = all tuples shorter than
    plen (including the empty string).  `frame` wraps each joined string."""
    ci, which, k, prefix, plen, frame = arg
    A = alphabet(ci, which)
    tag = f"S{which}" + (f"/{frame}" if frame else "")
    chk = Checker(p, ci, tag)
    pre, post = "", ""
    if frame == "block":
        pre, post = translate_fragment(ci, "{%") + " ", " " + translate_fragment(ci, "%}")
    elif frame == "var":
        pre, post = translate_fragment(ci, "{{") + " ", " " + translate_fragment(ci, "}}")

    def run(frags):
        # entry points: all three below the maximal length; at the maximal length of the core alphabet
        # from_string + parse (+ compile(raw) when those two disagree), and from_string alone when k >= 5
        full = 2 if (which != 1 or len(frags) < k) else (1 if k < 5 else 0)
        for s in joins(frags):
            chk.check(pre + s + post, full)
        if len(p.samples) < 2 and len(frags) == k:
            p.sample({"space": tag, "config": chk.cfg, "fragments": list(frags)}, cap=2)

    # Declared bound for k >= 5 over the core alphabet: tuples of the maximal length are enumerated only
    # when they contain a tag opener; strings without one are enumerated up to length k - 1.
    openers = {translate_fragment(ci, d) for d in ("{{", "{%", "{#")}
    restrict = which == 1 and k >= 5

    def rec(frags):
        run(frags)
        if len(frags) < k:
            last = len(frags) == k - 1
            if restrict and last and not openers.intersection(frags):
                for f in A:
                    if f in openers:
                        rec(frags + (f,))
            else:
                for f in A:
                    rec(frags + (f,))

    def short(frags):
        run(frags)
        if len(frags) < min(plen - 1, k):
            for f in A:
                short(frags + (f,))

    try:
        if prefix is None:
            short(())
        else:
            rec(tuple(A[i] for i in prefix))
    finally:
        p.count("cases_strings_" + tag, p.evals)


def string_shards(ci, which, k, frame=None):
    """One shard per prefix of length plen (each enumerates every extension up
    to length k) plus one shard for the tuples shorter than plen; plen is
    chosen so that a shard holds about a thousand cases or more."""
    n = len(alphabet(ci, which))
    plen = min(2, max(0, k - 2))
    if plen == 0:
        return [(ci, which, max(k, 0), (), 0, frame)]
    out = [(ci, which, k, None, plen, frame)]
    if plen == 1:
        out += [(ci, which, k, (i,), plen, frame) for i in range(n)]
    else:
        out += [(ci, which, k, (i, j), plen, frame) for i in range(n) for j in range(n)]
    return out


def string_count(n, k):
    return sum(n ** i for i in range(k + 1))


# --------------------------------------------------------------------------
# (c) token-edit mutations of the test-suite templates

_seed_tok = re.compile(
    r"\{\{|\}\}|\{%|%\}|\{#|#\}|<%=|<%#|<%|%>|\$\{|<\?|\?>|<!--|-->"
    r"|[^\W\d]\w*|\d+|\s+|'(?:[^'\\]|\\.)*'|\"(?:[^\"\\]|\\.)*\"|.", re.S)

CORPUS: list = []


def harvest():
    """Template string literals of tests/*.py, read with ast (never executed):
    first argument of from_string(...) / Template(...), dict values and any
    other string constant containing '{%' or '{{'."""
    seeds = set()
    for f in sorted(glob.glob(os.path.join(core.REPO, "tests", "*.py"))):
        try:
            tree = ast.parse(open(f, encoding="utf-8").read())
        except SyntaxError:
            continue
        for node in ast.walk(tree):
            if isinstance(node, ast.Call):
                fn = node.func
                nm = fn.attr if isinstance(fn, ast.Attribute) else getattr(fn, "id", None)
                if nm in ("from_string", "Template") and node.args:
                    a = node.args[0]
                    if isinstance(a, ast.Constant) and isinstance(a.value, str):
                        seeds.add(a.value)
            if isinstance(node, ast.Constant) and isinstance(node.value, str):
                if "{%" in node.value or "{{" in node.value:
                    seeds.add(node.value)
    out = []
    for s in seeds:
        toks = _seed_tok.findall(s)
        n = sum(1 for t in toks if not t.isspace())
        if 0 < n <= 130:
            out.append((n, s))
    out.sort()
    return [s for _, s in out]


def mutants1(toks, frags):
    """All token lists at edit distance exactly <= 1 from toks (delete any
    token; duplicate / swap-with-next / replace-by-fragment any non-blank
    token)."""
    idx = [i for i, t in enumerate(toks) if not t.isspace()]
    for i in range(len(toks)):
        yield toks[:i] + toks[i + 1:]
    for n, i in enumerate(idx):
        yield toks[:i + 1] + toks[i:]
        if n + 1 < len(idx):
            j = idx[n + 1]
            m = list(toks)
            m[i], m[j] = m[j], m[i]
            yield m
        t = toks[i]
        for f in frags:
            if f != t:
                yield toks[:i] + [f] + toks[i + 1:]


@guarded
def shard_corpus(arg, p):
    ci, seed_ids, d = arg
    chk = Checker(p, ci, f"M{d}")
    frags = [f for f in alphabet(ci, 2) if not f.isspace()]
    try:
        for sid in seed_ids:
            seed = CORPUS[sid]
            toks = [translate_fragment(ci, t) for t in _seed_tok.findall(seed)]
            seen = set()
            level = [toks]
            src0 = "".join(toks)
            seen.add(src0)
            chk.check(src0)
            for dist in range(1, d + 1):
                nxt = []
                for base in level:
                    for m in mutants1(base, frags):
                        s = "".join(m)
                        if s in seen:
                            continue
                        seen.add(s)
                        chk.check(s)
                        if dist < d:
                            nxt.append(m)
                level = nxt
            p.count("seeds_d%d" % d, 1)
            if len(p.samples) < 1:
                p.sample({"space": f"M{d}", "config": chk.cfg, "seed": seed, "distinct_mutants": len(seen)}, cap=1)
    finally:
        p.count("cases_mutants_d%d" % d, p.evals)


# --------------------------------------------------------------------------
# (d) identifiers in signature / call / assignment shapes

IDS = ["a", "b", "ａ", "ﬁ", "fi", "ª", "ⅰ", "i", "class", "def", "None", "True", "False", "none",
       "true", "not", "import", "lambda", "async", "await", "print", "self", "caller", "varargs", "kwargs", "loop",
       "_", "__class__", "l_0_a", "l_1_a", "t_1", "environment", "context", "resolve", "undefined", "missing",
       "ns", "super", "match", "type", "٣a", "²"]

SHAPES1 = [
    "{{ P }}", "{{ x.P }}", "{{ P.x }}", "{{ P() }}", "{{ f(P=1) }}", "{{ x|P }}", "{{ x|f(P=1) }}", "{{ x is P }}",
    "{% set P = 1 %}{{ P }}", "{% set P %}x{% endset %}{{ P }}", "{% set ns.P = 1 %}", "{% set P.a = 1 %}",
    "{% for P in x %}{{ P }}{% endfor %}", "{% for a in x if P %}{{ a }}{% endfor %}",
    "{% for P in x recursive %}{{ loop(P) }}{% endfor %}",
    "{% macro P() %}{% endmacro %}{{ P() }}", "{% macro m(P) %}{{ P }}{% endmacro %}",
    "{% macro m(P=1) %}{{ P }}{% endmacro %}", "{% macro m(a, P=a) %}{% endmacro %}",
    "{% macro m() %}{{ P }}{% endmacro %}",
    "{% call(P) f() %}{{ P }}{% endcall %}", "{% call P() %}{% endcall %}", "{% call f(P=1) %}{% endcall %}",
    "{% block P %}{% endblock %}", "{% block P %}{% endblock P %}", "{% block b scoped %}{{ P }}{% endblock %}",
    "{% import 'x' as P %}{{ P }}", "{% from 'x' import P %}{{ P }}", "{% from 'x' import a as P %}{{ P }}",
    "{% from 'x' import P as a %}", "{% with P = 1 %}{{ P }}{% endwith %}", "{% filter P %}x{% endfilter %}",
    "{% if P %}{% set P = 1 %}{% endif %}{{ P }}", "{% include P %}", "{% extends P %}",
    "{% trans P=1 %}{{ P }}{% endtrans %}", "{% trans P %}{{ P }}{% endtrans %}",
    "{% trans %}{{ P }}{% pluralize P %}{{ P }}{% endtrans %}", "{% do P %}", "{{ _(P) }}",
    "{% autoescape P %}{{ P }}{% endautoescape %}",
]
SHAPES2 = [
    "{% macro m(P, Q) %}{% endmacro %}", "{% macro m(P, Q=1) %}{% endmacro %}",
    "{% macro m(P=1, Q=2) %}{{ P }}{{ Q }}{% endmacro %}", "{% macro P(Q) %}{% endmacro %}",
    "{% call(P, Q) f() %}{% endcall %}", "{% call(P, Q=1) f() %}{% endcall %}",
    "{{ f(P=1, Q=2) }}", "{{ x|f(P=1, Q=2) }}", "{{ x is f(P=1, Q=2) }}", "{% call f(P=1, Q=2) %}{% endcall %}",
    "{% filter f(P=1, Q=2) %}{% endfilter %}", "{{ f(P, Q=1) }}", "{{ f(*P, **Q) }}", "{{ f(P=1, **Q) }}",
    "{{ f(1, P=1, *a, Q=2) }}",
    "{% set P, Q = 1, 2 %}", "{% for P, Q in x %}{{ P }}{{ Q }}{% endfor %}", "{% for P in Q %}{% endfor %}",
    "{% with P=1, Q=2 %}{{ P }}{{ Q }}{% endwith %}", "{% from 'x' import P, Q %}",
    "{% from 'x' import a as P, b as Q %}", "{% set P = 1 %}{% set Q = 2 %}{{ P }}{{ Q }}",
    "{% macro P() %}{% endmacro %}{% macro Q() %}{% endmacro %}",
    "{% block P %}{% endblock %}{% block Q %}{% endblock %}",
    "{% trans P=1, Q=2 %}{{ P }}{{ Q }}{% endtrans %}", "{% trans P=1 %}{{ P }}{{ Q }}{% endtrans %}",
    "{% macro m(P) %}{% set Q = 1 %}{{ P }}{{ Q }}{% endmacro %}",
    "{% for P in x %}{% for Q in y %}{{ P }}{{ Q }}{% endfor %}{% endfor %}",
    "{% macro m(P) %}{% for Q in P %}{{ Q }}{% endfor %}{% endmacro %}",
    "{% call(P) f() %}{% call(Q) g() %}{{ P }}{{ Q }}{% endcall %}{% endcall %}",
    "{{ {'P': 1}.Q }}", "{{ P.Q(P=Q) }}",
]
SHAPES0 = [
    "{{ f(*a, *b) }}", "{{ f(**a, **b) }}", "{{ f(a=1, b) }}", "{{ f(**a, b) }}", "{{ f(*a, b) }}", "{{ f(**a, *b) }}",
    "{{ f(a=1, a=2, a=3) }}", "{{ f(a, a) }}", "{% macro m(a=1, b) %}{% endmacro %}", "{% macro m(*a) %}{% endmacro %}",
    "{% macro m(**a) %}{% endmacro %}", "{% macro m(a, ) %}{% endmacro %}", "{% macro m(a.b) %}{% endmacro %}",
    "{% macro m((a, b)) %}{% endmacro %}", "{% macro m(a, a, a) %}{% endmacro %}", "{% call(a=1) f() %}{% endcall %}",
    "{% macro m(a, b=a, a=b) %}{% endmacro %}", "{% call(a, b, a) f() %}{% endcall %}",
    "{% macro m(caller, caller) %}{% endmacro %}", "{% macro m(varargs, kwargs, caller) %}{{ varargs }}{{ kwargs }}{{ caller }}{% endmacro %}",
    "{% macro m(a) %}{{ caller() }}{% endmacro %}{% call(caller) m() %}{% endcall %}",
    "{% for a, a in x %}{% endfor %}", "{% set a, a = 1, 2 %}", "{% with a=1, a=2 %}{% endwith %}",
    "{% from 'x' import a, a %}", "{% from 'x' import a as b, c as b %}", "{% trans a=1, a=2 %}{{ a }}{% endtrans %}",
]


HOT_IDS = ["a", "ａ", "ﬁ", "fi", "class", "None", "caller", "varargs", "kwargs", "l_1_a"]


MID_IDS = HOT_IDS + ["b", "ª", "def", "True", "not", "self", "loop", "_", "l_0_a", "٣a"]


def all_shapes(full=2):
    """full=2: every ordered identifier pair in the two-name shapes; 1: pairs
    over twenty identifiers; 0: pairs over the ten most hostile ones."""
    out = [("shape0", s) for s in SHAPES0]
    for sh in SHAPES1:
        for a in IDS:
            out.append(("shape1", sh.replace("P", a)))
    ids2 = (HOT_IDS, MID_IDS, IDS)[int(full)]
    for sh in SHAPES2:
        for a in ids2:
            for b in ids2:
                out.append(("shape2", re.sub(r"[PQ]", lambda m: a if m.group() == "P" else b, sh)))
    return out


@guarded
def shard_shapes(arg, p):
    ci, full, lo, hi = arg
    chk = Checker(p, ci, "D")
    try:
        for kind, src in all_shapes(full)[lo:hi]:
            s = translate_source(ci, src)
            chk.check(s)
            if len(p.samples) < 1 and kind == "shape2":
                p.sample({"space": "D", "config": chk.cfg, "source": s}, cap=1)
    finally:
        p.count("cases_shapes", p.evals)


# --------------------------------------------------------------------------
# (e) long runs: the unbounded lexer/parser constructs, far beyond k fragments
#
# A string of <= 5 fragments never contains a 30-character literal, a run of
# 40 parentheses or a 40-character name, so super-linear behaviour (a
# backtracking regex, a quadratic rescan) cannot show in (a).  This family
# holds every construct of unbounded length fixed and stretches it.

LONG_N = (8, 16, 24, 32, 40)
_TAILS = {
    "mixed": "a b1.c(d)|e~f,g:h=i[j]k{l}m+n-o*p q2/r%s<t>u!v",
    "word": "abcdefghijklmnopqrstuvwxyzabcdefghijklmnopqrstuvwxyz",
    "blank": " " * 48,
    "digits": "1234567890" * 5,
    "delims": "{{ x }}{% y %}{# z #}{{ x }}{% y %}{# z #}{{ x }}",
    "lines": "a\nb\n c\n\nd \ne\n" * 5,
    "otherquote": "a@b@c d@e f@@g h@i@j k@l m@n@o p@q r@s@t u@v w@x",  # @ = the other quote character
}
_QUOTE_FRAMES = [
    "{{ %s", "{{ %s }}", "{{ a ~ %s", "{{ f(%s) }}", "{{ {%s", "{% if %s %}x{% endif %}", "{% set a = %s", "{% include %s %}",
    "{# c #}{{ %s", "{# c #}{% if %s", "x{{ a }}{%- set b = %s -%}", "{{ a }}\n{% if %s %}\n",
]


def long_cases(ci):
    """(tag, source) pairs, delimiters still in default spelling."""
    out = []
    for n in LONG_N:
        # unterminated / terminated string literals with a long tail
        for q, oq in (("'", '"'), ('"', "'")):
            for tname, tail in _TAILS.items():
                body = tail.replace("@", oq)[:n]
                for fi, frame in enumerate(_QUOTE_FRAMES):
                    out.append((f"str-open/{tname}", frame.replace("%s", q + body)))
                    if fi < 4:
                        out.append((f"str-closed/{tname}", frame.replace("%s", q + body + q)))
                        out.append((f"str-escaped/{tname}", frame.replace("%s", q + body[:n // 2] + "\\" + q + body[n // 2:])))
            out.append(("str-escapes", "{{ " + q + "\\x" * n))
            out.append(("str-escapes", "{{ " + q + "\\\\" * n + q + " }}"))
            out.append(("str-escapes", "{{ " + q + ("\\" + q) * n))
        # runs of one token / character
        for frame in ("{{ %s", "{{ %s }}", "{% if %s %}x{% endif %}", "{{ a%s", "{{ a%s }}"):
            for unit in ("(", "[", "{", ")", "-", "+", "~", "not ", "a.", ".a", "|a", "[0]", "()", "a,", " ", "\n", "1", "a",
                         "_", "1_", "1.", ".", "*", "**", ":", "=", "==", "<", "!", "|", "is ", "if ", "'a'", "\\"):
                out.append(("run/" + unit.strip(), frame.replace("%s", unit * n)))
        # balanced nestings (20 deep at most: far from the recursion limit)
        d = min(n, 20)
        for o, c in (("(", ")"), ("[", "]"), ("{'a':", "}"), ("(a,", ")"), ("[a,", "]"), ("a(", ")"), ("a[", "]")):
            out.append(("nest", "{{ " + o * d + "a" + c * d + " }}"))
            out.append(("nest-open", "{{ " + o * d + "a" + c * (d - 1) + " }}"))
            out.append(("nest-wrong", "{{ " + o * d + "a" + c * (d - 1) + "}" + " }}"))
        out.append(("nest-if", "{% if a %}" * d + "x" + "{% endif %}" * d))
        out.append(("nest-if-open", "{% if a %}" * d + "x" + "{% endif %}" * (d - 1)))
        out.append(("nest-for", "{% for a in b %}" * d + "x" + "{% endfor %}" * d))
        out.append(("nest-cond", "{{ " + "a if b else (" * d + "c" + ")" * d + " }}"))
        out.append(("chain-filter", "{{ a" + "|f(b)" * n + " }}"))
        out.append(("chain-elif", "{% if a %}" + "{% elif b %}" * n + "{% endif %}"))
        out.append(("chain-cmp", "{{ a" + " < b" * n + " }}"))
        out.append(("chain-concat", "{{ a" + " ~ 'b'" * n + " }}"))
        # long runs outside tags and of tag openers / closers
        for unit in ("{{", "{%", "{#", "}}", "%}", "#}", "{", "}", "%", "#", "-", "{{-", "-}}", "{%-", "{%+", "\n", " ", "{{ a }}",
                     "{% raw %}", "{% endraw %}", "{# #}"):
            # a run of n variable openers nests 2n-2 dict literals: keep the depth <= 40 (recursion limit is out of scope)
            m = n // 2 + 1 if unit in ("{{", "{{-") else n
            out.append(("data-run/" + unit.strip(), unit * m))
            out.append(("data-run/" + unit.strip(), "x" + unit * m + "y"))
        for o, body, c in (("{#", " c", "#}"), ("{% raw %}", " r{{", "{% endraw %}"), ("{{ a", " ", "}}"), ("{% if a", " ", "%}x{% endif %}"),
                           ("{{ a", "\n", "}}"), ("{%- if a -%}", " \n", "{%- endif -%}")):
            out.append(("long-body", o + body * n + c))
            out.append(("long-body-open", o + body * n))
    if CONFIGS[ci][0] == "line":
        for n in LONG_N:
            out.append(("line-stmt", "# if " + "a" * n + "\nx\n# endif"))
            out.append(("line-stmt", "# if '" + "a b" * n))
            out.append(("line-stmt", "#" * n + " if a"))
            out.append(("line-stmt", "## " + "c " * n + "\n" + "# for a in b:" + " " * n + "\n# endfor"))
    return out


@guarded
def shard_long(arg, p):
    ci, part, nparts = arg
    chk = Checker(p, ci, "L")
    cases = long_cases(ci)
    try:
        for i in range(part, len(cases), nparts):
            tag, src = cases[i]
            chk.check(translate_source(ci, src), 2, 2.0)
        if cases:
            p.sample({"space": "L", "config": chk.cfg, "kind": cases[part][0], "source": translate_source(ci, cases[part][1])}, cap=1)
    finally:
        p.count("cases_long_runs", p.evals)


# --------------------------------------------------------------------------
# (f) expression position x nested filter/test use
#
# Filters and tests get a per-function identifier (t_N) from a dependency
# scan that has to reach every place an expression can sit.  Each case puts an
# inner expression whose filter/test names occur nowhere else in the template
# into one expression position.

EXPR_POSITIONS = [
    "{{ E }}", "{{ z|default(E) }}", "{{ z|default(default_value=E) }}", "{{ z|batch(2, E)|join(E2) }}",
    "{{ z is eq(E) }}", "{{ z is ne(E) or z is gt(E2) }}", "{{ z is not le(E) }}",
    "{{ fn(E) }}", "{{ fn(k=E) }}", "{{ fn(*E) }}", "{{ fn(**E) }}", "{{ fn(1, E, k=E2) }}", "{{ (E)(1) }}", "{{ (E).a }}",
    "{{ (E)[0] }}", "{% if E %}x{% endif %}", "{% if z %}x{% elif E %}y{% endif %}", "{% if z %}x{% elif w %}y{% elif E %}v{% endif %}",
    "{% for i in E %}{{ i }}{% endfor %}", "{% for i in z if E %}{{ i }}{% endfor %}",
    "{% for i in z recursive %}{{ loop(E) }}{% endfor %}", "{% for i in z %}{{ E }}{% else %}{{ E2 }}{% endfor %}",
    "{% set v = E %}", "{% set v, w = E, E2 %}", "{% set ns.a = E %}", "{% set v | default(E) %}x{% endset %}",
    "{% set v %}{{ E }}{% endset %}", "{% filter default(E) %}x{% endfilter %}", "{% filter replace(E, E2) %}x{% endfilter %}",
    "{% filter upper %}{{ E }}{% endfilter %}", "{% with w = E %}{{ w }}{% endwith %}", "{% with w = 1, v = E %}{{ E2 }}{% endwith %}",
    "{% macro m(a=E) %}{{ a }}{% endmacro %}", "{% macro m(a, b=E) %}{{ E2 }}{% endmacro %}", "{% macro m() %}{{ E }}{% endmacro %}",
    "{% call m(E) %}x{% endcall %}", "{% call m(k=E) %}x{% endcall %}", "{% call(a=E) m() %}x{% endcall %}",
    "{% call m() %}{{ E }}{% endcall %}", "{% include E %}", "{% include [E, E2] ignore missing %}", "{% import E as m %}",
    "{% from E import a %}", "{% extends E %}", "{{ z[E] }}", "{{ z[E:] }}", "{{ z[:E] }}", "{{ z[::E] }}", "{{ z[E:E2] }}",
    "{{ {'k': E} }}", "{{ {E: 1} }}", "{{ [E] }}", "{{ (E, 1) }}", "{{ [1, E, E2] }}",
    "{{ E if z else 0 }}", "{{ 1 if E else 0 }}", "{{ 1 if z else E }}", "{{ 1 if E }}",
    "{{ E + 1 }}", "{{ 1 - E }}", "{{ not E }}", "{{ -E }}", "{{ z ~ E }}", "{{ z in E }}", "{{ E not in z }}", "{{ z < E }}",
    "{{ z < E <= E2 }}", "{{ z and E }}", "{{ z or E }}", "{{ z ** E }}", "{{ z // E }}",
    "{% block b %}{{ E }}{% endblock %}", "{% block b %}{{ E }}{% endblock %}{{ E2 }}",
    "{% block b scoped %}{% for i in z %}{{ E }}{% endfor %}{% endblock %}",
    "{% autoescape E %}x{% endautoescape %}", "{% autoescape true %}{{ E }}{% endautoescape %}",
    "{% trans v=E %}{{ v }}{% endtrans %}", "{% trans count=E %}{{ count }}{% pluralize %}{{ count }}s{% endtrans %}",
    "{% trans v=E, w=E2 %}{{ v }}{{ w }}{% endtrans %}", "{% do E %}", "{{ _(E) }}", "{% for i in z %}{% if E %}{% break %}{% endif %}{% endfor %}",
    "{{ z|map('default', E)|list }}", "{{ z|selectattr('a', 'eq', E)|list }}",
]
# inner expressions; every filter / test name is used once per template (E2 uses a disjoint set)
EXPR_INNER = [
    ("x|length", "y|first"),
    ("x is defined", "y is odd"),
    ("x|first(y|upper)", "x|abs(y|string)"),
    ("x is sameas(y|abs)", "x is divisibleby(y|length)"),
    ("(x|string) is divisibleby(y is odd)", "(x|upper) is sameas(y is defined)"),
    ("x|first(y is odd)", "x|abs(k=y is defined)"),
    ("x is in(y|length)", "x is sameas(y|first(u|upper))"),
    ("x|length(y|first(u|upper(v|abs)))", "x|string"),
    ("x is divisibleby(y is sameas(u is odd))", "x is defined"),
    ("x|nosuchfilter", "y|first"),
    ("x is nosuchtest(y|length)", "y is odd"),
    ("x|length is odd", "y|first is defined"),
    ("x if y|length else u|first", "x if y is odd else u is defined"),
]


def expr_cases():
    out = []
    for pos in EXPR_POSITIONS:
        for e1, e2 in EXPR_INNER:
            out.append(pos.replace("E2", "\0").replace("E", e1).replace("\0", e2))
    return out


@guarded
def shard_exprs(arg, p):
    ci, part, nparts = arg
    chk = Checker(p, ci, "G")
    cases = expr_cases()
    try:
        for i in range(part, len(cases), nparts):
            chk.check(translate_source(ci, cases[i]))
        p.sample({"space": "G", "config": chk.cfg, "source": translate_source(ci, cases[part])}, cap=1)
    finally:
        p.count("cases_expr_positions", p.evals)


# --------------------------------------------------------------------------
# (g) number spellings with non-ASCII digits
#
# str.isdigit / \\d accept digits Python's own number grammar rejects; every
# spelling of <= k fragments over ASCII and non-ASCII digits and the number
# punctuation is put into each position where a literal can occur.

NUM_ALPHABET = ["1", "0", "२", "५", "１", "٣", "²", ".", "e", "E", "_", "0x", "0b", "-", "+", "a"]
NUM_POSITIONS = ["{{ N }}", "{{ x|f(N) }}", "{{ x.N }}", "{{ x[N] }}", "{% set a = N %}", "{% if N %}y{% endif %}",
                 "{{ f(k=N) }}", "{{ x[N:N] }}"]


@guarded
def shard_numbers(arg, p):
    ci, k, first = arg
    chk = Checker(p, ci, "N")
    pos = [translate_source(ci, s) for s in NUM_POSITIONS]

    def rec(s, n):
        for t in pos:
            chk.check(t.replace("N", s))
        if n < k:
            for f in NUM_ALPHABET:
                rec(s + f, n + 1)

    try:
        rec(NUM_ALPHABET[first], 1)
        p.sample({"space": "N", "config": chk.cfg, "first_fragment": NUM_ALPHABET[first], "max_fragments": k}, cap=1)
    finally:
        p.count("cases_number_spellings", p.evals)


# --------------------------------------------------------------------------
# (h) statements with empty / minimal bodies in every frame kind
#
# The places where generated Python needs a `pass`: each statement is put
# alone, after an unconditional / conditional / dynamic extends, and inside
# the body of every kind of container (one level; two levels as well).

EMPTY_STATEMENTS = [
    "", "{% print %}", "{%- print -%}", "{% print x %}", "{% print x, y %}", "{{ '' }}", "{# c #}", "{% raw %}{% endraw %}",
    "{% block c %}{% endblock %}", "{% block c scoped %}{% endblock %}", "{% block c required %}{% endblock %}",
    "{% macro n() %}{% endmacro %}", "{% macro n(a, b=1) %}{% endmacro %}",
    "{% for i in x %}{% endfor %}", "{% for i in x %}{% else %}{% endfor %}", "{% for i in x if i %}{% endfor %}",
    "{% for i in x recursive %}{% endfor %}", "{% for i in x %}{% print %}{% endfor %}",
    "{% if x %}{% endif %}", "{% if x %}{% elif y %}{% else %}{% endif %}", "{% if x %}{% print %}{% else %}{% print %}{% endif %}",
    "{% with %}{% endwith %}", "{% with a = 1 %}{% endwith %}", "{% filter upper %}{% endfilter %}",
    "{% set v %}{% endset %}", "{% set v | upper %}{% endset %}", "{% set v = 1 %}", "{% set ns.v = 1 %}",
    "{% call n() %}{% endcall %}", "{% call(a) n() %}{% endcall %}", "{% autoescape true %}{% endautoescape %}",
    "{% autoescape x %}{% endautoescape %}", "{% trans %}{% endtrans %}", "{% trans count=1 %}{% pluralize %}{% endtrans %}",
    "{% do x %}", "{% include 'a' %}", "{% include x ignore missing without context %}", "{% import 'a' as m %}",
    "{% from 'a' import b %}", "{% extends 'b' %}", "{% break %}", "{% continue %}", "{% debug %}",
    "{{ super() }}", "{{ caller() }}", "{{ self.c() }}", "{{ loop.index }}",
]
EMPTY_PREFIXES = ["", "{% extends 'a' %}", "{% if x %}{% extends 'a' %}{% endif %}", "{% extends x %}",
                  "{% if x %}{% extends 'a' %}{% else %}{% extends 'b' %}{% endif %}", "{% for i in x %}{% extends 'a' %}{% endfor %}"]
EMPTY_CONTAINERS = [
    "S", "{% block b %}S{% endblock %}", "{% macro m() %}S{% endmacro %}", "{% for j in y %}S{% endfor %}",
    "{% for j in y %}{% else %}S{% endfor %}", "{% for j in y if j recursive %}S{% endfor %}", "{% if z %}S{% endif %}",
    "{% if z %}{% else %}S{% endif %}", "{% if z %}{% elif w %}S{% endif %}", "{% call m() %}S{% endcall %}",
    "{% filter lower %}S{% endfilter %}", "{% set u %}S{% endset %}", "{% with %}S{% endwith %}",
    "{% autoescape false %}S{% endautoescape %}", "S{% print %}", "{% print %}S",
]


# block-like tags with their modifiers x minimal bodies
MOD_TAGS = [
    ("{% block x %}", "{% endblock %}"), ("{% block x required %}", "{% endblock %}"), ("{% block x scoped %}", "{% endblock x %}"),
    ("{% block x scoped required %}", "{% endblock %}"), ("{% block x required scoped %}", "{% endblock %}"),
    ("{% for i in s %}", "{% endfor %}"), ("{% for i in s recursive %}", "{% endfor %}"), ("{% for i in s if i %}", "{% endfor %}"),
    ("{% for i in s if i recursive %}", "{% endfor %}"), ("{% for i, j in s %}", "{% else %}e{% endfor %}"),
    ("{% for i in s %}a{% else %}", "{% endfor %}"),
    ("{% if c %}", "{% endif %}"), ("{% if c %}a{% elif d %}", "{% else %}e{% endif %}"), ("{% if c %}a{% else %}", "{% endif %}"),
    ("{% macro m() %}", "{% endmacro %}"), ("{% macro m(a=1) %}", "{% endmacro m %}"), ("{% macro m(a, b=a) %}", "{% endmacro %}"),
    ("{% call m() %}", "{% endcall %}"), ("{% call(a, b=1) m(1, k=2) %}", "{% endcall %}"),
    ("{% set v %}", "{% endset %}"), ("{% set v | upper %}", "{% endset %}"), ("{% set v | replace('a', y) | trim %}", "{% endset %}"),
    ("{% filter upper %}", "{% endfilter %}"), ("{% filter replace('a', y)|trim %}", "{% endfilter %}"),
    ("{% with %}", "{% endwith %}"), ("{% with a=1 %}", "{% endwith %}"), ("{% with a=1, b=a %}", "{% endwith %}"),
    ("{% autoescape true %}", "{% endautoescape %}"), ("{% autoescape e %}", "{% endautoescape %}"),
    ("{% trans %}", "{% endtrans %}"), ("{% trans trimmed %}", "{% endtrans %}"), ("{% trans notrimmed a=1 %}", "{% endtrans %}"),
    ("{% trans count=n %}", "{% pluralize %}p{% endtrans %}"), ("{% trans count=n %}s{% pluralize count %}", "{% endtrans %}"),
    ("{% raw %}", "{% endraw %}"),
]
MOD_BODIES = ["", " ", "\n  \n", "{# c #}", " {# c #} ", "text", "{{ y }}", " {{ y }} ", "{{ y }}{{ z }}", "{% set z = 1 %}",
              "{% block n %}{% endblock %}", "{% block n required %}{% endblock %}", "{% if y %}t{% endif %}", "{% include 'a' %}",
              "{% print %}", "{% for q in y %}{% endfor %}", "{% raw %}{% endraw %}", "{{ y|upper }}", "{{ super() }}", "{{ caller() }}",
              "{{ loop.index }}", "%", "%(y)s", "{{ y }}%{{ y }}"]
MOD_OUTER = ["S", "{% extends 'a' %}S", "{% if x %}{% extends 'a' %}{% endif %}S", "{% block o %}S{% endblock %}",
             "{% extends 'a' %}{% block o %}S{% endblock %}", "{% macro w() %}S{% endmacro %}", "{% for u in t %}S{% endfor %}",
             "{% call w() %}S{% endcall %}"]


def modifier_cases(level=1):
    out = []
    for outer in (MOD_OUTER if level else MOD_OUTER[:3]):
        for o, c in MOD_TAGS:
            for b in MOD_BODIES:
                out.append(outer.replace("S", o + b + c))
    return out


def empty_cases(level):
    """level 2: two container levels (thorough); 1: one level, everything
    (quick, default configuration); 0: one level, the first three surroundings /
    extends prefixes only (quick, other configurations)."""
    out = modifier_cases(level)
    conts = list(EMPTY_CONTAINERS)
    if level >= 2:
        conts += [a.replace("S", b) for a in EMPTY_CONTAINERS[1:14] for b in EMPTY_CONTAINERS[1:14]]
    for pre in (EMPTY_PREFIXES if level else EMPTY_PREFIXES[:3]):
        for c in conts:
            for st in EMPTY_STATEMENTS:
                out.append(pre + c.replace("S", st))
    return out


@guarded
def shard_empty(arg, p):
    ci, two, part, nparts = arg
    chk = Checker(p, ci, "E")
    cases = empty_cases(two)
    try:
        for i in range(part, len(cases), nparts):
            chk.check(translate_source(ci, cases[i]))
        p.sample({"space": "E", "config": chk.cfg, "source": translate_source(ci, cases[part * 7 % len(cases)])}, cap=1)
    finally:
        p.count("cases_empty_bodies", p.evals)


# --------------------------------------------------------------------------
# (i) left-stripping tags after blank lines, followed by a malformed tag
#
# Whitespace control removes newlines that the lexer still has to count; a
# miscount shows as a TemplateSyntaxError line outside the source.  Every tag
# kind with "-" on its left (and the right-stripping forms) is put after 0-3
# blank lines, repeated 1-3 times, and followed by a syntax fault at the end
# of the source.

STRIP_TAGS = [
    "{#- c #}", "{#- c -#}", "{# c -#}", "{#- c1\nc2 #}", "{#--#}",
    "{%- raw %}r{% endraw %}", "{% raw %}r{%- endraw %}", "{%- raw -%}\nr\n{%- endraw -%}", "{% raw %}\n\n{%- endraw %}",
    "{%- if a %}{% endif %}", "{% if a %}\n{%- endif %}", "{%- if a -%}\n\n{%- endif -%}", "{%- set a = 1 %}", "{%- set a = 1 -%}",
    "{{- a }}", "{{- a -}}", "{{ a -}}", "{%- for i in a %}\n{{- i -}}\n{%- endfor %}", "{%+ if a %}{% endif %}", "{#+ c #}",
    "{%- block b %}\n{%- endblock %}", "{%- macro m() -%}\n{%- endmacro -%}",
]
STRIP_FAULTS = ["", "{{ 1 + }}", "{% nosuchtag %}", "{{ ) }}", "{{- 1 + }}", "{%- nosuchtag %}", "{#- open", "{% raw %}open", "{{ 'open"]


def strip_cases(ci, full=True):
    """full=False (quick): 1-2 repetitions, 2 leads, 2 separators."""
    out = []
    tags = list(STRIP_TAGS)
    if CONFIGS[ci][0] == "line":
        tags += ["##- c", "## c", "#- if a\n# endif", "# if a\n#- endif", "##- c1\n##- c2"]
    for tag in tags:
        for blanks in range(0, 4):
            for rep in ((1, 2, 3) if full else (1, 2)):
                unit = "\n" * blanks + tag
                for lead in (("x", "", "x  ") if full else ("x", "")):
                    for fault in STRIP_FAULTS:
                        for sep in (("\n", "", "\n\n  ") if full else ("\n", "")):
                            out.append(lead + unit * rep + sep + fault)
    return out


@guarded
def shard_strip(arg, p):
    ci, part, nparts, full = arg
    chk = Checker(p, ci, "W")
    cases = strip_cases(ci, full)
    try:
        for i in range(part, len(cases), nparts):
            chk.check(translate_source(ci, cases[i]))
        p.sample({"space": "W", "config": chk.cfg, "source": translate_source(ci, cases[part * 11 % len(cases)])}, cap=1)
    finally:
        p.count("cases_strip_then_fault", p.evals)


# --------------------------------------------------------------------------
# (j) loop controls in every placement
#
# break / continue x {loop body, else branch, if nested in either} x loop kind
# {plain, recursive, filtered, filtered recursive} inside <= 2 levels of
# {body or else branch of a loop of each kind, macro, block, call block,
# filter block}.  A recursive loop and a loop's else branch are separate
# Python functions / not loop bodies: the places where a stray Python
# `break` would be rejected by compile().

LOOP_KINDS = [("{% for i in s %}", "plain"), ("{% for i in s recursive %}", "rec"), ("{% for i in s if i %}", "filt"),
              ("{% for i in s if i recursive %}", "filtrec")]
CTL_PLACEMENTS = ["L C {% endfor %}", "L x {% else %} C {% endfor %}", "L {% if c %} C {% endif %} {% endfor %}",
                  "L x {% else %} {% if c %}a{% else %} C {% endif %} {% endfor %}"]
CTL_CONTAINERS = (
    [(o + " S {% endfor %}") for o, _ in LOOP_KINDS] + [(o + " x {% else %} S {% endfor %}") for o, _ in LOOP_KINDS]
    + ["{% macro m() %} S {% endmacro %}", "{% block b %} S {% endblock %}", "{% call m() %} S {% endcall %}",
       "{% filter upper %} S {% endfilter %}"])


def loopctl_cases():
    outers = ["S"] + CTL_CONTAINERS + [a.replace("S", b.replace("block b", "block b2")) for a in CTL_CONTAINERS for b in CTL_CONTAINERS]
    out = []
    for outer in outers:
        for lopen, _ in LOOP_KINDS:
            for place in CTL_PLACEMENTS:
                for ctl in ("{% break %}", "{% continue %}"):
                    out.append(outer.replace("S", place.replace("L", lopen.replace(" i ", " j ")).replace("C", ctl)))
    return out


@guarded
def shard_loopctl(arg, p):
    ci, part, nparts = arg
    chk = Checker(p, ci, "K")
    cases = loopctl_cases()
    try:
        for i in range(part, len(cases), nparts):
            chk.check(translate_source(ci, cases[i]))
        p.sample({"space": "K", "config": chk.cfg, "source": cases[part * 13 % len(cases)]}, cap=1)
    finally:
        p.count("cases_loop_controls", p.evals)


# --------------------------------------------------------------------------
# (k) constant expressions whose compile-time folding fails
#
# The optimizer evaluates constant subexpressions while loading; whatever
# that evaluation raises must not escape.  Unhashable dict keys, arithmetic
# and lookup errors, and filters / tests applied to unsuitable constants, in
# every position where an expression is folded.

FOLD_EXPRS = [
    "{[1]: 2}", "{{}: 1}", "{(1, []): 2}", "{[]: []}", "{1: {[1]: 2}}", "[{[1]: 2}]", "({[1]: 2},)", "{[1]: 2, 'a': 1}",
    "1 / 0", "1 // 0", "1 % 0", "0 ** -1", "2 ** -1", "'a' + 1", "1 + 'a'", "-'a'", "+[]", "'a' * -1", "[] < {}", "1 < 'a'",
    "1 in 2", "'a' in 1", "[1][5]", "{}['k']", "'a'.b", "none.x", "{}.x.y", "(1).real", "[1, 2][::0]", "'%s %s' % 1", "'%d' % 'a'",
    "true + none", "1 ~ none", "[]|first", "''|first", "[]|last", "[]|min", "[]|max", "1|join", "1|length", "none|length",
    "'a'|round", "'a'|abs", "[1, 'a']|sum", "[1, 'a']|sort", "{}|dictsort(by='x')", "'x'|indent('a')", "1|batch(0)|list",
    "[1]|slice(0)|list", "'a'|center('b')", "'a'|int(base=99)", "'a'|float|int", "1|list", "{}|items|first", "1|items",
    "'a'|truncate(-1)", "'a'|wordwrap(0)", "1|string|list|first|int", "[1]|map('nosuch')|list", "[1]|map(attribute=1)|list",
    "[1]|select('nosuch')|list", "1 is divisibleby(0)", "1 is sameas", "'a' is lt(1)", "[] is in(1)", "1 is nosuchtest",
    "range(0)[1]", "range(1, 0, 0)", "dict(1)", "1e999", "1e999 - 1e999", "-1e999 // 1", "10 ** 10 ** 2", "'a' * 10 ** 3|length",
    "[[]] * 3", "{'a': 1}.a", "{'a': 1}.items", "'a'.upper", "'%s'|format", "'%(a)s'|format(1)", "'{0}'.format()",
]
FOLD_POSITIONS = [
    "{{ E }}", "{% set x = E %}", "{% if E %}y{% endif %}", "{{ (E)|length }}", "{% set x = (E)|length %}", "{{ (E) is mapping }}",
    "{{ (E)[0] }}", "{{ (E).a }}", "{% for i in E %}{% endfor %}", "{{ 1 if E else 2 }}", "{{ f(E) }}", "{{ f(k=E) }}",
    "{% with w = E %}{% endwith %}", "{% macro m(a=E) %}{% endmacro %}", "{{ x|default(E) }}", "{% include E %}",
    "{{ (E) ~ 'a' }}", "{{ (E) in [1] }}", "{{ [E] }}", "{{ {'k': E} }}", "{{ {E: 1} }}", "{% set x %}{{ E }}{% endset %}",
    "{% filter default(E) %}x{% endfilter %}", "{% autoescape E %}x{% endautoescape %}", "{{ x[E] }}", "{{ x[E:] }}",
    "{{ not E }}", "{{ (E) and x }}", "{% for i in s if E %}{% endfor %}", "{% if x %}a{% elif E %}b{% endif %}",
]


def fold_cases():
    return [pos.replace("E", e) for pos in FOLD_POSITIONS for e in FOLD_EXPRS]


@guarded
def shard_fold(arg, p):
    ci, part, nparts = arg
    chk = Checker(p, ci, "F")
    cases = fold_cases()
    try:
        for i in range(part, len(cases), nparts):
            chk.check(translate_source(ci, cases[i]))
        p.sample({"space": "F", "config": chk.cfg, "source": cases[part * 17 % len(cases)]}, cap=1)
    finally:
        p.count("cases_constant_folding", p.evals)


def shard_any(job):
    kind, arg = job
    return {"long": shard_long, "exprs": shard_exprs, "strings": shard_strings, "corpus": shard_corpus,
            "shapes": shard_shapes, "numbers": shard_numbers, "empty": shard_empty, "strip": shard_strip, "loopctl": shard_loopctl,
            "fold": shard_fold}[kind](arg)


# --------------------------------------------------------------------------


def run(ctx: core.Ctx):
    global CORPUS, HANGS, HANGS_LOCK
    core.import_all_jinja()
    HANGS = multiprocessing.get_context("fork").RawValue("i", 0)
    HANGS_LOCK = multiprocessing.get_context("fork").Lock()
    CORPUS = harvest()
    if len(CORPUS) < 300:
        raise core.HarnessError(f"only {len(CORPUS)} template literals harvested from {core.REPO}/tests")
    q = ctx.quick
    ctx.rule = ("cases = every string of <= k fragments over the core alphabet and <= k2 fragments over the keyword "
                "alphabet (bare, and framed as '{% .. %}' / '{{ .. }}'), under no-separator joining and under "
                "space-between-adjacent-words joining; every distinct source at token-edit distance <= d (delete, "
                "duplicate, swap adjacent, replace by any keyword-alphabet fragment) of each test-suite template; "
                "every identifier (pair) in each signature/call shape; every long-run case (construct x length x tag position); "
                "every expression position x nested filter/test expression; every number spelling x literal position; every "
                "(extends prefix, container, empty statement); each under the listed configurations and "
                "through from_string, parse and compile(raw)+compile().  Non-trivial = the case loaded successfully "
                "or failed with a message that is not one of the lexer's (i.e. it got past tokenisation); distinct = "
                "distinct (outcome class, message with quoted names and numbers masked)")
    ctx.assumptions += [
        "a fresh Environment is built for every case; the lexer object is shared through jinja2's own lexer cache",
        "hang = no result after 3 s (long-run family: 2 s) of the worker's CPU time (ITIMER_VIRTUAL) and again after twice that when the "
        "case is repeated (a stalled or oversubscribed machine must not be mistaken for a hang); a hang that consumes no CPU (blocking) "
        "would not be seen - loading a template from a string does no I/O",
        "after 3 hangs in a shard or 8 in the run the remaining enumeration is abandoned and the run is reported as not exhaustive",
        "word fragments are joined both with no separator and with one blank between adjacent word-like fragments",
        "delimiter fragments of the alphabets, of the corpus tokens and of the shapes are translated to the configuration's delimiters; "
        "configurations with extra syntax get extra fragments (asp: < % > #; dollar: $; line: # ##; ext: do break continue debug trimmed notrimmed _)",
        "'got past the lexer' is decided from the error message text (lexer messages: unexpected char, unexpected closing bracket, "
        "missing end of comment/raw, invalid identifier, string-escape errors); used only for the distinct_nontrivial statistic",
        "out of scope: integer literals longer than the int/str digit limit, nesting deeper than the recursion limit",
        "space (b) of DESIGN (C02/C03 grammar templates) is exercised by those checks' own compile step, not here",
    ]
    k_def, k_oth = (4, 3) if q else (5, 4)
    k2 = 2 if q else 3
    bounds = {"core_alphabet": len(SIGMA1), "keyword_alphabet": len(SIGMA2), "k_default": k_def, "k_other_configs": k_oth,
              "k_keyword_alphabet": k2, "configs": [c[0] for c in CONFIGS],
              "corpus_seeds": len(CORPUS)}
    # (e) long runs and (f) expression positions
    nparts = 4
    jobs = [("long", (ci, part, nparts)) for ci in range(NCFG) for part in range(nparts)]
    jobs += [("exprs", (ci, part, 2)) for ci in range(NCFG) for part in range(2)]
    # (j) loop controls (extension configuration, sync and async), (k) constant folding
    jobs += [("loopctl", (ci, part, 4)) for ci in (CFG_INDEX["ext"], CFG_INDEX["extasync"]) for part in range(4)]
    jobs += [("fold", (ci, part, 2)) for ci in range(NCFG) for part in range(2)]
    bounds["loop_control_cases_per_config"] = len(loopctl_cases())
    bounds["constant_folding_cases_per_config"] = len(fold_cases())
    # (i) left-stripping tags followed by a fault
    jobs += [("strip", (ci, part, 3, not q)) for ci in range(NCFG) for part in range(3)]
    bounds["strip_then_fault_cases_per_config"] = len(strip_cases(0, not q))
    # (g) number spellings, (h) empty bodies
    kn = {ci: ((3 if ci == 0 else 2) if q else (4 if ci == 0 else 3)) for ci in range(NCFG)}
    jobs += [("numbers", (ci, kn[ci], first)) for ci in range(NCFG) for first in range(len(NUM_ALPHABET))]
    bounds["k_number_spellings"] = {CONFIGS[ci][0]: kn[ci] for ci in kn}
    bounds["number_alphabet"] = len(NUM_ALPHABET)
    for ci in range(NCFG):
        two = 2 if not q else (1 if ci == 0 else 0)
        ncases = len(empty_cases(two))
        parts = max(1, ncases // 3000)
        jobs += [("empty", (ci, two, part, parts)) for part in range(parts)]
        bounds.setdefault("empty_body_cases", {})[CONFIGS[ci][0]] = ncases
    bounds["long_run_lengths"] = list(LONG_N)
    bounds["long_run_cases_per_config"] = len(long_cases(0))
    bounds["expr_position_cases_per_config"] = len(expr_cases())

    shards = []
    tuples = 0
    for ci in range(NCFG):
        k = k_def if ci == 0 else k_oth
        if not q and CONFIGS[ci][0] in ("async", "sandbox"):
            k = k_oth - 1  # same lexer and parser as the default configuration; only code generation differs
        bounds.setdefault("k_core_alphabet", {})[CONFIGS[ci][0]] = k
        shards += string_shards(ci, 1, k)
        n1 = len(alphabet(ci, 1))
        tuples += string_count(n1, k)
        if k >= 5:
            # maximal-length tuples without a tag opener are outside the declared bound
            tuples -= (n1 - 3) ** k
            bounds["k5_restricted_to_tuples_with_a_tag_opener"] = n1 ** k - (n1 - 3) ** k
        shards += string_shards(ci, 2, k2)
        tuples += string_count(len(alphabet(ci, 2)), k2)
        # framed keyword strings: full bound in the configurations that change the tag syntax, one less elsewhere
        kf = k2 if (q or CONFIGS[ci][0] in ("default", "asp", "line", "ext")) else k2 - 1
        bounds.setdefault("k_keyword_framed", {})[CONFIGS[ci][0]] = kf
        for frame in ("block", "var"):
            shards += string_shards(ci, 2, kf, frame)
            tuples += string_count(len(alphabet(ci, 2)), kf)
    bounds["fragment_tuples"] = tuples
    jobs += [("strings", s) for s in shards]

    # (c) mutations
    n = len(CORPUS)
    cshards = []
    d1 = {ci: (n if ci == 0 else (40 if q else 300)) for ci in range(NCFG)}
    if q:
        d1[0] = min(n, 300)
    d2 = {ci: (0 if q else (60 if ci == 0 else 15)) for ci in range(NCFG)}
    for ci in range(NCFG):
        ids = list(range(d2[ci], d1[ci]))  # the first d2 seeds are covered at d = 2 (which includes d <= 1)
        for i in range(0, len(ids), 6):
            cshards.append((ci, ids[i:i + 6], 1))
        for i in range(d2[ci]):
            cshards.append((ci, [i], 2))
    bounds["d1_shortest_seeds"] = {CONFIGS[ci][0]: d1[ci] for ci in d1}
    bounds["d2_shortest_seeds"] = {CONFIGS[ci][0]: d2[ci] for ci in d2}
    bounds["max_seed_tokens_d1_default"] = sum(1 for t in _seed_tok.findall(CORPUS[d1[0] - 1]) if not t.isspace())
    jobs += [("corpus", s) for s in cshards]

    # (d) shapes
    step = 1500
    sshards = []
    for ci in range(NCFG):
        full = 2 if not q else (1 if ci == 0 else 0)
        total = len(all_shapes(full))
        sshards += [(ci, full, lo, min(total, lo + step)) for lo in range(0, total, step)]
        bounds.setdefault("shape_cases", {})[CONFIGS[ci][0]] = total
    jobs += [("shapes", s) for s in sshards]
    # one pool for everything: forking a worker costs about a second of page-fault time on this kind of machine
    ctx.pmap(shard_any, jobs)
    done = sum(v for k, v in ctx.counters.items() if k.startswith("cases_strings_"))
    if done < tuples and not ctx.counters.get("shards_cut_short"):
        raise core.HarnessError(f"fragment strings: {done} cases for {tuples} tuples")
    bounds["identifiers"] = len(IDS)
    ctx.cov["bounds"] = bounds
    if ctx.counters.get("timeouts_not_reproduced"):
        ctx.assumptions.append(f"{ctx.counters['timeouts_not_reproduced']} case(s) hit the CPU alarm once and finished normally when repeated (machine stall)")
    if ctx.counters.get("shards_cut_short"):
        ctx.cap_hit(f"{ctx.counters['shards_cut_short']} shard(s) stopped enumerating after {HANGS_PER_SHARD} hangs in the shard "
                    f"or {HANGS_PER_RUN} in the run ({HANGS.value} hangs reported)")
