"""C34 — native rendering returns native values as documented (R-native = documented native_concat contract)."""
from __future__ import annotations

import ast
import asyncio
import datetime
import decimal
import fractions
import itertools
import math

from vf import core

META = {
    "level": "exploration",
    "engine": "E1",
    "technique": "bounded-exhaustive enumeration of single-expression templates over a value menu and of all piece "
    "sequences up to a length bound over a 9-piece alphabet, rendered through NativeEnvironment in three modes, against "
    "the documented native_concat contract (identity for a single non-string node, ast.literal_eval of the text otherwise)",
    "text": "Single node: 8 template shapes that produce exactly one output node x a menu of ~110 values (ints, big ints, "
    "floats incl. inf/nan/-0.0, strings that look like literals or almost do, bytes, containers, None, booleans, plain "
    "objects, callables, Markup, undefined) must return the value itself (identity) when it is not a string and the "
    "literal value of the string / the string itself otherwise.  Multi node: every sequence of <= 4 (thorough 5) pieces "
    "from {1, space, +, [, ], 'a', comma, {{ x }}, {{ s }}} x 6 contexts must return ast.literal_eval of the concatenated "
    "text when Python reads it as a literal, the text otherwise; the same alphabet plus three constant pieces that render "
    "to the empty string ({{ '' }}, {{ \"\" ~ \"\" }}, {{ ''|string }}) one piece less deep, and every menu value next to "
    "such a piece (two nodes -> text, never identity); the extended alphabet is also rendered with finalize= (plain and "
    "@pass_context, repr-quoting str values: applies to expression values only, not to template text); every container "
    "result is mutated and the render repeated (must give a fresh, unchanged literal).  Block family: in-place block, "
    "self.b(), super() over one and two inheritance levels as the only output node x the value menu; filter blocks whose "
    "custom filter returns Decimal/Fraction/date/object/list/nan... as the only output node: identity.  Constant family: ~600 single-expression templates "
    "without variables whose value holds classes reachable from constants (alone, dict values/keys, lists, tuples, "
    "nested one level) must return the value built in Python, type-exactly.  Every case runs in a sync NativeEnvironment (render), an "
    "async-enabled one (render) and an async-enabled one (render_async under asyncio.run).",
    "note": "Reference = the docstring of native_concat / NativeTemplate.render and docs/nativetypes.rst; leading "
    "space/tab is not stripped before parsing and an empty template gives None (both calibrated from the tree).  "
    "One resource-limit input (3000 unary minus signs -> RecursionError inside ast.literal_eval) is included as a value.",
    "design_ref": "DESIGN.md §4 C34, §3 R-native",
}

MODES = ["sync-render", "async-render", "async-render_async"]


class Plain:
    """plain object: must come back as itself from a single node; prints as a literal-looking text otherwise."""

    def __init__(self, tag):
        self.tag = tag

    def __repr__(self):
        return "Plain(%r)" % (self.tag,)

    def __str__(self):
        return self.tag


def plain_function():
    return "called"


# ----------------------------------------------------------------------------- reference (R-native)

def literal_or_text(text):
    """docs: "If the result can be parsed with ast.literal_eval, the parsed value is returned. Otherwise, the string
    is returned." """
    if text[:1] in (" ", "\t"):
        # CALIBRATED: leading spaces/tabs are not stripped (ast.literal_eval alone would strip them since 3.10);
        # only a comment in native_concat says so.  Such a text is an IndentationError, hence not a literal.
        return text
    try:
        return ast.literal_eval(text)
    except (ValueError, SyntaxError, MemoryError, TypeError, RecursionError):
        # "Otherwise, the string is returned": also when evaluating the literal fails with TypeError (unhashable dict key
        # or set element) or RecursionError (operator nesting beyond the interpreter's limit) - never an exception
        return text


def canon(v):
    """structural identity of a result: type-exact, nan-safe, independent of set order."""
    t = type(v)
    if t in (list, tuple):
        return (t.__name__, tuple(canon(i) for i in v))
    if t in (set, frozenset):
        return (t.__name__, tuple(sorted((canon(i) for i in v), key=repr)))
    if t is dict:
        return ("dict", tuple((canon(k), canon(x)) for k, x in v.items()))
    if t is float:
        return ("float", "nan" if math.isnan(v) else repr(v))
    if t is complex:
        return ("complex", repr(v))
    return (t.__name__, repr(v))


# ----------------------------------------------------------------------------- rendering

def quote_strings(value):
    """finalize callable: repr-quotes str results (so they survive the literal parse), leaves everything else alone."""
    return repr(value) if isinstance(value, str) else value


def finalizer(name):
    if name is None:
        return None
    if name == "plain":
        return quote_strings
    from jinja2 import pass_context

    @pass_context
    def with_context(context, value):
        return quote_strings(value) if context.get("quote", True) else value

    return with_context


FINALIZERS = [None, "plain", "pass_context"]

# results of the custom filter `give`: objects that do not survive str() + literal_eval (or would come back as a copy)
GIVE = {"decimal": decimal.Decimal("1.5"), "fraction": fractions.Fraction(1, 3), "plain": Plain("7"),
        "list": [1, 2], "dict": {"a": 1}, "int": 2**70, "nan": float("nan"), "date": datetime.date(2020, 1, 2),
        "none": None, "bytes": b"x", "str-literal": "[1, 2]", "str-text": "plain text"}


def give(body, key):
    return GIVE[key]


def render(mode, src, ctx, fin=None, templates=None):
    """templates: dict for a DictLoader; src is then the name of the template to render."""
    from jinja2 import DictLoader
    from jinja2.nativetypes import NativeEnvironment

    kw = {} if fin is None else {"finalize": finalizer(fin)}
    if templates is not None:
        kw["loader"] = DictLoader(templates)
    try:
        env = NativeEnvironment(enable_async=mode != "sync-render", **kw)
        env.filters["give"] = give
        t = env.from_string(src) if templates is None else env.get_template(src)
        if mode == "sync-render":
            return ("val", t.render(**ctx))
        if mode == "async-render":
            return ("val", t.render(**ctx))
        return ("val", asyncio.run(t.render_async(**ctx)))
    except Exception as e:  # noqa: BLE001
        return ("exc", type(e).__name__, str(e)[:100])


SCRIPT = (
    "import asyncio\n"
    "from checks import c34\n"
    "args = %r\n"
    "mode, src, ctx_expr = args[:3]\n"
    "fin = args[3] if len(args) > 3 else None\n"
    "ctx = eval(ctx_expr, c34._ns())\n"
    "print('mode    :', mode, ' finalize:', fin)\nprint('source  :', repr(src))\nprint('context :', ctx_expr)\n"
    "templates = args[5] if len(args) > 5 else None\n"
    "if templates:\n    print('templates:', templates)\n"
    "out = c34.render(mode, src, ctx, fin, templates)\n"
    "print('result  :', out, type(out[1]).__name__ if out[0] == 'val' else '')\n"
    "if len(args) > 4:  # second render after the caller changed the first result\n"
    "    c34.mutate(out[1])\n"
    "    out2 = c34.render(mode, src, ctx, fin)\n"
    "    print('mutated :', out[1])\n    print('2nd     :', out2, 'same object' if out2[1] is out[1] else '')\n"
)


# ----------------------------------------------------------------------------- single-node templates

SINGLE_SHAPES = [
    "{{ x }}",
    "{{- x -}}",
    "{{ x }}\n",  # the single trailing newline is removed by the lexer (keep_trailing_newline=False)
    "{{ x }}{# comment #}",
    "{% if true %}{{ x }}{% endif %}",
    "{% for i in [1] %}{{ x }}{% endfor %}",
    "{% set y = x %}{{ y }}",
    "{{ x if true else 0 }}",
]

# x next to a constant output node that renders to nothing: two nodes, hence text, never identity
TWO_NODE_SHAPES = [
    "{{ x }}{{ '' }}",
    "{{ '' }}{{ x }}",
    '{{ x }}{{ "" ~ "" }}',
    "{{ x }}{{ ''|string }}",
    "{% if true %}{{ x }}{{ '' }}{% endif %}",
]

STRING_VALUES = [
    "", "1", "[1,2]", "None", " 1", "1 ", "\t1", "1\t", "\n1", "1\n", " [1]", "a", "'a'", '"a"', "1+1", "1,2", "1,",
    "True", "False", "true", "none", "{'a': 1}", "{1, 2}", "{}", "()", "(1)", "(1,)", "[", "]", "[]", "[1", "b'x'",
    "1e5", "1e309", "0x10", "0o7", "0b1", "1_000", "1__0", "01", "1.", ".5", "1j", "1+2j", "-1", "- 1", "+1", "--1",
    "~1", "not 1", "x", "[x]", "f''", "f'{1}'", "'a' 'b'", "'a''b'", "1 if 1 else 2", "__import__('os')", "2**3",
    "1 # comment", "# only a comment", "...", "Ellipsis", "1;2", "1\n2", "(\n1\n)", "[1,\n2]", "lambda: 1", "set()",
    "{1: {2: [3, (4, None)]}}", "'\\n'", "'\\x41'", "'''a'''", "\x001", "1\x00", "\ud800", "'\ud800'", "é",
    "'é'", "１", "nan", "inf", "-inf", "1e", "0x", "[1, 2, 3][0]", "(" * 300 + "1" + ")" * 300,
    # literal syntax whose evaluation fails: unhashable dict key / set element (TypeError), operator nesting beyond the
    # interpreter's recursion limit (RecursionError) - "otherwise, the string is returned"
    "{[1]: 2}", "{ {1: 2}: 3}", "{[1]}", "{1: {[2]: 3}}", "[{ {}: 1}]", "-" * 3000 + "1",
]

VALUE_EXPRS = [
    # (python expression building the value, evaluated in this module's namespace)
    "0", "1", "-1", "255", "2**64", "-(2**63)", "10**40",
    "0.0", "-0.0", "1.5", "1e16", "float('inf')", "float('-inf')", "float('nan')", "5e-324",
    "1j", "True", "False", "None", "Ellipsis", "NotImplemented",
    "b''", "b'x'", "bytearray(b'x')",
    "[]", "[1, 'a']", "[[1], [2]]", "()", "(1,)", "(1, 2)", "{}", "{'a': 1}", "{1: [2]}", "set()", "{1, 2}",
    "frozenset({1})", "range(3)",
    "Plain('7')", "Plain('[1]')", "Plain('p')", "plain_function", "Plain", "len",
    "Markup('<b>')", "Markup('1')", "Markup('[1, 2]')", "Markup('')",
    "Undefined(name='u')", "ChainableUndefined(name='u')", "DebugUndefined(name='u')", "StrictUndefined(name='u')",
]


def _ns():
    import jinja2
    from markupsafe import Markup

    ns = dict(globals())
    ns.update(Markup=Markup, Undefined=jinja2.Undefined, ChainableUndefined=jinja2.ChainableUndefined,
              DebugUndefined=jinja2.DebugUndefined, StrictUndefined=jinja2.StrictUndefined)
    return ns


def _exc_sig(mode, out, text):
    """a render that raises because evaluating the literal text raised (instead of falling back to the text) gets one
    signature per exception class, whatever the mode"""
    if isinstance(text, str) and out[1] in ("TypeError", "RecursionError"):
        try:
            ast.literal_eval(text)
        except (TypeError, RecursionError) as e:
            if type(e).__name__ == out[1]:
                return "C34/literal-eval-raises/" + out[1]
        except Exception:  # noqa: BLE001
            pass
    return f"C34/{mode}-{out[1].lower()}"


def single_shard(arg):
    kind, items = arg
    ns = _ns()
    p = core.Part()
    for item in items:
        for shape in SINGLE_SHAPES:
            for mode in MODES:
                if kind == "str":
                    value = item
                    ctx_expr = "{'x': %r}" % (item,)
                elif kind == "missing":
                    value = None
                    ctx_expr = "{}"
                else:
                    value = eval(item, ns)  # noqa: S307 - fixed menu above
                    ctx_expr = "{'x': %s}" % item
                ctx = {} if kind == "missing" else {"x": value}
                p.evals += 1
                out = render(mode, shape, ctx)
                if out[0] == "exc":
                    p.sig((mode, "exc", out[1]))
                    p.violation(_exc_sig(mode, out, value), {
                        "msg": f"{mode} {shape!r} with {ctx_expr[:80]}: raised {out[1]}: {out[2]}",
                        "script": SCRIPT % ((mode, shape, ctx_expr),)})
                    continue
                got = out[1]
                if kind == "str" or isinstance(value, str):
                    want = literal_or_text(str.__str__(value))
                    p.sig((mode, "string", type(want).__name__))
                    if canon(got) != canon(want) and not (isinstance(want, str) and isinstance(got, str) and got == want):
                        p.violation("C34/single/string-" + ("literal" if not isinstance(want, str) else "text"), {
                            "msg": f"{mode} {shape!r} with x={value!r}: got {got!r} ({type(got).__name__}), expected "
                                   f"{want!r} ({type(want).__name__})",
                            "script": SCRIPT % ((mode, shape, ctx_expr),)})
                    elif has_mutable(got):
                        rerender_after_mutation(p, mode, shape, ctx, ctx_expr, None, got, want)
                elif kind == "missing":
                    import jinja2

                    p.sig((mode, "missing", type(got).__name__))
                    if type(got) is not jinja2.Undefined or got._undefined_name != "x":
                        p.violation("C34/single/missing-name", {
                            "msg": f"{mode} {shape!r} without x: got {got!r} ({type(got).__name__}), expected the "
                                   f"Undefined object for 'x'", "script": SCRIPT % ((mode, shape, ctx_expr),)})
                else:
                    p.sig((mode, "identity", type(value).__name__))
                    if got is not value:
                        p.violation("C34/single/identity/" + type(value).__name__, {
                            "msg": f"{mode} {shape!r} with x={item}: got {got!r} ({type(got).__name__}), expected the "
                                   f"object itself", "script": SCRIPT % ((mode, shape, ctx_expr),)})
        # the same value next to an empty-string constant node: result = literal of str(value), or that text
        if kind == "missing":
            value, ctx, ctx_expr = None, {}, "{}"
            text = ""
        else:
            value = item if kind == "str" else eval(item, ns)  # noqa: S307
            ctx = {"x": value}
            ctx_expr = "{'x': %r}" % (item,) if kind == "str" else "{'x': %s}" % item
            try:
                text = str(value)
            except Exception:  # noqa: BLE001 - StrictUndefined refuses str(); not part of this family
                text = None
        if text is not None:
            want = literal_or_text(text)
            for shape in TWO_NODE_SHAPES:
                for mode in MODES:
                    p.evals += 1
                    out = render(mode, shape, ctx)
                    if out[0] == "exc":
                        p.sig((mode, "exc", out[1]))
                        p.violation(_exc_sig(mode, out, text), {
                            "msg": f"{mode} {shape!r} with {ctx_expr[:80]}: raised {out[1]}: {out[2]}",
                            "script": SCRIPT % ((mode, shape, ctx_expr),)})
                        continue
                    got = out[1]
                    p.sig((mode, "two-node", type(want).__name__, type(got).__name__))
                    if canon(got) != canon(want):
                        p.violation("C34/two-node/" + ("text" if isinstance(want, str) else "literal"), {
                            "msg": f"{mode} {shape!r} with {ctx_expr}: got {got!r} ({type(got).__name__}), expected "
                                   f"{want!r} ({type(want).__name__})", "script": SCRIPT % ((mode, shape, ctx_expr),)})
        p.sample({"kind": "single node", "value": item if kind != "str" else repr(item)[:60],
                  "shapes": len(SINGLE_SHAPES), "modes": MODES}, cap=1)
    return p


# ----------------------------------------------------------------------------- multi-node templates

PIECES = ["1", " ", "+", "[", "]", "'a'", ",", "{{ x }}", "{{ s }}"]
# constant expressions that render to the empty string: each is still an output node of its own
EMPTY_PIECES = ["{{ '' }}", '{{ "" ~ "" }}', "{{ ''|string }}"]
ALL_PIECES = PIECES + EMPTY_PIECES
_DYNAMIC = ("{{ x }}", "{{ s }}")
CONTEXT_EXPRS = [
    "{'x': 1, 's': 'a'}",
    "{'x': None, 's': '1'}",
    "{'x': [1, 2], 's': ' '}",
    "{'x': \"'q'\", 's': ''}",
    "{'x': 2.5, 's': ']'}",
    "{'x': Plain('7'), 's': '0'}",
]


def expected_multi(seq, ctx, fin=None):
    """Environment docstring, `finalize`: "A callable that can be used to process the result of a variable expression before it
    is output" - it applies to the values of expression pieces, never to template data."""
    f = quote_strings if fin else (lambda v: v)
    if not seq:
        return None  # CALIBRATED: a template without output nodes gives None (native_concat: "if not head: return None")

    def value_of(pc):
        return f(ctx["x"] if pc == "{{ x }}" else ctx["s"] if pc == "{{ s }}" else "")

    if len(seq) == 1 and (seq[0] in _DYNAMIC or seq[0] in EMPTY_PIECES):
        v = value_of(seq[0])
        return v if not isinstance(v, str) else literal_or_text(v)
    text = "".join(str(value_of(pc)) if (pc in _DYNAMIC or pc in EMPTY_PIECES) else pc for pc in seq)
    return literal_or_text(text)


def mutate(v):
    """what a caller may do with a result it owns: grow every mutable container in it."""
    if type(v) is list:
        for i in v:
            mutate(i)
        v.append("MUTATED")
    elif type(v) is dict:
        for i in v.values():
            mutate(i)
        v["MUTATED"] = 1
    elif type(v) is set:
        v.add("MUTATED")
    elif type(v) is tuple:
        for i in v:
            mutate(i)


def has_mutable(v):
    if type(v) in (list, dict, set):
        return True
    return type(v) is tuple and any(has_mutable(i) for i in v)


def rerender_after_mutation(p, mode, src, ctx, ctx_expr, fin, first, want):
    """the first result belongs to the caller: after the caller changed it, an equal render must still give the
    literal value of its text, in a new object."""
    mutate(first)
    p.evals += 1
    out = render(mode, src, ctx, fin)
    if out[0] == "exc" or out[1] is first or canon(out[1]) != canon(want):
        p.violation("C34/second-render/" + type(want).__name__, {
            "msg": f"{mode} {src!r} with {ctx_expr} finalize={fin}: after the caller changed the first result, the second "
                   f"render gave {out[1:]!r}{' (the same object)' if out[0] == 'val' and out[1] is first else ''}, expected "
                   f"{want!r}", "script": SCRIPT % ((mode, src, ctx_expr, fin, "twice"),)})
    p.count("second_renders_after_mutation")


def multi_shard(arg):
    """all piece sequences that start with `prefix` (only the prefix itself when exact_only)."""
    prefix, maxlen, exact_only, alphabet = arg
    pieces = PIECES if alphabet == "base" else ALL_PIECES
    # the environments with a finalize callable run over the extended alphabet (every sequence of it, not only those
    # with an empty-string piece); the base pass is without finalize
    fins = [None] if alphabet == "base" else FINALIZERS
    ns = _ns()
    contexts = [(e, eval(e, ns)) for e in CONTEXT_EXPRS]  # noqa: S307 - fixed menu above
    p = core.Part()
    if exact_only:
        seqs = [tuple(prefix)]
    else:
        seqs = [tuple(prefix) + rest for n in range(0, maxlen - len(prefix) + 1)
                for rest in itertools.product(pieces, repeat=n)]
    for seq in seqs:
        src = "".join(seq)
        dynamic = any(pc in _DYNAMIC for pc in seq)
        has_expr = dynamic or any(pc in EMPTY_PIECES for pc in seq)
        for fin in fins:
            if fin is None and alphabet == "ext" and not any(pc in EMPTY_PIECES for pc in seq):
                continue  # covered by the base alphabet at a larger bound
            for ctx_expr, ctx in (contexts if dynamic else contexts[:1]):
                want = expected_multi(seq, ctx, fin)
                for mode in MODES:
                    p.evals += 1
                    out = render(mode, src, ctx, fin)
                    if out[0] == "exc":
                        p.sig((mode, "exc", out[1]))
                        p.violation(f"C34/{mode}-{out[1].lower()}", {
                            "msg": f"{mode} {src!r} with {ctx_expr} finalize={fin}: raised {out[1]}: {out[2]}",
                            "script": SCRIPT % ((mode, src, ctx_expr, fin),)})
                        continue
                    got = out[1]
                    is_text = isinstance(want, str)
                    p.sig((mode, "multi", fin, type(want).__name__, type(got).__name__, len(seq) == 1))
                    if not is_text:
                        p.count("multi_cases_expected_literal")
                    single_identity = len(seq) == 1 and dynamic and not isinstance(ctx["x"], str) and seq[0] == "{{ x }}"
                    ok = (got is ctx["x"]) if single_identity else canon(got) == canon(want)
                    if not ok:
                        fam = "multi" if fin is None else "finalize"
                        p.violation(f"C34/{fam}/" + ("text" if is_text else "literal"), {
                            "msg": f"{mode} {src!r} with {ctx_expr} finalize={fin}: got {got!r} ({type(got).__name__}), "
                                   f"expected {want!r} ({type(want).__name__})" +
                                   ("" if has_expr or fin is None else " - template data only: finalize must not apply"),
                            "script": SCRIPT % ((mode, src, ctx_expr, fin),)})
                    elif not single_identity and has_mutable(got):
                        rerender_after_mutation(p, mode, src, ctx, ctx_expr, fin, got, want)
        if len(seq) == maxlen:
            p.sample({"kind": "multi node", "pieces": list(seq), "source": src,
                      "expected_with_first_context": repr(expected_multi(seq, contexts[0][1]))}, cap=1)
    return p


# ----------------------------------------------------------------------------- constant single-expression templates

# (template spelling, Python value): objects without a literal spelling that are reachable from constants, plus literals
CONST_ATOMS = [
    ("true.__class__", bool), ("(1).__class__", int), ("''.__class__", str), ("none.__class__", type(None)),
    ("(1.5).__class__", float), ("[].__class__", list),
    ("1", 1), ("'a'", "a"), ("none", None),
    # constant expressions whose value is a float without a literal spelling
    ("1e308 * 10", float("inf")), ("-1e308 * 10", float("-inf")), ("1e308 * 10 - 1e308 * 10", float("nan")),
]
CONST_SHAPES_1 = [
    ("%s", lambda a: a),
    ("[%s]", lambda a: [a]),
    ("(%s,)", lambda a: (a,)),
    ("{'k': %s}", lambda a: {"k": a}),
    ("{%s: 1}", lambda a: {a: 1}),
    ("[[%s]]", lambda a: [[a]]),
    ("[{'k': %s}]", lambda a: [{"k": a}]),
    ("{'k': [%s]}", lambda a: {"k": [a]}),
    ("{'k': {'j': %s}}", lambda a: {"k": {"j": a}}),
    ("([%s],)", lambda a: ([a],)),
    ("{'k': (%s,)}", lambda a: {"k": (a,)}),
    ("({'k': %s},)", lambda a: ({"k": a},)),
    ("{(%s,): 1}", lambda a: {(a,): 1}),
]
CONST_SHAPES_2 = [
    ("[%s, %s]", lambda a, b: [a, b]),
    ("(%s, %s)", lambda a, b: (a, b)),
    ("{'k': %s, 'j': %s}", lambda a, b: {"k": a, "j": b}),
    ("{%s: %s}", lambda a, b: {a: b}),
    ("{'k': (%s, %s)}", lambda a, b: {"k": (a, b)}),
    ("[{'k': %s}, %s]", lambda a, b: [{"k": a}, b]),
]
CONST_WRAPPERS = ["{{ E }}", "{{- E -}}", "{% if true %}{{ E }}{% endif %}"]


def const_cases():
    for fmt, build in CONST_SHAPES_1:
        for sa, va in CONST_ATOMS:
            yield fmt % sa, build(va), fmt == "%s"
    for fmt, build in CONST_SHAPES_2:
        for sa, va in CONST_ATOMS:
            for sb, vb in CONST_ATOMS:
                yield fmt % (sa, sb), build(va, vb), False


def const_shard(arg):
    lo, hi = arg
    p = core.Part()
    for expr, value, alone in list(const_cases())[lo:hi]:
        want = literal_or_text(value) if isinstance(value, str) else value
        for wrapper in CONST_WRAPPERS:
            src = wrapper.replace("E", expr)
            for mode in MODES:
                p.evals += 1
                out = render(mode, src, {})
                if out[0] == "exc":
                    p.sig((mode, "exc", out[1]))
                    p.violation(f"C34/{mode}-{out[1].lower()}", {
                        "msg": f"{mode} {src!r}: raised {out[1]}: {out[2]}", "script": SCRIPT % ((mode, src, "{}"),)})
                    continue
                got = out[1]
                p.sig((mode, "const", type(want).__name__, type(got).__name__))
                ok = canon(got) == canon(want)
                if ok and alone and isinstance(want, type):
                    ok = got is want
                if not ok:
                    fam = "const-nonfinite" if "1e308" in expr else "const"
                    p.violation(f"C34/{fam}/" + type(want).__name__, {
                        "msg": f"{mode} {src!r}: got {got!r} ({type(got).__name__}), expected {want!r} "
                               f"({type(want).__name__})", "script": SCRIPT % ((mode, src, "{}"),)})
        p.sample({"kind": "constant expression", "source": "{{ " + expr + " }}", "expected": repr(want)}, cap=1)
    return p


# ----------------------------------------------------------------------------- block references and filter blocks

BLOCK_TEMPLATES = {
    "in-place": "{% block b %}{{ x }}{% endblock %}",
    "self": "{% if false %}{% block b %}{{ x }}{% endblock %}{% endif %}{{ self.b() }}",
    "base": "{% block b %}{{ x }}{% endblock %}",
    "child": "{% extends 'base' %}{% block b %}{{ super() }}{% endblock %}",
    "grandchild": "{% extends 'child' %}{% block b %}{{ super() }}{% endblock %}",
    "grandchild-skip": "{% extends 'child' %}{% block b %}{{ super.super() }}{% endblock %}",
    "child-self": "{% extends 'base' %}{% block b %}{% if false %}{% block inner %}{{ x }}{% endblock %}{% endif %}"
                  "{{ self.inner() }}{% endblock %}",
}
BLOCK_ENTRY = ["in-place", "self", "child", "grandchild", "grandchild-skip", "child-self"]
FILTER_SHAPES = [
    "{% filter give(K) %}body{% endfilter %}",
    "{% filter give(K) %}{{ x }}{% endfilter %}",
    "{% filter upper|give(K) %}body{% endfilter %}",
    "{% if true %}{% filter give(K) %}{% endfilter %}{% endif %}",
]


def block_shard(arg):
    kind, items = arg
    ns = _ns()
    p = core.Part()
    if kind == "block":
        # the block (or the chain of super() calls) is the only output node: the value of {{ x }} comes back itself
        for item in items:
            value = eval(item, ns)  # noqa: S307 - fixed menu
            if isinstance(value, str):
                continue  # strings go through one literal evaluation per concat level; this family is about non-strings
            ctx_expr = "{'x': %s}" % item
            for name in BLOCK_ENTRY:
                for mode in MODES:
                    p.evals += 1
                    out = render(mode, name, {"x": value}, None, BLOCK_TEMPLATES)
                    script = SCRIPT % ((mode, name, ctx_expr, None, None, BLOCK_TEMPLATES)[:6],)
                    if out[0] == "exc":
                        p.sig((mode, "exc", out[1]))
                        p.violation(f"C34/block/{out[1]}", {
                            "msg": f"{mode} template {name!r} = {BLOCK_TEMPLATES[name]!r} with x={item}: raised {out[1]}: "
                                   f"{out[2]}", "script": script.replace("if len(args) > 4:", "if False:")})
                        continue
                    p.sig((mode, "block", name, type(value).__name__, out[1] is value))
                    if out[1] is not value:
                        p.violation("C34/block/identity", {
                            "msg": f"{mode} template {name!r} = {BLOCK_TEMPLATES[name]!r} with x={item}: got {out[1]!r} "
                                   f"({type(out[1]).__name__}), expected the object itself",
                            "script": script.replace("if len(args) > 4:", "if False:")})
            p.sample({"kind": "block reference", "templates": BLOCK_ENTRY, "value": item}, cap=1)
        return p
    # filter block as the only output node: the filter's result comes back itself
    for key in items:
        result = GIVE[key]
        for shape in FILTER_SHAPES:
            src = shape.replace("K", repr(key))
            for mode in MODES:
                p.evals += 1
                out = render(mode, src, {"x": 5})
                script = SCRIPT % ((mode, src, "{'x': 5}"),)
                if out[0] == "exc":
                    p.sig((mode, "exc", out[1]))
                    p.violation(f"C34/filter-block/{out[1]}", {
                        "msg": f"{mode} {src!r} (give -> {result!r}): raised {out[1]}: {out[2]}", "script": script})
                    continue
                got = out[1]
                p.sig((mode, "filter-block", key, type(got).__name__))
                if isinstance(result, str):
                    ok = canon(got) == canon(literal_or_text(result))
                else:
                    ok = got is result
                if not ok:
                    p.violation("C34/filter-block/" + ("string" if isinstance(result, str) else "identity"), {
                        "msg": f"{mode} {src!r}: got {got!r} ({type(got).__name__}), expected the filter's result "
                               f"{result!r} ({type(result).__name__}) itself", "script": script})
        p.sample({"kind": "filter block", "source": FILTER_SHAPES[0].replace("K", repr(key)), "filter_result": repr(result)},
                 cap=1)
    return p


def chunks(xs, n):
    k = max(1, (len(xs) + n - 1) // n)
    return [xs[i:i + k] for i in range(0, len(xs), k)]


def run(ctx: core.Ctx):
    core.import_all_jinja()
    maxlen = 4 if ctx.quick else 5
    ctx.rule = ("single node: every value of the menu x 8 one-node template shapes x 3 modes; multi node: every sequence "
                "of <= %d pieces x 6 contexts (1 when the sequence has no expression) x 3 modes; distinct = (mode, kind, "
                "type of the expected value, type of the returned value)" % maxlen)
    ctx.assumptions += [
        "reference: single non-string node -> the object itself (identity); otherwise ast.literal_eval(text) when it "
        "succeeds (ValueError/SyntaxError/MemoryError -> the text) - docstrings of native_concat and NativeTemplate.render",
        "CALIBRATED: text with a leading space or tab is never a literal (native_concat parses without stripping); trailing "
        "whitespace, newlines and comments are handled as Python does",
        "CALIBRATED: a template without any output node returns None",
        "a single node that is a str subclass (Markup) counts as a string",
        "block family: a block rendered in place, {{ self.b() }} and one/two levels of {{ super() }} (DictLoader) as the only "
        "output node return the non-string value of the block's single {{ x }} itself; string values are left out of this "
        "family because every concat level evaluates the text once more",
        "filter-block family: a {% filter %} block as the only output node returns the filter's non-string result itself "
        "(Decimal, Fraction, date, object, list, nan ...); a str result is evaluated like any single string node",
        "text whose literal evaluation raises TypeError (unhashable dict key / set element) or RecursionError (3000 unary "
        "minus signs) must come back as the text ('otherwise, the string is returned'), not as an exception",
        "a constant expression whose value is inf/-inf/nan (1e308 * 10) is a single non-string node like any other",
        "finalize (Environment docstring: 'process the result of a variable expression before it is output') applies to the values "
        "of expression pieces, constants included, never to template data; checked with a plain and a @pass_context "
        "finalize that repr-quote str values, over every sequence of the extended alphabet",
        "a result is the caller's: whenever a render returns a value holding a list/dict/set (not the context object "
        "itself), the check grows every container in it and renders the same source again in a fresh environment; the "
        "second result must be a new object equal to the literal value of the text",
        "a constant expression that renders to '' ({{ '' }}, {{ \"\" ~ \"\" }}, {{ ''|string }}) is an output node like any "
        "other: alone it returns '', next to {{ x }} it makes the template a two-node template (literal of str(x) or the text)",
        "constant family: single-expression templates without context variables whose value holds classes reached from "
        "constants (true.__class__ ...) alone, as dict values/keys, in lists/tuples, nested one level; reference value "
        "built in Python, compared type-exactly (identity for a lone class)",
        "a missing name in a single-node template returns the environment's Undefined object for that name",
        "the lexer's removal of one trailing newline (keep_trailing_newline=False) keeps '{{ x }}\\n' a single node",
        "render_async is driven by asyncio.run; render() in an async-enabled environment is called outside any event loop",
    ]
    ctx.pmap(single_shard, [("str", c) for c in chunks(STRING_VALUES, 12)] + [("value", c) for c in chunks(VALUE_EXPRS, 8)]
             + [("missing", ["<x not in context>"])])
    ctx.pmap(block_shard, [("block", c) for c in chunks(VALUE_EXPRS, 8)] + [("filter", c) for c in chunks(sorted(GIVE), 4)])
    n_const = len(list(const_cases()))
    ctx.pmap(const_shard, [(i, min(i + 40, n_const)) for i in range(0, n_const, 40)])
    extlen = maxlen - 1  # the alphabet with the three empty-string constant pieces goes one piece less deep
    if ctx.quick:
        shards = [((), maxlen, True, "base")] + [((pc,), maxlen, False, "base") for pc in PIECES]
        shards += [((pc,), extlen, False, "ext") for pc in ALL_PIECES]
    else:
        shards = [((), maxlen, True, "base")] + [((pc,), maxlen, True, "base") for pc in PIECES]
        shards += [((a, b), maxlen, False, "base") for a in PIECES for b in PIECES]
        shards += [((pc,), extlen, True, "ext") for pc in ALL_PIECES]
        shards += [((a, b), extlen, False, "ext") for a in ALL_PIECES for b in ALL_PIECES]
    ctx.pmap(multi_shard, shards)
    ctx.viol.sort(key=lambda sd: (len(sd[1].get("msg", "")), sd[1].get("msg", "")))  # keep the shortest failing case per signature
    if ctx.counters.get("multi_cases_expected_literal", 0) < 100:
        raise core.HarnessError("piece alphabet did not bite: almost no literal-valued concatenations")
    ctx.cov["bounds"] = {"pieces": PIECES, "max_pieces": maxlen, "empty_string_pieces": EMPTY_PIECES,
                         "max_pieces_with_empty_string_pieces": extlen, "two_node_shapes": TWO_NODE_SHAPES, "finalize_configurations": [str(f) for f in FINALIZERS],
                         "block_templates": BLOCK_TEMPLATES, "filter_block_shapes": FILTER_SHAPES,
                         "filter_results": sorted(GIVE), "contexts": CONTEXT_EXPRS, "modes": MODES,
                         "single_shapes": SINGLE_SHAPES, "constant_expressions": n_const,
                         "constant_wrappers": CONST_WRAPPERS, "string_values": len(STRING_VALUES),
                         "other_values": len(VALUE_EXPRS)}
