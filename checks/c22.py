"""C22 — collection filters satisfy their documented contracts (sync == async, arguments untouched)."""
from __future__ import annotations

import copy

from vf import core, filt
from vf.filt import O, Var

META = {
    "level": "exploration",
    "engine": "E1",
    "technique": "bounded-exhaustive enumeration of all short input sequences x argument tuples x container forms of "
    "every collection filter against executable specifications written from the filter docstrings (R-filt)",
    "text": "Every sequence of length <= 5 (thorough 6; 4-symbol alphabets one less) over small element alphabets "
    "(ints, mixed-case strings, dicts / attribute objects / nested dicts / tuples carrying one or two key attributes "
    "plus a position tag, None, values colliding with the fill value) is given as list, tuple, generator and - in an "
    "enable_async environment - async generator that really suspends, to batch, slice, unique, groupby, sort, dictsort, "
    "reverse, first, last, min, max, sum, join, list, length/count, map, select, reject, selectattr, rejectattr under "
    "every argument tuple of a small range.  Each application runs through four routes (sync/async environment x "
    "template source / Environment.call_filter); every route must equal the plain-Python specification (type-strict), "
    "and input and by-reference arguments must be unmodified afterwards (deep compare).",
    "note": "Bounded: sequence length, element alphabets and argument ranges as listed in coverage.bounds; one "
    "Environment pair per argument tuple (filters keep no state on it) instead of one per case; async routes are driven "
    "by a loop-free coroutine driver (no asyncio); filters without an async variant (batch, sort, reverse, min, max) see "
    "async generators only through |list; `last` and `length` are only given sized containers (documented); `random` "
    "is out of scope.",
    "design_ref": "DESIGN.md §4 C22 / C23 / C24",
}

MISSING = "<missing>"  # alphabet symbol: element without the (last part of the) key attribute
MISSFIRST = "<missing-first>"  # alphabet symbol: element lacking the FIRST part of a dotted path


class SpecRaises(Exception):
    """the documented behaviour is an exception of this class name."""


# =====================================================================================
# R-filt: reference model (plain Python from the docstrings in filters.py / templates.rst)
# =====================================================================================

class _Undef:
    def __repr__(self):
        return "UNDEF"


UNDEF = _Undef()  # "returns undefined"; canonicalised like a jinja Undefined


def low(v):
    return v.lower() if isinstance(v, str) else v


def lookup(item, part):
    """`attribute or key` of an element; integer parts index."""
    if isinstance(item, dict):
        return item.get(part, MISSING)
    if isinstance(item, (tuple, list)):
        if isinstance(part, int) and -len(item) <= part < len(item):
            return item[part]
        return MISSING
    if isinstance(part, str) and hasattr(item, part):
        return getattr(item, part)
    return MISSING


def key_of(item, attr, default=None):
    """dot notation for nested access; `default` replaces a missing attribute."""
    if attr is None:
        return item
    parts = attr.split(".") if isinstance(attr, str) else [attr]
    for n, part in enumerate(parts):
        if isinstance(part, str) and part.isdigit():
            part = int(part)
        item = lookup(item, part)
        if item is MISSING:
            if default is not None:
                return default  # "a default value to use if an object in the list does not have the given attribute"
            if n < len(parts) - 1:
                # looking something up on an undefined value is an error (templates.rst, "Variables")
                raise SpecRaises("UndefinedError")
            return UNDEF
    return item


def stable_sort(items, key, reverse=False):
    """insertion sort: the unique stable sorted permutation."""
    out, keys = [], []
    for it in items:
        k = key(it)
        j = 0
        while j < len(out) and not ((k > keys[j]) if reverse else (k < keys[j])):
            j += 1
        out.insert(j, it)
        keys.insert(j, k)
    return out


def spec_batch(xs, linecount, fill_with=None):
    # "returns a list of lists with the given number of items. If you provide a
    # second parameter this is used to fill up missing items."
    out = [xs[i:i + linecount] for i in range(0, len(xs), linecount)]
    if out and fill_with is not None:
        out[-1] = out[-1] + [fill_with] * (linecount - len(out[-1]))
    return out


def spec_slice(xs, slices, fill_with=None):
    # n columns, in order; the first len % n columns carry one more item; "if you
    # pass it a second argument it's used to fill missing values on the last
    # iteration" -> only the short columns of an uneven split get the filler.
    q, r = divmod(len(xs), slices)
    out, i = [], 0
    for c in range(slices):
        size = q + (1 if c < r else 0)
        col = xs[i:i + size]
        i += size
        if fill_with is not None and r and c >= r:
            col.append(fill_with)
        out.append(col)
    return out


def spec_unique(xs, case_sensitive=False, attribute=None):
    seen, out = [], []
    for x in xs:
        k = key_of(x, attribute)
        if not case_sensitive:
            k = low(k)
        if k not in seen:
            seen.append(k)
            out.append(x)
    return out


def spec_groupby(xs, attribute, default=None, case_sensitive=False):
    def k(x):
        v = key_of(x, attribute, default)
        return v if case_sensitive else low(v)

    order = []
    for x in xs:
        if k(x) not in order:
            order.append(k(x))
    order = stable_sort(order, lambda v: v)
    out = []
    for g in order:
        members = [x for x in xs if k(x) == g]
        # "The key for each group will have the case of the first item in that group"
        out.append((key_of(members[0], attribute, default), members))
    return out


def spec_sort(xs, reverse=False, case_sensitive=False, attribute=None):
    attrs = attribute.split(",") if isinstance(attribute, str) else [attribute]

    def k(x):
        vs = [key_of(x, a) for a in attrs]
        return vs if case_sensitive else [low(v) for v in vs]

    return stable_sort(xs, k, reverse)


def spec_dictsort(d, case_sensitive=False, by="key", reverse=False):
    pos = {"key": 0, "value": 1}[by]

    def k(item):
        return item[pos] if case_sensitive else low(item[pos])

    return stable_sort(list(d.items()), k, reverse)


def spec_reverse(xs):
    if isinstance(xs, str):
        return xs[::-1]
    return [xs[len(xs) - 1 - i] for i in range(len(xs))]


def spec_first(xs):
    return xs[0] if len(xs) else UNDEF


def spec_last(xs):
    return xs[len(xs) - 1] if len(xs) else UNDEF


def _extreme(xs, better, case_sensitive, attribute):
    if not xs:
        return UNDEF

    def k(x):
        v = key_of(x, attribute)
        return v if case_sensitive else low(v)

    best = xs[0]
    for x in xs[1:]:  # Python's min/max: the first extreme item encountered wins
        if better(k(x), k(best)):
            best = x
    return best


def spec_min(xs, case_sensitive=False, attribute=None):
    return _extreme(xs, lambda a, b: a < b, case_sensitive, attribute)


def spec_max(xs, case_sensitive=False, attribute=None):
    return _extreme(xs, lambda a, b: a > b, case_sensitive, attribute)


def spec_sum(xs, attribute=None, start=0):
    rv = start
    for x in xs:
        rv = rv + key_of(x, attribute)
    return rv


def spec_join(xs, d="", attribute=None):
    return str(d).join(str(key_of(x, attribute)) for x in xs)


def spec_list(xs):
    return [x for x in xs]


def spec_length(xs):
    n = 0
    for _ in xs:
        n += 1
    return n


def _apply_named_filter(name, x, args, kwargs):
    if name == "upper":
        return str(x).upper()
    if name == "string":
        return str(x)
    if name == "replace":
        return str(x).replace(*args)
    if name == "first":
        return x[0] if len(x) else UNDEF
    if name == "list":
        return list(x)
    if name == "length":
        return len(x)
    if name == "int":
        try:
            return int(x)
        except (TypeError, ValueError):
            return kwargs.get("default", 0)
    raise AssertionError(name)


def spec_map(xs, *args, **kwargs):
    if not args and "attribute" in kwargs:
        return [key_of(x, kwargs["attribute"], kwargs.get("default")) for x in xs]
    return [_apply_named_filter(args[0], x, args[1:], kwargs) for x in xs]


def _test(name, v, args):
    if name is None:
        return bool(v)
    if name == "odd":
        return v % 2 == 1
    if name == "even":
        return v % 2 == 0
    if name == "divisibleby":
        return v % args[0] == 0
    if name in ("equalto", "==", "eq"):
        return v == args[0]
    if name in ("lessthan", "lt"):
        return v < args[0]
    if name == "none":
        return v is None
    if name == "string":
        return isinstance(v, str)
    if name == "in":
        return v in args[0]
    raise AssertionError(name)


def _sel(xs, args, want, attr):
    if attr:
        a, args = args[0], args[1:]
    name, targs = (args[0], args[1:]) if args else (None, ())
    out = []
    for x in xs:
        v = key_of(x, a) if attr else x
        if bool(_test(name, v, targs)) == want:
            out.append(x)
    return out


def spec_select(xs, *args):
    return _sel(xs, args, True, False)


def spec_reject(xs, *args):
    return _sel(xs, args, False, False)


def spec_selectattr(xs, *args):
    return _sel(xs, args, True, True)


def spec_rejectattr(xs, *args):
    return _sel(xs, args, False, True)


SPECS = {
    "batch": spec_batch, "slice": spec_slice, "unique": spec_unique, "groupby": spec_groupby, "sort": spec_sort,
    "dictsort": spec_dictsort, "reverse": spec_reverse, "first": spec_first, "last": spec_last, "min": spec_min,
    "max": spec_max, "sum": spec_sum, "join": spec_join, "list": spec_list, "length": spec_length,
    "count": spec_length, "map": spec_map, "select": spec_select, "reject": spec_reject,
    "selectattr": spec_selectattr, "rejectattr": spec_rejectattr,
}

# filters whose result is an iterator (template route appends |list)
ITER_RESULT = {"batch", "slice", "unique", "reverse", "map", "select", "reject", "selectattr", "rejectattr"}
# filters that have an async variant (accept async iterables directly)
ASYNC_VARIANT = {"unique", "join", "first", "slice", "groupby", "sum", "list", "map", "select", "reject",
                 "selectattr", "rejectattr"}


def canon_expected(v):
    """canon() of a model value (UNDEF plays the role of jinja's Undefined)."""
    if v is UNDEF:
        return "<undefined>"
    if isinstance(v, list):
        return ("list", [canon_expected(x) for x in v])
    if isinstance(v, tuple):
        return ("tuple", [canon_expected(x) for x in v])
    return filt.canon(v)


# =====================================================================================
# element builders and configurations
# =====================================================================================

def build(kind, seq):
    """alphabet symbols -> list of fresh elements (each tagged with its position
    so that stability / first-occurrence are observable)."""
    out = []
    for i, s in enumerate(seq):
        if kind == "plain":
            out.append(s)
        elif kind == "lists":
            out.append(list(s))
        elif kind == "dict":
            d = {"pos": i}
            if s != MISSING:
                d["a"] = s
            out.append(d)
        elif kind == "obj":
            out.append(O(pos=i) if s == MISSING else O(a=s, pos=i))
        elif kind == "nested":
            if s == MISSFIRST:
                out.append({"pos": i})
            else:
                out.append({"a": {} if s == MISSING else {"b": s}, "pos": i})
        elif kind == "nestedobj":
            if s == MISSFIRST:
                out.append(O(pos=i))
            else:
                out.append(O(a=O() if s == MISSING else O(b=s), pos=i))
        elif kind == "tuple":
            out.append((s, i))
        elif kind == "list2":
            out.append([s, i])
        elif kind == "emptykey":
            out.append({"": s, "pos": i})
        elif kind == "pair":
            out.append({"a": s[0], "b": s[1], "pos": i})
        elif kind == "pairobj":
            out.append(O(a=s[0], b=s[1], pos=i))
        else:
            raise AssertionError(kind)
    return out


ATTR_FOR_KIND = {"dict": "a", "obj": "a", "nested": "a.b", "nestedobj": "a.b", "tuple": 0}

INTS = (0, 1, 2)
STRS = ("a", "A", "b")
PART = (0, "F", None)        # collides with the fill values used below
MIXU = (0, "a", "A", None)
KEYS = ("x", "X", "y")
LISTS = ((), (0,), (1, 2))


def configs():
    """(filter, args, kwargs, element kind, alphabet, forms, extra) — every argument tuple."""
    C = []

    def add(name, args=(), kwargs=None, kind="plain", alpha=INTS, forms=("list", "tuple", "gen", "agen"), big=False):
        C.append({"name": name, "args": tuple(args), "kwargs": dict(kwargs or {}), "kind": kind, "alpha": tuple(alpha),
                  "forms": tuple(forms), "big": big or len(alpha) > 3})

    for n in (1, 2, 3, 4):
        for fill in (None, "F", 0):
            a = (n,) if fill is None else (n, fill)
            add("batch", a, alpha=PART)
            add("slice", a, alpha=PART)
    add("batch", (2,), {"fill_with": "F"}, alpha=PART)
    add("slice", (2,), {"fill_with": "F"}, alpha=PART)
    for cs in (None, False, True):
        kw = {} if cs is None else {"case_sensitive": cs}
        add("unique", (), kw, alpha=STRS)
        add("unique", (), kw, alpha=MIXU)
        for kind in ("dict", "obj", "nested", "tuple"):
            add("unique", (), dict(kw, attribute=ATTR_FOR_KIND[kind]), kind=kind, alpha=KEYS)
        add("min", (), kw, alpha=STRS)
        add("max", (), kw, alpha=STRS)
        add("min", (), dict(kw, attribute="a"), kind="obj", alpha=KEYS)
        add("max", (), dict(kw, attribute="a"), kind="dict", alpha=KEYS)
        for kind in ("dict", "obj", "nested", "tuple"):
            add("groupby", (ATTR_FOR_KIND[kind],), kw, kind=kind, alpha=KEYS)
        add("groupby", ("a",), dict(kw, default="X"), kind="dict", alpha=KEYS + (MISSING,))
        add("groupby", ("a",), dict(kw, default="y"), kind="obj", alpha=KEYS + (MISSING,))
        add("groupby", ("a.b",), dict(kw, default="x"), kind="nested", alpha=("X", "y", MISSING))
        # dotted path: items lacking the first part / the last part / nothing
        add("groupby", ("a.b",), dict(kw, default="x"), kind="nested", alpha=("X", MISSING, MISSFIRST))
        add("groupby", ("a.b",), dict(kw, default="Y"), kind="nestedobj", alpha=("x", "y", MISSING, MISSFIRST))
    add("unique", (True,), alpha=STRS)
    add("unique", (False, "a"), kind="dict", alpha=KEYS)
    add("min", alpha=INTS)
    add("max", alpha=INTS)
    add("min", (), {"attribute": "a"}, kind="dict", alpha=INTS)
    add("max", (), {"attribute": "a"}, kind="obj", alpha=INTS)
    add("groupby", ("a",), kind="dict", alpha=INTS)
    add("groupby", (), {"attribute": "a"}, kind="obj", alpha=INTS)
    for rev in (None, False, True):
        for cs in (None, False, True):
            kw = {}
            if rev is not None:
                kw["reverse"] = rev
            if cs is not None:
                kw["case_sensitive"] = cs
            add("sort", (), kw, alpha=STRS)
            add("sort", (), dict(kw, attribute="a"), kind="dict", alpha=KEYS)
            add("sort", (), dict(kw, attribute="a"), kind="obj", alpha=KEYS)
            add("sort", (), dict(kw, attribute="a,b"), kind="pair", alpha=[(a, b) for a in ("x", "X") for b in (1, 0)])
            add("sort", (), dict(kw, attribute="b,a"), kind="pairobj", alpha=[(a, b) for a in (1, 0) for b in ("x", "X")])
            if cs is None:
                add("sort", (), kw, alpha=INTS)
                add("sort", (), dict(kw, attribute=0), kind="tuple", alpha=INTS)
                add("sort", (), dict(kw, attribute="a.b"), kind="nested", alpha=KEYS)
    add("sort", (True,), alpha=STRS)
    add("sort", (False, True), alpha=STRS)
    add("sort", (True, False, "a"), kind="dict", alpha=KEYS)
    for name in ("reverse", "first", "list"):
        add(name, alpha=PART)
        add(name, alpha=STRS, forms=("str",))
    for name in ("last", "length", "count"):
        add(name, alpha=PART, forms=("list", "tuple"))
        add(name, alpha=STRS, forms=("str",))
    add("sum", alpha=INTS)
    add("sum", (), {"start": 5}, alpha=INTS)
    add("sum", (None, 5), alpha=INTS)
    add("sum", (), {"start": 1.5}, alpha=INTS)
    add("sum", ("a",), kind="dict", alpha=INTS)
    add("sum", (), {"attribute": "a", "start": 5}, kind="obj", alpha=INTS)
    add("sum", (), {"attribute": "a.b"}, kind="nested", alpha=INTS)
    add("sum", (), {"start": Var("st", [9])}, kind="lists", alpha=LISTS)
    add("sum", (), {"attribute": "a", "start": Var("st", [9])}, kind="dict", alpha=([], [0], [1, 2]))
    for d in (None, ", ", "|"):
        a = () if d is None else (d,)
        add("join", a, alpha=(0, "a", None))
        add("join", a, {"attribute": "a"}, kind="dict", alpha=(0, "x", None))
        add("join", a, {"attribute": "a"}, kind="obj", alpha=(0, "x", None))
    add("join", (), {"d": "-"}, alpha=STRS)
    add("map", (), {"attribute": "a"}, kind="dict", alpha=(0, "x", MISSING))
    add("map", (), {"attribute": "a"}, kind="obj", alpha=(0, "x", MISSING))
    add("map", (), {"attribute": "a", "default": "D"}, kind="dict", alpha=(0, "x", MISSING))
    add("map", (), {"attribute": "a", "default": 0}, kind="obj", alpha=(1, "x", MISSING))
    add("map", (), {"attribute": "a.b", "default": "D"}, kind="nested", alpha=(0, "x", MISSING))
    add("map", (), {"attribute": 0}, kind="tuple", alpha=INTS)
    for kind in ("nested", "nestedobj"):
        add("map", (), {"attribute": "a.b", "default": "D"}, kind=kind, alpha=(0, MISSING, MISSFIRST))
        add("map", (), {"attribute": "a.b", "default": 0}, kind=kind, alpha=("x", 1, MISSING, MISSFIRST))
        add("map", (), {"attribute": "a.b"}, kind=kind, alpha=(0, MISSING, MISSFIRST))
    add("groupby", ("a.b",), {}, kind="nested", alpha=("x", "X", MISSFIRST))
    add("map", ("upper",), alpha=STRS)
    add("map", ("string",), alpha=(0, "a", None))
    add("map", ("replace", "a", "zz"), alpha=("a", "ba", "c"))
    add("map", ("int",), {"default": 7}, alpha=("1", "x", 2))
    add("map", ("first",), alpha=("ab", "", "c"))
    add("map", ("list",), alpha=("ab", "", "c"))
    add("map", ("length",), alpha=("ab", "", "c"))
    for name in ("select", "reject"):
        add(name, alpha=(0, 1, "", "a", None), big=True)
        add(name, ("odd",), alpha=INTS)
        add(name, ("even",), alpha=INTS)
        add(name, ("divisibleby", 2), alpha=INTS)
        add(name, ("equalto", 1), alpha=(0, 1, "1"))
        add(name, ("lessthan", 1), alpha=INTS)
        add(name, ("none",), alpha=PART)
        add(name, ("string",), alpha=PART)
        add(name, ("in", Var("pool", [0, "a"])), alpha=(0, "a", 1))
    # legal but falsy / unusual attributes: integer index 0 and 1 (tuple and list elements; index 1 is the position
    # tag) and the empty-string key, for every attribute-taking filter
    for kind, attr, alpha_s, alpha_i in (("tuple", 0, KEYS, INTS), ("list2", 0, KEYS, INTS), ("tuple", 1, KEYS, INTS),
                                         ("list2", 1, KEYS, INTS), ("emptykey", "", KEYS, INTS)):
        add("join", ("|", attr), kind=kind, alpha=alpha_s)
        add("join", (), {"attribute": attr}, kind=kind, alpha=(0, "x", None))
        add("map", (), {"attribute": attr}, kind=kind, alpha=alpha_s)
        add("map", (), {"attribute": attr, "default": "D"}, kind=kind, alpha=(0, "x", None))
        add("sum", (attr,), kind=kind, alpha=alpha_i)
        add("sum", (), {"attribute": attr, "start": 5}, kind=kind, alpha=alpha_i)
        add("sort", (), {"attribute": attr}, kind=kind, alpha=alpha_s)
        add("sort", (True, True, attr), kind=kind, alpha=alpha_s)
        add("unique", (), {"attribute": attr}, kind=kind, alpha=alpha_s)
        add("unique", (True, attr), kind=kind, alpha=alpha_s)
        add("min", (), {"attribute": attr}, kind=kind, alpha=alpha_s)
        add("max", (False, attr), kind=kind, alpha=alpha_i)
        add("groupby", (attr,), kind=kind, alpha=alpha_s)
        add("groupby", (), {"attribute": attr, "case_sensitive": True}, kind=kind, alpha=alpha_s)
        for name in ("selectattr", "rejectattr"):
            add(name, (attr,), kind=kind, alpha=(0, "x", None))
            add(name, (attr, "equalto", 1 if attr == 1 else "x"), kind=kind, alpha=alpha_s)
    for name in ("selectattr", "rejectattr"):
        add(name, ("a",), kind="dict", alpha=(0, "x", None))
        add(name, ("a",), kind="obj", alpha=(0, 1, ""))
        add(name, ("a", "equalto", "x"), kind="dict", alpha=KEYS)
        add(name, ("a", "none"), kind="obj", alpha=(0, "x", None))
        add(name, ("a.b", "odd"), kind="nested", alpha=INTS)
        add(name, (0, "lessthan", 2), kind="tuple", alpha=INTS)
        add(name, ("a", "in", Var("pool", ["x", "y"])), kind="dict", alpha=KEYS)
    return C


DICT_KEYS = ("a", "A", "b")


def dict_cases(thorough):
    """all dicts: every insertion order of every subset of the keys x every value tuple."""
    import itertools

    keys = DICT_KEYS + (("B",) if thorough else ())
    for n in range(0, len(keys) + 1):
        for ks in itertools.permutations(keys, n):
            for valpha in (("x", "X", "y"), (0, 1, 2)):
                for vs in itertools.product(valpha, repeat=n):
                    yield dict(zip(ks, vs))


def dictsort_configs():
    out = []
    for cs in (None, False, True):
        for by in (None, "key", "value"):
            for rev in (None, True):
                kw = {}
                if cs is not None:
                    kw["case_sensitive"] = cs
                if by is not None:
                    kw["by"] = by
                if rev is not None:
                    kw["reverse"] = rev
                out.append(((), kw))
    out += [((True,), {}), ((False, "value"), {}), ((True, "value", True), {})]
    return out


# =====================================================================================
# running one case
# =====================================================================================

def classify(cfg, mode, route, form, xs, exp, got, mutated):
    """stable, narrow violation signature."""
    name = cfg["name"]
    if mutated:
        return f"C22/{name}/mutates-{mutated}/{mode}"
    if isinstance(got, tuple) and got[0] == "raises":
        return f"C22/{name}/raises-{got[1]}/{mode}"
    if name == "slice":
        fill = cfg["args"][1] if len(cfg["args"]) > 1 else cfg["kwargs"].get("fill_with")
        n = cfg["args"][0]
        if fill is not None and len(xs) % n == 0:
            q = len(xs) // n
            spurious = [xs[c * q:(c + 1) * q] + [fill] for c in range(n)]
            if got == canon_expected(spurious):
                return "C22/slice/fill-appended-when-evenly-divisible"
    return f"C22/{name}/wrong-result/{mode}"


def script_for(cfg, mode, route, form, base, src, fresh):
    args = [a.value if isinstance(a, Var) else a for a in cfg["args"]]
    kwargs = {k: (a.value if isinstance(a, Var) else a) for k, a in cfg["kwargs"].items()}
    lines = ["import jinja2", filt.O_SOURCE.rstrip(), f"base = {base!r}"]
    for k, v in fresh.items():
        lines.append(f"{k} = {v!r}")
    lines.append(f"env = jinja2.Environment(enable_async={mode == 'async'})")
    wrapped = {"list": "base", "tuple": "tuple(base)", "gen": "(x for x in base)", "str": "''.join(base)",
               "same": "base", "agen": "agen()"}[form]
    if mode == "async":
        lines += ["import asyncio",
                  "async def agen():",
                  "    for x in base:",
                  "        await asyncio.sleep(0)",
                  "        yield x",
                  "async def main():",
                  f"    t = env.from_string('{{{{ rec(' + {src!r} + ') }}}}')",
                  f"    await t.render_async(xs={wrapped}, rec=lambda v: print('template route:', v), "
                  + "".join(f"{k}={k}, " for k in fresh) + ")",
                  "asyncio.run(main())"]
    else:
        lines += [f"print('template route:', env.compile_expression({src!r}, undefined_to_none=False)(xs={wrapped}, "
                  + "".join(f"{k}={k}, " for k in fresh) + "))",
                  f"r = env.call_filter({cfg['name']!r}, {wrapped}, {args!r}, {kwargs!r}, "
                  "context=env.from_string('').new_context({}))",
                  "print('call_filter route:', list(r) if hasattr(r, '__next__') else r)"]
    lines.append("print('input afterwards:', base" + "".join(f", {k}" for k in fresh) + ")")
    return "\n".join(lines) + "\n"


def run_config(p, cfg, inputs, sig_maxlen=3):
    name = cfg["name"]
    spec = SPECS[name]
    post = ("list",) if name in ITER_RESULT and cfg["forms"] != ("str",) else ()
    if name == "reverse" and cfg["forms"] == ("str",):
        post = ()
    routes = filt.Routes(name, cfg["args"], cfg["kwargs"], post=post)
    routes_pre = None
    vars_ = routes.vars
    plain_args = [a.value if isinstance(a, Var) else a for a in cfg["args"]]
    plain_kwargs = {k: (a.value if isinstance(a, Var) else a) for k, a in cfg["kwargs"].items()}
    made = []
    for seq in inputs:
        if cfg["kind"] == "same":
            base0 = seq
        else:
            base0 = build(cfg["kind"], seq)
        model_in = copy.deepcopy(base0)
        if cfg["forms"] == ("str",):
            model_in = "".join(model_in)
        try:
            exp = canon_expected(spec(model_in, *copy.deepcopy(plain_args), **copy.deepcopy(plain_kwargs)))
        except SpecRaises as e:
            exp = ("raises", str(e))
        except Exception as e:  # noqa: BLE001
            raise core.HarnessError(f"reference model failed on {name} {cfg['args']} {cfg['kwargs']} {base0!r}: {e!r}")
        if len(seq) <= sig_maxlen and len(seq) > 0:
            p.sig((name, repr(cfg["args"]), repr(sorted(cfg["kwargs"])), cfg["kind"], repr(exp)))
        for mode in ("sync", "async"):
            for form in cfg["forms"]:
                if form == "agen" and mode == "sync":
                    continue
                use = routes
                if form == "agen" and name not in ASYNC_VARIANT:
                    if routes_pre is None:
                        routes_pre = filt.Routes(name, cfg["args"], cfg["kwargs"], pre=("list",), post=post)
                    use = routes_pre
                for route in ("tpl", "call"):
                    base = copy.deepcopy(base0)
                    fresh = {v.name: copy.deepcopy(v.value) for v in vars_}
                    xs = filt.wrap(form, base, made)
                    got = filt.outcome(lambda: use.apply(mode, route, xs, fresh))
                    if made:
                        filt.close_agens(made)
                    p.evals += 1
                    mutated = None
                    if base != base0 or filt.canon(base) != filt.canon(base0):
                        mutated = "input"
                    for v in vars_:
                        if fresh[v.name] != v.value:
                            mutated = "argument-" + v.name
                    if got != exp or mutated:
                        sig = classify(cfg, mode, route, form, model_in, exp, got, mutated)
                        p.violation(sig, {
                            "msg": f"{use.src} [{mode} env, {route} route, input as {form}] on {base0!r}: got {got!r}, "
                                   f"expected {exp!r}" + (f"; {mutated} modified: {base!r} {fresh!r}" if mutated else ""),
                            "filter": name, "args": repr(cfg["args"]), "kwargs": repr(cfg["kwargs"]),
                            "input": repr(base0), "form": form, "mode": mode, "route": route,
                            "script": script_for(cfg, mode, route, form, base0, use.src,
                                                 {v.name: v.value for v in vars_}),
                        })
        if len(p.samples) < 2 and len(seq) >= 2:
            p.sample({"filter": name, "source": routes.src, "input": repr(base0), "forms": list(cfg["forms"]),
                      "expected": repr(exp)}, cap=2)
    p.count("configs", 1)


def shard(arg):
    kind, idx, maxlen = arg
    core.import_all_jinja()
    p = core.Part()
    if kind == "seq":
        cfg = configs()[idx]
        n = maxlen - 1 if cfg["big"] else maxlen
        with core.alarm(3000):
            run_config(p, cfg, filt.seqs(cfg["alpha"], n))
        p.count("sequences", filt.count_seqs(len(cfg["alpha"]), n))
    else:
        args, kwargs = dictsort_configs()[idx]
        cfg = {"name": "dictsort", "args": args, "kwargs": kwargs, "kind": "same", "alpha": (), "forms": ("same",),
               "big": False}
        ds = list(dict_cases(maxlen >= 6))
        with core.alarm(3000):
            run_config(p, cfg, ds, sig_maxlen=2)
        p.count("dicts", len(ds))
    return p


def run(ctx: core.Ctx):
    core.import_all_jinja()
    maxlen = 5 if ctx.quick else 6
    cfgs = configs()
    ctx.rule = ("one case = (filter, argument tuple, element kind, input sequence, container form, sync/async environment, "
                "template-source/call_filter route); all sequences up to the length bound over each alphabet are enumerated; "
                "non-trivial = non-empty input; distinct = distinct (filter, arguments, element kind, expected result) for "
                "inputs of length 1..3")
    ctx.assumptions += [
        "reference = plain-Python specifications written from the docstrings of jinja2/filters.py (templates.rst 'List of Builtin Filters' is generated from them)",
        "min/max return the first extreme element (Python's documented min/max tie rule)",
        "slice: the filler goes only into the short columns of an uneven split ('fill missing values')",
        "one Environment pair (sync, enable_async) per argument tuple, reused across inputs; async code is driven without an event loop, async generators suspend once per item",
        "elements carry a position tag so that stability and first-occurrence are observable",
    ]
    shards = [("seq", i, maxlen) for i in range(len(cfgs))] + [("dict", i, maxlen) for i in range(len(dictsort_configs()))]
    ctx.pmap(shard, shards)
    ctx.cov["bounds"] = {
        "max_sequence_length": maxlen, "max_sequence_length_4plus_symbol_alphabets": maxlen - 1,
        "argument_tuples": len(cfgs) + len(dictsort_configs()),
        "filters": sorted({c["name"] for c in cfgs} | {"dictsort"}),
        "container_forms": ["list", "tuple", "generator", "async generator", "str (reverse/first/last/list/length)", "dict (dictsort)"],
        "dict_keys": list(DICT_KEYS) + ([] if ctx.quick else ["B"]),
        "routes": ["sync/template", "sync/call_filter", "async/template", "async/call_filter"],
    }
