"""C32 — static template introspection over-approximates runtime behaviour."""
from __future__ import annotations

from vf import core, corpus

META = {
    "level": "exploration",
    "engine": "E1",
    "technique": "bounded-exhaustive enumeration of the shared program corpus rendered with a recording context class and a "
    "recording environment, compared with jinja2.meta's static answers",
    "text": "Every statement program x data assignment, inheritance chain and include/import scenario of the corpus is rendered "
    "in an environment whose context class records every resolve_or_missing(name) per template and whose "
    "get_template/select_template/get_or_select_template record every (requesting template, requested name).  For every "
    "template T of the item: the names T looked up at runtime must be a subset of find_undeclared_variables(parse(T)) "
    "plus the environment globals, and the templates T loaded must be a subset of find_referenced_templates(parse(T)) "
    "unless that yields None (unknown).  A second family places every kind of template reference (include, include list, "
    "ignore missing, import, from-import, dynamic names, extends) and variable use at every statement position (if / elif / "
    "else / for / for-else / filtered for / block / macro / call / filter / with / set block / autoescape), nested two deep.",
    "note": "Corpus bounds of vf/corpus.py.  Lookups are attributed to the template whose compiled code performs them (frame "
    "globals), from_string templates are not attributed; names injected by the runtime itself are not lookups of the template.",
    "design_ref": "DESIGN.md §4 C32",
}


def make_classes():
    import jinja2
    from jinja2.runtime import Context

    class RecContext(Context):
        log = None

        def resolve_or_missing(self, key):
            # attribute the lookup to the template whose compiled code asks (a parent's code runs with the
            # child's context, so Context.name would blame the child)
            import sys

            t = sys._getframe(1).f_globals.get("__jinja_template__")
            RecContext.log.append((t.name if t is not None else self.name, key))
            return super().resolve_or_missing(key)

    class RecEnv(jinja2.Environment):
        context_class = RecContext
        loads = None

        def get_template(self, name, parent=None, globals=None):
            if isinstance(name, (list, tuple)):
                names = tuple(n if isinstance(n, str) else "<object>" for n in name)
            else:
                names = (name,) if isinstance(name, str) else ("<object>",)
            RecEnv.loads.append((parent, names))
            return super().get_template(name, parent, globals)

        def select_template(self, names, parent=None, globals=None):
            ns = tuple(n if isinstance(n, str) else "<object>" for n in (names if not isinstance(names, str) else [names]))
            RecEnv.loads.append((parent, ns))
            return super().select_template(names, parent, globals)

    return RecContext, RecEnv


def judge(p, env, sources, log, loads, ident, kind):
    from jinja2 import meta

    static_vars, static_refs = {}, {}
    for name, src in sources.items():
        try:
            ast = env.parse(src)
        except Exception:  # noqa: BLE001
            continue
        static_vars[name] = meta.find_undeclared_variables(ast)
        static_refs[name] = list(meta.find_referenced_templates(ast))
    glob = set(env.globals)
    looked = {}
    for name, key in log:
        looked.setdefault(name, set()).add(key)
    for name, keys in looked.items():
        if name not in static_vars:
            continue  # from_string templates carry no name
        extra = keys - static_vars[name] - glob
        if extra:
            p.violation(f"C32/unreported-variable/{kind}", {
                "msg": f"{ident}: template {name!r} looked up {sorted(extra)} at runtime; find_undeclared_variables reports "
                       f"{sorted(static_vars[name])}; source {sources[name]!r}",
                "script": "import jinja2\nfrom jinja2 import meta\nsrc=%r\nprint(meta.find_undeclared_variables(jinja2.Environment(extensions=['jinja2.ext.loopcontrols']).parse(src)))\n" % sources[name]})
    for parent, names in loads:
        if parent is None or parent not in static_refs:
            continue
        refs = static_refs[parent]
        if None in refs:
            continue
        missing = [x for x in names if x not in refs]
        if missing:
            p.violation(f"C32/unreported-template/{kind}", {
                "msg": f"{ident}: template {parent!r} loaded {names} at runtime; find_referenced_templates reports {refs}; "
                       f"source {sources[parent]!r}",
                "script": "import jinja2\nfrom jinja2 import meta\nsrc=%r\nprint(list(meta.find_referenced_templates(jinja2.Environment().parse(src))))\n" % sources[parent]})
    return looked


def shard(arg):
    from jinja2 import meta

    tier, k, n = arg
    p = core.Part()
    RecContext, RecEnv = make_classes()
    for it in corpus.items(tier, shard=(k, n)):
        env, gm, data = corpus.safe_make(it, env_cls=RecEnv)
        if env is None:
            p.evals += 1
            p.count("items_not_buildable")
            continue
        RecContext.log, RecEnv.loads = [], []
        try:
            t = gm()
        except Exception:  # noqa: BLE001 - does not load: nothing to observe
            p.evals += 1
            continue
        RecContext.log, RecEnv.loads = [], []
        out = corpus.outcome(lambda: t.render(**data))
        log, loads = RecContext.log, RecEnv.loads
        RecContext.log, RecEnv.loads = [], []
        p.evals += 1
        looked = judge(p, env, dict(it.sources), log, loads, it.ident, it.kind)
        p.sig((it.kind, tuple(sorted((str(k2), len(v)) for k2, v in looked.items()))[:3], len(loads), isinstance(out, tuple)))
        p.sample({"item": it.ident, "lookups": {str(a): sorted(b) for a, b in looked.items()}, "loads": [[str(a), list(b)] for a, b in loads][:4]}, cap=1)
    return p

# ------------------------------------------------------------------ every statement position
WRAPS = [
    "{X}", "{% if c1 %}{X}{% endif %}", "{% if c0 %}a{% elif c1 %}{X}{% endif %}",
    "{% if c0 %}a{% elif c0 %}b{% elif c1 %}{X}{% else %}e{% endif %}", "{% if c0 %}a{% else %}{X}{% endif %}",
    "{% for i in one %}{X}{% endfor %}", "{% for i in none %}a{% else %}{X}{% endfor %}", "{% for i in one if c1 %}{X}{% endfor %}",
    "{% block b{N} %}{X}{% endblock %}", "{% macro m{N}() %}{X}{% endmacro %}{{ m{N}() }}",
    "{% macro w{N}() %}[{{ caller() }}]{% endmacro %}{% call w{N}() %}{X}{% endcall %}", "{% filter upper %}{X}{% endfilter %}",
    "{% with q = 1 %}{X}{% endwith %}", "{% set s{N} %}{X}{% endset %}{{ s{N} }}", "{% autoescape true %}{X}{% endautoescape %}",
]
PAYLOADS = [
    "{% include 'r1' %}", "{% include ['nx', 'r1'] %}", "{% include 'nx' ignore missing %}", "{% include ['nx', 'ny'] ignore missing %}",
    "{% import 'r1' as m %}{{ m.f() }}", "{% from 'r1' import f %}{{ f() }}", "{% from 'r1' import f with context %}{{ f() }}",
    "{% include rname %}", "{% include [rname, 'r2'] %}", "{% include 'r1' if c1 else 'r2' %}",
    "{{ v1 }}", "{{ v1|default(v2) }}{{ v9 is defined }}", "{% set v1 = v2 %}{{ v1 }}", "{{ v1 if c1 else v2 }}{% for v2 in one %}{{ v2 }}{% endfor %}",
]
EXT_WRAPS = ["{X}", "{% if c1 %}{X}{% endif %}", "{% if c0 %}a{% elif c1 %}{X}{% endif %}", "{% if c0 %}a{% else %}{X}{% endif %}"]
EXT_PAYLOADS = ["{% extends 'r2' %}", "{% extends rname %}", "{% extends ['nx', 'r2'] %}"]
POS_DATA = {"c0": False, "c1": True, "one": [1], "none": [], "v1": "a", "v2": "b", "v3": "c", "rname": "r1"}
POS_LIB = {"r1": "{% macro f() %}F{{ v3 }}{% endmacro %}R{{ v3 }}", "r2": "R2{% block bx %}{% endblock %}"}


def position_templates(depth):
    out = []
    for w1 in WRAPS:
        for w2 in (WRAPS if depth >= 2 else ["{X}"]):
            for x in PAYLOADS:
                out.append(w1.replace("{N}", "1").replace("{X}", w2.replace("{N}", "2").replace("{X}", x)))
    for w in EXT_WRAPS:
        for x in EXT_PAYLOADS:
            out.append(w.replace("{X}", x) + "{% block bx %}{{ v1 }}{% endblock %}")
    return list(dict.fromkeys(out))


def position_shard(arg):
    import jinja2

    k, n, depth = arg
    p = core.Part()
    RecContext, RecEnv = make_classes()
    for i, src in enumerate(position_templates(depth)):
        if i % n != k:
            continue
        sources = dict(POS_LIB, main=src)
        env = RecEnv(loader=jinja2.DictLoader(sources), extensions=["jinja2.ext.loopcontrols"])
        RecContext.log, RecEnv.loads = [], []
        try:
            t = env.get_template("main")
        except Exception:  # noqa: BLE001 - not a valid template (e.g. a block inside a macro call): nothing to observe
            p.evals += 1
            p.count("position_templates_not_compilable")
            continue
        RecContext.log, RecEnv.loads = [], []
        out = corpus.outcome(lambda: t.render(**POS_DATA))
        log, loads = RecContext.log, RecEnv.loads
        RecContext.log, RecEnv.loads = [], []
        p.evals += 1
        looked = judge(p, env, sources, log, loads, "position:" + src, "position")
        p.sig(("pos", src[:40], len(looked.get("main", ())), len(loads), isinstance(out, tuple)))
        p.sample({"template": src, "lookups": sorted(looked.get("main", ())), "loads": [[str(a), list(b)] for a, b in loads][:4]}, cap=1)
    return p


def dispatch(arg):
    return position_shard(arg[1]) if arg[0] == "p" else shard(arg[1])


def run(ctx: core.Ctx):
    core.import_all_jinja()
    ctx.rule = ("every corpus item (x data assignment); distinct = distinct (corpus kind, per-template lookup counts, number of "
                "loads, error?)")
    ctx.assumptions += ["a lookup is a call of Context.resolve_or_missing; a load is a call of Environment.get_template / "
                        "select_template with a `parent` (the requesting template's name)"]
    n = 64
    ctx.pmap(dispatch, [("c", (ctx.tier, k, n)) for k in range(n)] + [("p", (k, 16, 2)) for k in range(16)])
    ctx.cov["bounds"] = {"corpus": str(corpus.BOUNDS[ctx.tier])}
