"""C38 — exceptions from data propagate unchanged and leave the engine usable (E5)."""
from __future__ import annotations

from vf import core, e4, e5

META = {
    "level": "fault_enumeration",
    "engine": "E5",
    "technique": "exhaustive fault-position enumeration: a private exception object is raised at the k-th data event "
    "(call, iteration step, attribute, item, str/html conversion, len, bool) for every k of every template shape, sync "
    "and async, followed by clean re-renders in the same environment",
    "text": "For ~50 template shapes over instrumented data objects a clean run counts the N data events; for every "
    "k = 1..N the k-th event raises a private Boom instance: rendering must raise that very object (identity), through "
    "render, generate, render_async and generate_async; afterwards the same template and two others are rendered cleanly "
    "in the same environment and must equal their baselines.  The documented lookup signals (AttributeError/LookupError "
    "in lookups, StopIteration from a callable, failing capability tests) are injected as separate fault kinds with "
    "their documented outcome (undefined / false).  Thorough: additionally every pair (fault k in one render, fault j "
    "in the next render of another template).",
    "note": "Bounded: the template family and the event kinds of vf/e5.py proxies; one fault per render; async data "
    "functions complete without suspending (C36 covers suspension points).",
    "design_ref": "DESIGN.md §4 C38, §3 E5",
}

TEMPLATES = {
    "out_call": "a{{ f() }}b{{ g(1) }}c",
    "out_attr": "{{ o.a }}|{{ o['k'] }}|{{ o.b.a }}",
    "out_str": "[{{ s }}]{{ s ~ 'x' }}{{ '%s' % s }}{{ s|string }}",
    "out_html": "[{{ h }}]{{ h|escape }}{{ h|upper }}",
    "if_bool": "{% if t %}T{% else %}F{% endif %}{{ 'y' if t else 'n' }}{{ t and 1 }}{{ not t }}",
    "for_seq": "{% for x in seq %}{{ x }},{% endfor %}",
    "for_else": "{% for x in empty %}{{ x }}{% else %}E{% endfor %}",
    "for_loopvars": "{% for x in seq %}{{ loop.index }}/{{ loop.length }}{{ loop.last }}{{ loop.nextitem }};{% endfor %}",
    "for_filter": "{% for x in seq if x != f() %}{{ x }}{% endfor %}",
    "for_unsized": "{% for x in gen %}{{ x }}{{ loop.revindex }};{% endfor %}",
    "for_recursive": "{% for x in tree recursive %}{{ x.v }}{% if x.c %}({{ loop(x.c) }}){% endif %}{% endfor %}",
    "for_call_body": "{% for x in seq %}{{ g(x) }}{% endfor %}",
    "filter_join": "{{ seq|join(',') }}|{{ objs|join(',', attribute='a') }}",
    "filter_map": "{{ objs|map(attribute='a')|list }}{{ seq|map('string')|join }}",
    "filter_sort": "{{ objs|sort(attribute='a')|map(attribute='a')|list }}{{ seq|sort|list }}",
    "filter_len": "{{ seq|length }}{{ sized|length }}{{ seq|count }}",
    "filter_first": "{{ seq|first }}{{ lst|last }}{{ seq|list|length }}",
    "filter_sum": "{{ seq|sum }}{{ objs|sum(attribute='a') }}",
    "filter_groupby": "{% for k, v in objs|groupby('a') %}{{ k }}:{{ v|length }};{% endfor %}",
    "filter_select": "{{ seq|select('odd')|list }}{{ objs|selectattr('a')|list|length }}{{ seq|reject('odd')|list }}",
    "filter_unique": "{{ seq|unique|list }}{{ seq|min }}{{ seq|max }}{{ seq|list|reverse|list }}",
    "filter_batch": "{{ seq|batch(2)|list }}{{ seq|slice(2)|list }}",
    "filter_default": "{{ f()|default('d') }}{{ o.a|default('d') }}{{ missing|default(g(2)) }}",
    "filter_dictsort": "{{ d|dictsort }}{{ d|items|list }}{{ d|length }}",
    "filter_xmlattr": "<a{{ {'k': s, 'j': f()}|xmlattr }}>",
    "filter_tojson": "{{ {'a': f()}|tojson }}{{ s|string|tojson }}",
    "filter_replace": "{{ s|replace('s', g(3)) }}{{ s|trim }}{{ s|title }}",
    "macro_args": "{% macro m(a, b=f()) %}<{{ a }}{{ b }}>{% endmacro %}{{ m(g(1)) }}{{ m(o.a, s) }}",
    "macro_kwargs": "{% macro m() %}{{ varargs }}{{ kwargs|dictsort }}{% endmacro %}{{ m(f(), k=g(1)) }}",
    "call_block": "{% macro m() %}[{{ caller(f()) }}]{% endmacro %}{% call(v) m() %}{{ v }}{{ g(2) }}{% endcall %}",
    "set_block": "{% set v %}{{ f() }}{% endset %}{{ v }}{% set w = g(1) %}{{ w }}",
    "with": "{% with a = f(), b = o.a %}{{ a }}{{ b }}{% endwith %}",
    "filter_block": "{% filter upper %}{{ f() }}{{ s }}{% endfilter %}",
    "tests": "{{ f() is none }}{{ o.a is defined }}{{ seq is iterable }}{{ s is string }}{{ g(3) is odd }}",
    "is_sequence": "{{ sized is sequence }}",
    "in_op": "{{ 1 in seq }}{{ 'k' in d }}{{ f() in [1, 2] }}",
    "math": "{{ f() + g(1) }}{{ g(2) * 2 }}{{ -g(3) }}{{ g(4) // 2 }}",
    "compare": "{{ g(1) < g(2) < g(3) }}{{ f() == 1 }}",
    "slice": "{{ lst[g(0):g(2)] }}{{ lst[f()] }}{{ o['k'] }}",
    "dictlit": "{{ {'a': f(), 'b': [g(1), g(2)]} }}{{ (f(), g(1)) }}",
    "include": "<{% include 'inc' %}>{{ f() }}",
    "inc": "i{{ g(1) }}{{ o.a }}",
    "include_noctx": "<{% include 'incg' without context %}>{{ f() }}",
    "incg": "j{{ gf() }}",
    "import": "{% import 'lib' as l %}{{ l.lm(f()) }}{{ l.lv }}",
    "from_import": "{% from 'lib' import lm with context %}{{ lm(g(1)) }}",
    "lib": "{% macro lm(a) %}L{{ a }}{{ gf() }}{% endmacro %}{% set lv = gf() %}",
    "base": "B{% block a %}ba{{ f() }}{% endblock %}M{% block b %}bb{% endblock %}E{{ g(9) }}",
    "child": "{% extends 'base' %}{% block a %}ca{{ g(1) }}{{ super() }}{% endblock %}{% block b %}{{ o.a }}{% endblock %}",
    "dyn_extends": "{% extends parent() %}{% block a %}x{{ f() }}{% endblock %}",
    "autoescape_blk": "{% autoescape false %}{{ s }}{{ h }}{% endautoescape %}{{ s }}",
    "cond_expr": "{{ f() if t else g(1) }}{{ (g(2) if f() else g(3)) }}",
    "namespace": "{% set ns = namespace(v=f()) %}{% for x in seq %}{% set ns.v = ns.v + x %}{% endfor %}{{ ns.v }}",
    "getattr_chain": "{{ o.b.b.a }}{{ o.nope }}{{ o['nope'] }}|{{ o.b['k'] }}",
    "call_probe": "{{ pf() }}{{ pf(1) }}{% if t %}{{ pf(g(1)) }}{% endif %}",
    "filter_reverse": "{{ seq|reverse|list }}{{ gen|reverse|first }}{{ seq|reverse|join }}",
    "loop_cycle": "{% for x in seq %}{{ loop.cycle(f(), 'b') }}{{ loop.changed(g(x)) }}{% endfor %}",
}
HELPERS = {"inc", "incg", "lib", "base"}
ASYNC_ONLY = {
    "a_call": "{{ af() }}{{ af() ~ 'x' }}",
    "a_for": "{% for x in aseq %}{{ x }}{{ af() }}{% endfor %}",
    "a_for_loopvars": "{% for x in aseq %}{{ loop.length }}{{ loop.last }}{{ x }}{% endfor %}",
    "a_filters": "{{ aseq|list }}{{ aseq|join(',') }}{{ aseq|map('string')|list }}{{ aseq|first }}{{ aseq|sum }}",
    "a_select": "{{ aseq|select('odd')|list }}{{ aseq|reject('odd')|list }}{{ aseq|list|batch(2)|list }}",
    "a_for_filter": "{% for x in aseq if x != af() %}{{ x }}{% endfor %}",
}


class Node:
    def __init__(self, v, c=()):
        self.v, self.c = v, c


def mkdata(plan, async_=False):
    P = plan
    inner = e5.Obj(P, "o.b.b", attrs={"a": 5})
    ob = e5.Obj(P, "o.b", attrs={"a": 3, "b": inner}, items={"k": 4})
    d = {
        "f": e5.Fn(P, "f", 1),
        "g": e5.Fn(P, "g", lambda x: x),
        "parent": e5.Fn(P, "parent", "base"),
        "pf": e5.PFn(P, "pf", 1),
        "o": e5.Obj(P, "o", attrs={"a": 2, "b": ob}, items={"k": 7}),
        "s": e5.Str(P, "s", "s<t"),
        "h": e5.Html(P, "h", "<b>"),
        "t": e5.Truth(P, "t", True),
        "seq": e5.Seq(P, "seq", [1, 2, 3]),
        "empty": e5.Seq(P, "empty", []),
        "gen": e5._It(P, "gen", iter([1, 2])),
        "sized": e5.Sized(P, "sized", 2),
        "objs": [e5.Obj(P, "objs0", attrs={"a": 2}), e5.Obj(P, "objs1", attrs={"a": 1})],
        "tree": e5.Seq(P, "tree", [Node(1, e5.Seq(P, "tree.c", [Node(2)])), Node(3)]),
        "d": {"k": 1, "j": 2},
        "lst": [1, 2, 3],
    }
    if async_:
        d["af"] = e5.AFn(P, "af", 1)
        d["aseq"] = e5.ASeq(P, "aseq", [1, 2, 3])
    return d


def make_env(async_):
    import jinja2

    t = dict(TEMPLATES)
    if async_:
        t.update(ASYNC_ONLY)
    env = jinja2.Environment(loader=jinja2.DictLoader(t), enable_async=async_, autoescape=True)
    return env


ENTRIES_SYNC = ("render", "generate")
ENTRIES_ASYNC = ("render_async", "generate_async")


def do_render(env, name, plan, entry, async_):
    """returns ('ok', text) or ('exc', exception object)"""
    env.globals["gf"] = e5.Fn(plan, "gf", 6)
    data = mkdata(plan, async_)
    try:
        t = env.get_template(name)
        if entry == "render":
            return "ok", t.render(**data) if not async_ else None
        if entry == "generate":
            return "ok", "".join(t.generate(**data))
        if entry == "render_async":
            return "ok", e4.run(t.render_async(**data))
        if entry == "generate_async":
            async def consume():
                return "".join([x async for x in t.generate_async(**data)])
            return "ok", e4.run(consume())
        raise AssertionError(entry)
    except Exception as e:  # noqa: BLE001
        return "exc", e


def shard(arg):
    name, async_, pairs = arg
    cold = name.endswith("@cold")
    name = name.split("@")[0]
    p = core.Part()
    env = make_env(async_)
    if not cold:
        # warm-up: module caches (Template._module) are filled, so every later run sees the same events
        for n in TEMPLATES if not async_ else list(TEMPLATES) + list(ASYNC_ONLY):
            if n not in HELPERS:
                do_render(env, n, e5.Plan(0), "render_async" if async_ else "render", async_)
    entries = ENTRIES_ASYNC if async_ else ENTRIES_SYNC
    others = [n for n in ("out_call", "child", "import") if n != name][:2]
    mode = "async" if async_ else "sync"

    def clean(n, entry):
        return do_render(env, n, e5.Plan(0), entry, async_)

    def script(entry, k):
        return f"from checks import c38\nc38.replay({name!r}, {async_!r}, {entry!r}, {k!r})\n"

    for entry in entries:
        base_plan = e5.Plan(0)
        if cold:
            env = make_env(async_)
        st, base = do_render(env, name, base_plan, entry, async_)
        p.evals += 1
        if st != "ok":
            p.violation(f"C38/clean-run-raised/{name}", {"msg": f"{name} {mode} {entry}: clean run raised {base!r}", "script": script(entry, 0)})
            continue
        N = base_plan.n  # read now: a cached module keeps calling the data functions it was built with
        baselines = {n: clean(n, entry) for n in [name] + others}
        if cold:
            # after a cold first render the caches are warm: baselines are taken from that state
            baselines = {n: clean(n, entry) for n in [name] + others}
        p.count("fault_positions_total", N)
        for k in range(1, N + 1):
            boom = e5.Boom(f"boom@{k}")
            plan = e5.Plan(k, boom)
            if cold:
                # the fault may hit while the imported/included module is being built for the first time
                env = make_env(async_)
            st, got = do_render(env, name, plan, entry, async_)
            p.evals += 1
            fired = plan.fired_at
            if fired is None:
                p.violation(f"C38/harness/fault-not-reached/{name}", {"msg": f"{name} {mode} {entry} k={k}: event count changed between runs", "script": script(entry, k)})
                continue
            kind = fired[0]
            expect_capability = name == "is_sequence" and kind == "len"
            if expect_capability:
                ok = st == "ok" and got == "False"
                outcome = "capability-false" if ok else f"{st}:{got!r}"
            else:
                ok = st == "exc" and got is boom
                outcome = "same-object" if ok else (f"other-exc:{type(got).__name__}" if st == "exc" else "swallowed")
            p.sig((name, kind, mode, entry, outcome))
            if not ok:
                p.violation(f"C38/{outcome.split(':')[0]}/{kind}/{name}", {
                    "msg": f"{name} {mode} {entry}: fault at event {k} {fired}: {'rendered ' + repr(got) if st == 'ok' else 'raised ' + repr(got)}; "
                           f"expected {'the test to report false' if expect_capability else 'the same Boom object'}",
                    "template": TEMPLATES.get(name) or ASYNC_ONLY.get(name), "script": script(entry, k)})
            # the engine stays usable: same and other templates render as before
            for n in [name] + others:
                again = clean(n, entry)
                p.evals += 1
                if again != baselines[n]:
                    p.violation(f"C38/after-fault/{name}", {
                        "msg": f"after a fault at event {k} {fired} in {name} ({mode} {entry}), {n} renders {again!r} instead of {baselines[n]!r}",
                        "script": script(entry, k)})
            if pairs:
                # second fault in the next render of another template
                o = others[0]
                oplan = e5.Plan(0)
                do_render(env, o, oplan, entry, async_)
                for j in range(1, oplan.n + 1):
                    b2 = e5.Boom(f"boom2@{j}")
                    st2, got2 = do_render(env, o, e5.Plan(j, b2), entry, async_)
                    p.evals += 1
                    if not (st2 == "exc" and got2 is b2):
                        p.violation(f"C38/second-fault/{o}", {"msg": f"fault {k} in {name} then fault {j} in {o}: {st2} {got2!r}", "script": script(entry, k)})
                    if clean(name, entry) != baselines[name]:
                        p.violation(f"C38/after-two-faults/{name}", {"msg": f"fault {k} in {name}, fault {j} in {o}, then {name} differs", "script": script(entry, k)})
    # documented lookup signals
    if name == "out_call":
        for entry in entries:
            signals(p, env, entry, async_)
    p.sample({"template": name, "source": TEMPLATES.get(name) or ASYNC_ONLY.get(name), "mode": mode,
              "events_in_clean_run": [list(e) for e in base_plan.log[:8]]}, cap=1)
    return p


def signals(p, env, entry, async_):
    """AttributeError / LookupError in lookups -> undefined; StopIteration from a callable -> undefined."""
    import jinja2

    cases = [
        ("attr-AttributeError", "[{{ o.a }}]", "attr", AttributeError("x"), "[]"),
        ("attr-AttributeError-defined", "{{ o.a is defined }}", "attr", AttributeError("x"), "False"),
        ("item-KeyError", "[{{ o['k'] }}]", "item", KeyError("k"), "[]"),
        ("item-KeyError-defined", "{{ o['k'] is defined }}", "item", KeyError("k"), "False"),
        ("item-TypeError", "[{{ o['k'] }}]", "item", TypeError("k"), "[]"),
        ("item-IndexError", "{{ o['k'] }}|", "item", IndexError("k"), "|"),
        ("attr-then-item-AttributeError", "[{{ po.nope }}]|{{ po.nope is defined }}", None, None, "[]|False"),
        ("item-then-attr-AttributeError", "[{{ po['nope'] }}]", None, None, "[]"),
        ("call-StopIteration", "[{{ f() }}]", "call", StopIteration(), "[]"),
        # the same signals through the attribute-path getter of the filters (dotted paths with integer parts)
        ("attrpath-int-IndexError", "{{ rows|map(attribute='t.0')|map('default', 'U')|list }}|{{ rows|map(attribute='t.0', default='D')|list }}", "rows", None, "['a', 'U']|['a', 'D']"),
        ("attrpath-int-KeyError", "{{ maps|map(attribute='m.1', default='D')|list }}|{{ maps|selectattr('m.1')|list|length }}", "rows", None, "['x', 'D']|1"),
        ("attrpath-int-TypeError", "{{ objs2|map(attribute=0, default='D')|list }}|{{ objs2|map(attribute='v.0', default='D')|list }}", "rows", None, "['D', 'D']|['D', 'D']"),
        ("attrpath-sum-join", "{{ rows|sum(attribute='n.0', start=0) }}|{{ rows|join(',', attribute='t.0') }}", "rows", None, "3|a,"),
        # StopIteration from a C-implemented callable is the same signal as from a Python one
        ("builtin-StopIteration", "[{{ nxt(done) }}]{% for i in [1] %}[{{ nxt(done) }}]{% endfor %}{% block b %}[{{ nxt(done) }}]{% endblock %}[{{ done.__next__() }}]", "rows", None, "[][][][]"),
    ]

    class Row:
        def __init__(self, t, n):
            self.t, self.n = t, n

    class V:
        v = 5

    def rows_data():
        return {"rows": [Row(["a"], [1]), Row([], [2])], "maps": [{"m": {1: "x"}}, {"m": {}}], "objs2": [V(), V()],
                "nxt": next, "done": iter(())}

    class Proxy:
        """a proxy-style object: unknown attributes AND unknown items are signalled with AttributeError"""

        def __getattr__(self, name):
            raise AttributeError(name)

        def __getitem__(self, key):
            raise AttributeError(key)

    for label, src, kind, exc, expected in cases:
        if kind is None or kind == "rows":
            t = env.from_string(src)
            p.evals += 1
            d0 = {"po": Proxy()} if kind is None else rows_data()
            try:
                got = t.render(**d0) if not async_ else e4.run(t.render_async(**d0))
            except Exception as e:  # noqa: BLE001
                got = ("exc", type(e).__name__)
            if isinstance(got, str):
                import html

                got = html.unescape(got)  # (the environment autoescapes; the expectations are written unescaped)
            p.sig(("signal", label, async_, str(got)))
            if got != expected:
                p.violation(f"C38/signal/{label}", {"msg": f"{src!r} on data whose lookups signal 'missing' (AttributeError / LookupError / StopIteration): got {got!r}, documented outcome {expected!r}",
                                                   "script": "print(%r)\n" % src})
            continue
        plan0 = e5.Plan(0)
        data = mkdata(plan0, async_)
        t = env.from_string(src)
        render = (lambda d: t.render(**d)) if not async_ else (lambda d: e4.run(t.render_async(**d)))
        try:
            render(data)
        except Exception as e:  # noqa: BLE001
            p.violation(f"C38/signal-clean/{label}", {"msg": f"{src!r} clean: {e!r}"})
            continue
        ks = [i + 1 for i, (kd, _) in enumerate(plan0.log) if kd == kind][:1]
        for k in ks:
            plan = e5.Plan(k, exc)
            p.evals += 1
            try:
                got = render(mkdata(plan, async_))
            except Exception as e:  # noqa: BLE001
                got = ("exc", type(e).__name__)
            p.sig(("signal", label, async_, str(got)))
            if got != expected:
                p.violation(f"C38/signal/{label}", {
                    "msg": f"{src!r} with {type(exc).__name__} raised by the {kind} event: got {got!r}, documented outcome {expected!r}",
                    "script": f"from checks import c38\nprint('see checks/c38.py signals(): {label}')\n"})


def replay(name, async_, entry, k):
    core.import_all_jinja()
    env = make_env(async_)
    plan = e5.Plan(0)
    print("clean:", do_render(env, name, plan, entry, async_), "events:", plan.log)
    boom = e5.Boom(f"boom@{k}")
    plan = e5.Plan(k, boom)
    st, got = do_render(env, name, plan, entry, async_)
    print("fault at", plan.fired_at, "->", st, repr(got), "same object:", got is boom)
    print("again clean:", do_render(env, name, e5.Plan(0), entry, async_))


def run(ctx: core.Ctx):
    core.import_all_jinja()
    ctx.rule = ("(template shape, mode, entry point, k) for every k up to the number of data events of the clean run; "
                "distinct = distinct (template, kind of the event that raised, mode, entry, outcome); every counted case's fault fired")
    ctx.assumptions += [
        "data proxies of vf/e5.py define what an 'event' is; jinja-internal probes such as hasattr(__html__) are not events",
        "len() failing inside the `sequence` test is the documented capability-test exception (reports false)",
    ]
    pairs = not ctx.quick
    shards = [(n, False, pairs) for n in TEMPLATES if n not in HELPERS]
    shards += [(n + "@cold", a, False) for n in ("import", "from_import", "include_noctx", "child", "include") for a in (False, True)]
    shards += [(n, True, pairs) for n in list(TEMPLATES) + list(ASYNC_ONLY) if n not in HELPERS]
    ctx.pmap(shard, shards)
    ctx.cov["template_shapes"] = len(shards)
