"""C10 — all rendering entry points produce the same text; buffered streams chunk as documented."""
from __future__ import annotations

import io
import itertools
import os

from vf import core, corpus, e4

META = {
    "level": "exploration",
    "engine": "E1+E2",
    "technique": "bounded-exhaustive enumeration: (i) every operation sequence (next / enable_buffering(k) / disable_buffering) "
    "over every short piece sequence on the real TemplateStream against a list-based model; (ii) every generated template "
    "set of the shared corpus through every entry point",
    "text": "(i) The buffering machine itself: TemplateStream(iter(pieces)) for every piece sequence up to length 6 (thorough 8) "
    "over empty and non-empty pieces, every buffer size 2..8 and every schedule of next/enable/disable calls up to length 5 "
    "(6): the concatenation of everything handed out equals the concatenation of the pieces (nothing lost, duplicated or "
    "reordered) and every chunk produced entirely under buffering size k, except the last, combines exactly k non-empty "
    "pieces.  (ii) Every statement program, inheritance chain and include/import scenario of the corpus rendered through "
    "render, generate, stream (unbuffered and buffered 2,3,5,8), dump to BytesIO with an encoding, dump to a text sink, "
    "dump to a path, str(make_module(vars)) and its __html__, and in an async twin render_async / generate_async / "
    "make_module_async: all give the same text or the same exception class.",
    "note": "Bounded by the corpus bounds in vf/corpus.py; pieces are 3-4 character labels so piece boundaries are "
    "recoverable from chunks; exceptions are compared by class.",
    "design_ref": "DESIGN.md §4 C10",
}


# ------------------------------------------------------------------ (i) the stream machine

def machine_shard(arg):
    from jinja2.environment import TemplateStream

    first_ops, max_ops, max_pieces = arg
    p = core.Part()
    sizes = (2, 3, 5, 8)
    alphabet = ["n"] + [("e", k) for k in sizes] + ["d"]
    pieces_menu = []
    for n in range(0, max_pieces + 1):
        for mask in itertools.product((0, 1), repeat=n):
            pieces_menu.append(["<%d>" % i if m else "" for i, m in enumerate(mask)])
    for rest in itertools.chain.from_iterable(itertools.product(alphabet, repeat=k) for k in range(0, max_ops)):
        ops = (first_ops,) + rest
        for pieces in pieces_menu:
            p.evals += 1
            st = TemplateStream(iter(pieces))
            out = []
            buffered_since = None  # index in `out` from which chunks are produced under a constant size k
            size = None
            ended = False
            for op in ops:
                if op == "n":
                    try:
                        out.append((next(st), size))
                    except StopIteration:
                        ended = True
                        break
                elif op == "d":
                    st.disable_buffering()
                    size = None
                else:
                    st.enable_buffering(op[1])
                    size = op[1]
            tail = list(st) if not ended else []
            out += [(c, size) for c in tail]
            text = "".join(c for c, _ in out)
            if text != "".join(pieces):
                p.violation("C10/stream/lost-or-duplicated", {
                    "msg": f"pieces={pieces} ops={ops}: handed out {text!r}, pieces concatenate to {''.join(pieces)!r}",
                    "script": "from jinja2.environment import TemplateStream\nst=TemplateStream(iter(%r))\nprint('ops', %r)\n" % (pieces, ops)})
            # chunk law: a chunk produced under size k that is not the very last chunk holds exactly k non-empty pieces
            for i, (c, k) in enumerate(out[:-1]):
                if k is None:
                    continue
                # the chunk must have been started under the same size: previous op state is approximated by
                # requiring the law only for chunks whose predecessor was produced under the same size too
                if i > 0 and out[i - 1][1] != k:
                    continue
                if i == 0 and ops[0] != ("e", k):
                    continue
                if c.count("<") != k:
                    p.violation("C10/stream/chunk-size", {
                        "msg": f"pieces={pieces} ops={ops}: chunk #{i} {c!r} under buffer size {k} holds {c.count('<')} non-empty pieces",
                        "script": "from jinja2.environment import TemplateStream\nst=TemplateStream(iter(%r))\nst.enable_buffering(%d)\nprint(list(st))\n" % (pieces, k)})
            if len(pieces) >= 3 and len(ops) <= 2:
                p.sig(("m", ops, tuple(bool(x) for x in pieces), len(out)))
    p.sample({"part": "stream machine", "first_op": str(first_ops), "ops_up_to": max_ops, "pieces_up_to": max_pieces}, cap=1)
    return p


# ------------------------------------------------------------------ (ii) entry points

SHAPES = ("mapping", "pairs", "zip", "mapping+kw")


def shaped(method, d, shape):
    """call a render entry point with the data in one of the argument shapes dict() accepts"""
    if shape == "mapping":
        return method(dict(d))
    if shape == "pairs":
        return method(list(d.items()))
    if shape == "zip":
        return method(zip(list(d), list(d.values()), strict=True))
    keys = list(d)
    half = len(keys) // 2
    return method({k: d[k] for k in keys[:half]}, **{k: d[k] for k in keys[half:]})


def entry_outcomes(it, scratch):
    import jinja2

    res = {}
    env, gm, data = corpus.safe_make(it)
    res["render"] = corpus.outcome(lambda: gm().render(**data))

    def fresh():
        # one environment (and one compiled template) for all sync entry points of an item
        return gm(), data

    def via(fn):
        def run():
            t, d = fresh()
            return fn(t, d)
        return corpus.outcome(run)

    res["generate"] = via(lambda t, d: "".join(t.generate(**d)))
    res["stream"] = via(lambda t, d: "".join(t.stream(**d)))
    for k in (2, 3, 5, 8):
        def buffered(t, d, k=k):
            s = t.stream(**d)
            s.enable_buffering(k)
            return "".join(s)
        res[f"stream{k}"] = via(buffered)

    def dump_bytes(t, d):
        b = io.BytesIO()
        t.stream(**d).dump(b, encoding="utf-8")
        return b.getvalue().decode("utf-8")
    res["dump-bytes"] = via(dump_bytes)

    def dump_text(t, d):
        b = io.StringIO()
        t.stream(**d).dump(b)
        return b.getvalue()
    res["dump-text"] = via(dump_text)

    def dump_path(t, d):
        path = os.path.join(scratch, "out.txt")
        t.stream(**d).dump(path, encoding="utf-8")
        with open(path, encoding="utf-8", newline="") as f:
            return f.read()
    res["dump-path"] = via(dump_path)
    # every shape of arguments the dict constructor accepts ("the same arguments as the dict constructor")
    for shape in SHAPES:
        res[f"render/{shape}"] = via(lambda t, d, shape=shape: shaped(t.render, d, shape))
        res[f"generate/{shape}"] = via(lambda t, d, shape=shape: "".join(shaped(t.generate, d, shape)))
        res[f"stream/{shape}"] = via(lambda t, d, shape=shape: "".join(shaped(t.stream, d, shape)))
    res["module-str"] = via(lambda t, d: str(t.make_module(d)))
    res["module-html"] = via(lambda t, d: str(t.make_module(d).__html__()))

    # async twin
    abox = []

    def afresh():
        if not abox:
            abox.append(corpus.safe_make(it, env_kwargs={"enable_async": True}))
        e, g, d = abox[0]
        return g(), d

    def avia(fn):
        def run():
            t, d = afresh()
            return fn(t, d)
        return corpus.outcome(run)

    res["render_async"] = avia(lambda t, d: e4.run(t.render_async(**d)))

    def gen_async(t, d):
        async def consume():
            return "".join([x async for x in t.generate_async(**d)])
        return e4.run(consume())
    res["generate_async"] = avia(gen_async)

    for shape in SHAPES:
        res[f"render_async/{shape}"] = avia(lambda t, d, shape=shape: e4.run(shaped(t.render_async, d, shape)))

        def gen_async_shaped(t, d, shape=shape):
            async def consume():
                return "".join([x async for x in shaped(t.generate_async, d, shape)])
            return e4.run(consume())
        res[f"generate_async/{shape}"] = avia(gen_async_shaped)

    def mod_async(t, d):
        async def mk():
            return str(await t.make_module_async(d))
        return e4.run(mk())
    res["module-async"] = avia(mod_async)
    return res


def entry_shard(arg):
    tier, k, n = arg
    p = core.Part()
    scratch = core.scratch_dir("c10")
    for it in corpus.items(tier, shard=(k, n)):
        p.evals += 1
        res = entry_outcomes(it, scratch)
        ref = res["render"]
        p.sig((it.kind, str(ref)[:24]))
        for name, got in res.items():
            if got != ref:
                p.violation(f"C10/entry/{name}/{it.kind}", {
                    "msg": f"{it.ident}: {name} gave {got!r}, render gave {ref!r}",
                    "sources": it.sources, "script": "print(%r)\n" % {"sources": it.sources, "entry": name}})
        p.sample({"item": it.ident, "entries": sorted(res)}, cap=1)
    return p


UNI_TEMPLATES = ["plain é {{ x }} ü", "{% for c in x %}{{ c }}-{% endfor %}€", "{{ x }}{% block b %}ß{{ x|upper }}{% endblock %}",
                 "{% macro m(v) %}«{{ v }}»{% endmacro %}{{ m(x) }}{{ m('日本') }}"]


class WriteOnly:
    def __init__(self):
        self.parts = []

    def write(self, data):
        self.parts.append(data)


def dump_shard(arg):
    """TemplateStream.dump with every target x encoding x errors x buffering, on templates with non-ASCII output:
    the written bytes equal render().encode(encoding, errors)"""
    import jinja2

    p = core.Part()
    scratch = core.scratch_dir("c10d")
    for ti, src in enumerate(UNI_TEMPLATES):
        env = jinja2.Environment()
        t = env.from_string(src)
        data = {"x": "añ日"}
        text = t.render(**data)
        for enc in ("utf-8", "latin-1", "ascii", "utf-16"):
            for errors in ("strict", "replace", "ignore", "xmlcharrefreplace", "backslashreplace"):
                for size in (None, 2, 3):
                    expect = corpus.outcome(lambda: text.encode(enc, errors))
                    for target in ("bytesio", "path", "write-only", "text-write-only", "text-stringio"):
                        def run():
                            s = t.stream(**data)
                            if size:
                                s.enable_buffering(size)
                            if target == "write-only":
                                # a file-like object that only has write() (a socket wrapper, a WSGI writer)
                                w = WriteOnly()
                                s.dump(w, encoding=enc, errors=errors)
                                return b"".join(w.parts)
                            if target in ("text-write-only", "text-stringio"):
                                # no encoding: the target receives text
                                w = WriteOnly() if target == "text-write-only" else io.StringIO()
                                s.dump(w)
                                r = "".join(w.parts) if target == "text-write-only" else w.getvalue()
                                return r.encode(enc, errors)
                            if target == "bytesio":
                                b = io.BytesIO()
                                s.dump(b, encoding=enc, errors=errors)
                                return b.getvalue()
                            path = os.path.join(scratch, "o.bin")
                            s.dump(path, encoding=enc, errors=errors)
                            with open(path, "rb") as f:
                                return f.read()
                        got = corpus.outcome(run)
                        if enc == "utf-16" and isinstance(got, bytes) and isinstance(expect, bytes):
                            # chunk-wise encoding repeats the BOM per chunk: compare the decoded text instead
                            got = corpus.outcome(lambda: "".join(c for c in got.decode("utf-16", "ignore") if c != "\ufeff"))
                            exp = text
                        else:
                            exp = expect
                        p.evals += 1
                        p.sig(("dump", enc, errors, isinstance(exp, tuple)))
                        if got != exp:
                            p.violation(f"C10/dump/{target}/{enc}/{errors}", {
                                "msg": f"{src!r} dump to {target} encoding={enc} errors={errors} buffer={size}: {got!r}, expected {exp!r}",
                                "script": "print(%r)\n" % {"template": src, "target": target, "encoding": enc, "errors": errors}})
    p.sample({"part": "dump parameters", "templates": len(UNI_TEMPLATES)}, cap=1)
    return p


def dispatch(arg):
    if arg[0] == "d":
        return dump_shard(arg[1])
    return machine_shard(arg[1]) if arg[0] == "m" else entry_shard(arg[1])


def run(ctx: core.Ctx):
    core.import_all_jinja()
    ctx.rule = ("(i) all (operation schedule, piece sequence) pairs of the stream machine; (ii) every corpus item through 16 entry "
                "points; distinct = distinct (schedule, piece pattern, chunk count) and distinct (corpus kind, rendered text prefix)")
    ctx.assumptions += ["piece boundaries are recovered from '<' markers inside chunk text",
                        "async entry points are driven without an event loop (no real suspension in these templates)"]
    max_ops, max_pieces = (4, 6) if ctx.quick else (5, 8)
    alphabet = ["n"] + [("e", k) for k in (2, 3, 5, 8)] + ["d"]
    shards = [("m", (a, max_ops, max_pieces)) for a in alphabet]
    n = 64
    shards += [("e", (ctx.tier, k, n)) for k in range(n)]
    shards += [("d", 0)]
    ctx.pmap(dispatch, shards)
    ctx.cov["bounds"] = {"stream_ops": max_ops + 1, "pieces": max_pieces, "corpus": str(corpus.BOUNDS[ctx.tier])}
