"""C31 — precompiled templates render exactly like templates compiled from source."""
from __future__ import annotations

import os
import shutil

from vf import core, corpus

META = {
    "level": "exploration",
    "engine": "E1",
    "technique": "bounded-exhaustive enumeration of the inheritance and include/import corpus, each template set compiled ahead of "
    "time with every zip mode and loaded through ModuleLoader, compared with source loading",
    "text": "Every inheritance chain and include/import/from-import scenario of the corpus is compiled with "
    "Environment.compile_templates into a directory (zip=None), a stored zip and a deflated zip, then rendered from a "
    "ModuleLoader over that target and from a ChoiceLoader([ModuleLoader, source loader]); the rendered text or exception "
    "class must equal rendering from source.  Statement programs (single templates) are included as one-template sets.  "
    "Template sets in which some template does not compile are rendered too: the template that fails must fail the same "
    "way when reached through the ChoiceLoader fallback.  A second part shares ONE loader object between two environments "
    "with different runtime configuration (filters, tests, globals, undefined type) and runs every sequence (up to length 4) of "
    "load/render operations of the two: the ModuleLoader world must behave exactly like the source-loader world.",
    "note": "Corpus bounds of vf/corpus.py; templates passed as objects in the data are loaded from the environment under "
    "test (so from the precompiled modules); from_string templates are compiled from source in both worlds.",
    "design_ref": "DESIGN.md §4 C31",
}


def shard(arg):
    import jinja2

    tier, k, n = arg
    p = core.Part()
    root = core.scratch_dir("c31")
    count = 0
    ctier = "small" if tier == "quick" else "quick"
    for it in corpus.items(ctier, shard=(k, n), kinds=("stmt", "inh", "ctx")):
        env, gm, data = corpus.safe_make(it)
        ref = corpus.outcome(lambda: gm().render(**data))
        p.evals += 1
        p.sig((it.kind, str(ref)[:24]))
        for zmode in ((None, "deflated") if tier == "quick" else (None, "stored", "deflated")):
            count += 1
            target = os.path.join(root, f"t{count}" + ("" if zmode is None else ".zip"))
            cenv, _, _ = corpus.safe_make(it)
            if cenv is None:
                continue
            try:
                cenv.compile_templates(target, zip=zmode, ignore_errors=True, log_function=lambda m: None)
            except Exception as e:  # noqa: BLE001
                p.violation(f"C31/compile_templates-raised/{it.kind}", {"msg": f"{it.ident}: compile_templates(zip={zmode}) raised {e!r}",
                                                                     "script": "print(%r)\n" % {"sources": it.sources}})
                continue
            for mode in ("module", "choice"):
                ml = jinja2.ModuleLoader(target)
                loader = ml if mode == "module" else jinja2.ChoiceLoader([ml, jinja2.DictLoader(dict(it.sources))])
                def via_modules():
                    menv, mgm, mdata = it.make(loader=loader)  # may already load templates (objects passed as data)
                    return mgm().render(**mdata)
                got = corpus.outcome(via_modules)
                p.evals += 1
                ok = got == ref
                if not ok and mode == "module" and isinstance(ref, tuple) and ref[1] in ("TemplateSyntaxError", "TemplateAssertionError"):
                    # a template that does not compile is not in the archive: the pure ModuleLoader can only say "not found"
                    ok = got == ("exc", "TemplateNotFound")
                if not ok:
                    p.violation(f"C31/differs/{mode}/{it.kind}", {
                        "msg": f"{it.ident}: zip={zmode} via {mode}: {got!r}; from source: {ref!r}",
                        "script": "print(%r)\n" % {"sources": it.sources, "zip": zmode}})
            if zmode is None:
                shutil.rmtree(target, ignore_errors=True)
            else:
                try:
                    os.remove(target)
                except OSError:
                    pass
        p.sample({"item": it.ident, "from_source": str(ref)[:80]}, cap=1)
    shutil.rmtree(root, ignore_errors=True)
    return p


# ------------------------------------------------------------------ one loader shared by two environments
SHARED = {
    "t": "{{ x|tag }}|{{ x is marked }}|{{ g }}|{% include 'inc' %}|{% import 'lib' as l %}{{ l.m(x) }}",
    "inc": "i{{ x|tag }}{{ g }}",
    "lib": "{% macro m(v) %}[{{ v|tag }}{{ g }}]{% endmacro %}",
    "child": "{% extends 'base' %}{% block b %}c{{ x|tag }}{{ super() }}{% endblock %}",
    "base": "B({% block b %}b{{ g }}{{ x|tag }}{% endblock %})",
    "undef": "{{ nope }}|{{ nope|default('d') }}|{{ x|tag }}",
}


def shared_shard(arg):
    """every order of load/render operations of two differently configured environments on ONE loader object;
    the ModuleLoader world must behave like the source-loader world"""
    import itertools

    import jinja2

    zmode, name = arg
    p = core.Part()
    root = core.scratch_dir("c31s")
    target = os.path.join(root, "t" + ("" if zmode is None else ".zip"))
    cenv = jinja2.Environment(loader=jinja2.DictLoader(dict(SHARED)))
    cenv.filters["tag"] = lambda v: v
    cenv.tests["marked"] = lambda v: True
    cenv.compile_templates(target, zip=zmode, log_function=lambda m: None)

    def world(loader):
        envs = []
        for i in (0, 1):
            # only RUNTIME configuration differs (filters, tests, globals, undefined type); compile-time options
            # are baked into precompiled code by design and are equal to the compiling environment's
            e = jinja2.Environment(loader=loader, undefined=jinja2.Undefined if i == 0 else jinja2.ChainableUndefined)
            e.filters["tag"] = (lambda v, i=i: f"<{i}:{v}>")
            e.tests["marked"] = (lambda v, i=i: bool(i))
            e.globals["g"] = f"g{i}"
            envs.append(e)
        return envs

    ops = [("load", 0), ("load", 1), ("render", 0), ("render", 1)]
    for n in range(1, 5):
        for seq in itertools.product(ops, repeat=n):
            outs = []
            for mk in (lambda: jinja2.DictLoader(dict(SHARED)), lambda: jinja2.ModuleLoader(target)):
                envs = world(mk())
                held = {}
                res = []
                for op, i in seq:
                    if op == "load":
                        held[i] = corpus.outcome(lambda: envs[i].get_template(name))
                        res.append("loaded" if not isinstance(held[i], tuple) else held[i])
                    else:
                        t = held.get(i)
                        if t is None or isinstance(t, tuple):
                            res.append("-")
                        else:
                            res.append(corpus.outcome(lambda: t.render(x="X")))
                outs.append(res)
            p.evals += 1
            if n <= 2:
                p.sig(("shared", zmode, name, str(outs[0])[:40]))
            if outs[0] != outs[1]:
                p.violation(f"C31/shared-loader/{name}", {
                    "msg": f"zip={zmode} template {name!r} ops {seq}: via ModuleLoader {outs[1]!r}; via source loader {outs[0]!r}",
                    "script": "print(%r)\n" % {"ops": seq, "template": SHARED[name], "zip": zmode}})
    p.sample({"part": "shared loader", "template": name, "zip": zmode, "ops": "all sequences of load/render by env 0/1 up to length 4"}, cap=1)
    shutil.rmtree(root, ignore_errors=True)
    return p


def dispatch(arg):
    return shared_shard(arg[1]) if arg[0] == "s" else shard(arg[1])


def run(ctx: core.Ctx):
    core.import_all_jinja()
    ctx.rule = ("every corpus item x zip mode (directory, stored, deflated) x loader (ModuleLoader, ChoiceLoader with source "
                "fallback); distinct = distinct (corpus kind, output prefix)")
    ctx.assumptions += ["ModuleLoader keeps imported modules in sys.modules under a per-loader package name; each case uses a fresh loader and target"]
    n = 64
    shards = [("c", (ctx.tier, k, n)) for k in range(n)]
    shards += [("s", (z, name)) for z in (None, "stored", "deflated") for name in ("t", "child", "undef", "lib")]
    ctx.pmap(dispatch, shards)
    ctx.cov["bounds"] = {"corpus": str(corpus.BOUNDS["small" if ctx.quick else "quick"]),
                         "zip_modes": [None, "deflated"] if ctx.quick else [None, "stored", "deflated"]}
