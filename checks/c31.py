"""C31 — precompiled templates render exactly like templates compiled from source."""
from __future__ import annotations

import os
import shutil

from vf import core, corpus

META = {
    "level": "exploration",
    "engine": "E1",
    "technique": "bounded-exhaustive enumeration of the inheritance and include/import corpus, each template set compiled ahead of "
    "time with every zip mode and loaded through ModuleLoader, compared with source loading",
    "text": "Every inheritance chain and include/import/from-import scenario of the corpus is compiled with "
    "Environment.compile_templates into a directory (zip=None), a stored zip and a deflated zip, then rendered from a "
    "ModuleLoader over that target and from a ChoiceLoader([ModuleLoader, source loader]); the rendered text or exception "
    "class must equal rendering from source.  Statement programs (single templates) are included as one-template sets.  "
    "Template sets in which some template does not compile are rendered too: the template that fails must fail the same "
    "way when reached through the ChoiceLoader fallback.  A second part shares ONE loader object between two environments "
    "with different runtime configuration (filters, tests, globals, undefined type) and runs every sequence (up to length 4) of "
    "load/render operations of the two: the ModuleLoader world must behave exactly like the source-loader world.  A third part "
    "runs every history (up to length 4, thorough 5) of add-template / compile_templates into the same directory / render on one "
    "live ModuleLoader, in an environment whose autoescaping depends on the template name and with identical sources under "
    "different names; names, escaping and lookups must match a source loader over the templates compiled so far.",
    "note": "Corpus bounds of vf/corpus.py; templates passed as objects in the data are loaded from the environment under "
    "test (so from the precompiled modules); from_string templates are compiled from source in both worlds.",
    "design_ref": "DESIGN.md §4 C31",
}


def shard(arg):
    import jinja2

    tier, k, n = arg
    p = core.Part()
    root = core.scratch_dir("c31")
    count = 0
    ctier = "small" if tier == "quick" else "quick"
    for it in corpus.items(ctier, shard=(k, n), kinds=("stmt", "inh", "ctx")):
        env, gm, data = corpus.safe_make(it)
        ref = corpus.outcome(lambda: gm().render(**data))
        p.evals += 1
        p.sig((it.kind, str(ref)[:24]))
        for zmode in ((None, "deflated") if tier == "quick" else (None, "stored", "deflated")):
            count += 1
            target = os.path.join(root, f"t{count}" + ("" if zmode is None else ".zip"))
            cenv, _, _ = corpus.safe_make(it)
            if cenv is None:
                continue
            try:
                cenv.compile_templates(target, zip=zmode, ignore_errors=True, log_function=lambda m: None)
            except Exception as e:  # noqa: BLE001
                p.violation(f"C31/compile_templates-raised/{it.kind}", {"msg": f"{it.ident}: compile_templates(zip={zmode}) raised {e!r}",
                                                                     "script": "print(%r)\n" % {"sources": it.sources}})
                continue
            for mode in ("module", "choice"):
                ml = jinja2.ModuleLoader(target)
                loader = ml if mode == "module" else jinja2.ChoiceLoader([ml, jinja2.DictLoader(dict(it.sources))])
                def via_modules():
                    menv, mgm, mdata = it.make(loader=loader)  # may already load templates (objects passed as data)
                    return mgm().render(**mdata)
                got = corpus.outcome(via_modules)
                p.evals += 1
                ok = got == ref
                if not ok and mode == "module" and isinstance(ref, tuple) and ref[1] in ("TemplateSyntaxError", "TemplateAssertionError"):
                    # a template that does not compile is not in the archive: the pure ModuleLoader can only say "not found"
                    ok = got == ("exc", "TemplateNotFound")
                if not ok:
                    p.violation(f"C31/differs/{mode}/{it.kind}", {
                        "msg": f"{it.ident}: zip={zmode} via {mode}: {got!r}; from source: {ref!r}",
                        "script": "print(%r)\n" % {"sources": it.sources, "zip": zmode}})
            if zmode is None:
                shutil.rmtree(target, ignore_errors=True)
            else:
                try:
                    os.remove(target)
                except OSError:
                    pass
        p.sample({"item": it.ident, "from_source": str(ref)[:80]}, cap=1)
    shutil.rmtree(root, ignore_errors=True)
    return p


# ------------------------------------------------------------------ one loader shared by two environments
SHARED = {
    "t": "{{ x|tag }}|{{ x is marked }}|{{ g }}|{% include 'inc' %}|{% import 'lib' as l %}{{ l.m(x) }}",
    "inc": "i{{ x|tag }}{{ g }}",
    "lib": "{% macro m(v) %}[{{ v|tag }}{{ g }}]{% endmacro %}",
    "child": "{% extends 'base' %}{% block b %}c{{ x|tag }}{{ super() }}{% endblock %}",
    "base": "B({% block b %}b{{ g }}{{ x|tag }}{% endblock %})",
    "undef": "{{ nope }}|{{ nope|default('d') }}|{{ x|tag }}",
    # module state that survives between renders of one environment (the imported module is cached with its template)
    "cntlib": "{% set ns = namespace(n=0) %}{% macro tick() %}{% set ns.n = ns.n + 1 %}{{ ns.n }}{% endmacro %}",
    "cnt": "{% import 'cntlib' as c %}{{ c.tick() }}{{ c.tick() }}|{% include 'cntinc' %}",
    "cntinc": "{% from 'cntlib' import tick %}{{ tick() }}",
}


def shared_shard(arg):
    """every order of load/render operations of two differently configured environments on ONE loader object;
    the ModuleLoader world must behave like the source-loader world"""
    import itertools

    import jinja2

    zmode, name = arg
    p = core.Part()
    root = core.scratch_dir("c31s")
    target = os.path.join(root, "t" + ("" if zmode is None else ".zip"))
    cenv = jinja2.Environment(loader=jinja2.DictLoader(dict(SHARED)))
    cenv.filters["tag"] = lambda v: v
    cenv.tests["marked"] = lambda v: True
    cenv.compile_templates(target, zip=zmode, log_function=lambda m: None)

    def world(loader):
        envs = []
        for i in (0, 1):
            # only RUNTIME configuration differs (filters, tests, globals, undefined type); compile-time options
            # are baked into precompiled code by design and are equal to the compiling environment's
            e = jinja2.Environment(loader=loader, undefined=jinja2.Undefined if i == 0 else jinja2.ChainableUndefined)
            e.filters["tag"] = (lambda v, i=i: f"<{i}:{v}>")
            e.tests["marked"] = (lambda v, i=i: bool(i))
            e.globals["g"] = f"g{i}"
            envs.append(e)
        return envs

    ops = [("load", 0), ("load", 1), ("render", 0), ("render", 1)]
    for n in range(1, 5):
        for seq in itertools.product(ops, repeat=n):
            outs = []
            for mk in (lambda: jinja2.DictLoader(dict(SHARED)), lambda: jinja2.ModuleLoader(target)):
                envs = world(mk())
                held = {}
                res = []
                for op, i in seq:
                    if op == "load":
                        held[i] = corpus.outcome(lambda: envs[i].get_template(name))
                        res.append("loaded" if not isinstance(held[i], tuple) else held[i])
                    else:
                        t = held.get(i)
                        if t is None or isinstance(t, tuple):
                            res.append("-")
                        else:
                            res.append(corpus.outcome(lambda: t.render(x="X")))
                outs.append(res)
            p.evals += 1
            if n <= 2:
                p.sig(("shared", zmode, name, str(outs[0])[:40]))
            if outs[0] != outs[1]:
                p.violation(f"C31/shared-loader/{name}", {
                    "msg": f"zip={zmode} template {name!r} ops {seq}: via ModuleLoader {outs[1]!r}; via source loader {outs[0]!r}",
                    "script": "print(%r)\n" % {"ops": seq, "template": SHARED[name], "zip": zmode}})
    p.sample({"part": "shared loader", "template": name, "zip": zmode, "ops": "all sequences of load/render by env 0/1 up to length 4"}, cap=1)
    shutil.rmtree(root, ignore_errors=True)
    return p


# ------------------------------------------------------------------ a template set that grows under one live loader
GROW = {
    # identical sources under names that select_autoescape treats differently
    "main.html": "[{% include 'x.html' ignore missing %}|{% include ['y.txt', 'fb.txt'] ignore missing %}|{{ v }}]",
    "main.txt": "[{% include 'x.html' ignore missing %}|{% include ['y.txt', 'fb.txt'] ignore missing %}|{{ v }}]",
    "x.html": "{{ v }}",
    "y.txt": "{{ v }}",
    "fb.txt": "fb{{ v }}",
}
GROW_OPS = [("add", "x.html"), ("add", "y.txt"), ("add", "fb.txt"), ("compile",), ("render", "main.html"), ("render", "main.txt"),
            ("render", "x.html"), ("render", "y.txt")]


def grow_shard(arg):
    """histories of add-template / compile_templates-into-the-same-directory / render on ONE live ModuleLoader and
    environment; the reference world is a live source loader over exactly the templates compiled so far"""
    import importlib
    import itertools

    import jinja2

    first, depth = arg
    p = core.Part()
    root = core.scratch_dir("c31g")
    count = 0

    def mkenv(loader):
        return jinja2.Environment(loader=loader, autoescape=jinja2.select_autoescape(("html",)))

    for rest in itertools.chain.from_iterable(itertools.product(GROW_OPS, repeat=k) for k in range(0, depth)):
        hist = (first,) + rest
        count += 1
        target = os.path.join(root, f"g{count}")
        os.makedirs(target)
        present = {"main.html": GROW["main.html"], "main.txt": GROW["main.txt"]}
        compiled = {}
        src_env = mkenv(jinja2.DictLoader(compiled))  # reference: sees what has been compiled, live
        mod_env = mkenv(jinja2.ModuleLoader(target))
        outs = ([], [])
        for op in hist:
            if op[0] == "add":
                present[op[1]] = GROW[op[1]]
            elif op[0] == "compile":
                mkenv(jinja2.DictLoader(dict(present))).compile_templates(target, zip=None, log_function=lambda m: None)
                importlib.invalidate_caches()
                compiled.clear()
                compiled.update(present)
            else:
                for env, out in ((src_env, outs[0]), (mod_env, outs[1])):
                    def go(env=env):
                        t = env.get_template(op[1])
                        return (t.name, t.render(v="<&>"))
                    out.append(corpus.outcome(go))
        p.evals += 1
        if len(hist) <= 3:
            p.sig(("grow", hist, str(outs[0])[:60]))
        if outs[0] != outs[1]:
            p.violation("C31/growing-set/" + ("name-or-escaping" if all(isinstance(a, tuple) and isinstance(b, tuple) and len(a) == len(b) == 2 and a[0] != "exc" and b[0] != "exc" for a, b in zip(*outs)) else "lookup"), {
                "msg": f"history {hist}: via the live ModuleLoader {outs[1]!r}; via a source loader over the compiled set {outs[0]!r}",
                "script": "print(%r)\n" % {"history": hist, "templates": GROW}})
        shutil.rmtree(target, ignore_errors=True)
    p.sample({"part": "growing template set", "first": list(first), "depth": depth, "ops": [list(o) for o in GROW_OPS]}, cap=1)
    shutil.rmtree(root, ignore_errors=True)
    return p


def multipath_shard(arg):
    """ModuleLoader over several compiled directories / archives: the first path that has the template wins, exactly
    like a ChoiceLoader over the corresponding source loaders; every subset assignment of 3 templates to 2-3 layers"""
    import itertools

    import jinja2

    zmode = arg
    p = core.Part()
    root = core.scratch_dir("c31m")
    names = ("page", "part", "lib")
    # layer directory names chosen so that priority order is NOT alphabetical order
    layer_dirs = ("z_site", "m_theme", "a_base")

    def src(layer, name):
        body = {"page": "[{% include 'part' %}|{% import 'lib' as l %}{{ l.f() }}]", "part": "part", "lib": "{% macro f() %}lib{% endmacro %}"}[name]
        return body.replace("part", "part@" + layer).replace("lib{", "lib@" + layer + "{") if name != "page" else "P@" + layer + body
    count = 0
    for nlayers in (2, 3):
        layers = layer_dirs[:nlayers] if nlayers == 3 else (layer_dirs[0], layer_dirs[2])
        # every assignment: each template is present in a non-empty subset of the layers
        subsets = [c for r in range(1, nlayers + 1) for c in itertools.combinations(range(nlayers), r)]
        for assign in itertools.product(subsets, repeat=len(names)):
            count += 1
            maps = [{} for _ in layers]
            for name, present in zip(names, assign, strict=True):
                for li in present:
                    maps[li][name] = src(layers[li], name)
            targets = []
            for li, m in enumerate(maps):
                t = os.path.join(root, f"c{count}", layers[li] + ("" if zmode is None else ".zip"))
                os.makedirs(os.path.dirname(t), exist_ok=True)
                if m:
                    jinja2.Environment(loader=jinja2.DictLoader(m)).compile_templates(t, zip=zmode, log_function=lambda x: None)
                    targets.append(t)
            ref_env = jinja2.Environment(loader=jinja2.ChoiceLoader([jinja2.DictLoader(m) for m in maps if m]))
            mod_env = jinja2.Environment(loader=jinja2.ModuleLoader(targets))
            for name in names:
                ref = corpus.outcome(lambda: ref_env.get_template(name).render())
                got = corpus.outcome(lambda: mod_env.get_template(name).render())
                p.evals += 1
                if got != ref:
                    p.violation("C31/multi-path/" + name, {
                        "msg": f"zip={zmode} layers {layers} with {dict(zip(names, assign, strict=True))}: ModuleLoader({[os.path.basename(t) for t in targets]}) renders "
                               f"{name!r} as {got!r}; the source loaders in the same order give {ref!r}",
                        "script": "print(%r)\n" % {"layers": layers, "present_in": dict(zip(names, assign, strict=True)), "zip": zmode}})
            p.sig(("multipath", zmode, nlayers, assign[0]))
            shutil.rmtree(os.path.join(root, f"c{count}"), ignore_errors=True)
    p.sample({"part": "several compiled paths", "zip": zmode, "layers": list(layer_dirs)}, cap=1)
    shutil.rmtree(root, ignore_errors=True)
    return p


def dispatch(arg):
    if arg[0] == "m":
        return multipath_shard(arg[1])
    if arg[0] == "g":
        return grow_shard(arg[1])
    return shared_shard(arg[1]) if arg[0] == "s" else shard(arg[1])


def run(ctx: core.Ctx):
    core.import_all_jinja()
    ctx.rule = ("every corpus item x zip mode (directory, stored, deflated) x loader (ModuleLoader, ChoiceLoader with source "
                "fallback); distinct = distinct (corpus kind, output prefix)")
    ctx.assumptions += ["ModuleLoader keeps imported modules in sys.modules under a per-loader package name; each case uses a fresh loader and target"]
    n = 64
    shards = [("c", (ctx.tier, k, n)) for k in range(n)]
    shards += [("s", (z, name)) for z in (None, "stored", "deflated") for name in ("t", "child", "undef", "lib", "cnt")]
    gdepth = 4 if ctx.quick else 5
    shards += [("g", (op, gdepth)) for op in GROW_OPS]
    shards += [("m", z) for z in (None, "stored", "deflated")]
    ctx.pmap(dispatch, shards)
    ctx.cov["growing_set_history_depth"] = gdepth + 0
    ctx.cov["bounds"] = {"corpus": str(corpus.BOUNDS["small" if ctx.quick else "quick"]),
                         "zip_modes": [None, "deflated"] if ctx.quick else [None, "stored", "deflated"]}
