"""C16 — autoescaping escapes each value exactly once."""
from __future__ import annotations

import html

from vf import core, corpus, e4

META = {
    "level": "exploration",
    "engine": "E1",
    "technique": "bounded-exhaustive enumeration of the shared program corpus, each rendered with autoescape on and off and "
    "compared through the escape-once relation",
    "text": "Every statement program (macros, call blocks, block assignments, filter blocks, loops, namespaces), inheritance "
    "chain (super, self.block, nested and scoped blocks) and include/import scenario of the corpus is rendered twice, with "
    "autoescape on and off, on data whose values contain every HTML metacharacter.  html.unescape(on) must equal off (a "
    "skipped escape or a double escape breaks it: a doubly escaped '<' unescapes once to '&lt;'); items whose data carry no "
    "metacharacter must render identically in both modes (template text such as '<a1>' must never be escaped).  Errors "
    "must be of the same class in both modes.  A second family crosses every carrier of already-safe text (macro result, "
    "caller(), block assignment, self.block(), recursive loop result, captured include, imported macro, namespace "
    "attribute) with every escaping-neutral consumer (~ on either side, join with plain and tainted delimiters, default, "
    "conditional expression, set, macro argument, loop.cycle, with, filter block, dict item) on tainted data.",
    "note": "Corpus bounds of vf/corpus.py; constructs are escaping-neutral (the only filter is `upper`, whose effect on "
    "character references html.unescape tolerates); the property excludes safe-marking and length/position-sensitive operations.",
    "design_ref": "DESIGN.md §4 C16",
}

# (the trailing entity-like text makes a MISSING escape visible to the unescape-once relation as well as a double one)
TAINT = "<&>\"'&lt;"


def relation_ok(off, on):
    if isinstance(off, tuple) or isinstance(on, tuple):
        return off == on
    return html.unescape(on) == off


def shard(arg):
    tier, k, n = arg
    p = core.Part()
    for it in corpus.items(tier, shard=(k, n)):
        value = TAINT if it.kind == "stmt" else None
        # async twin on every 4th shard: async macros / call blocks / loops must keep the safe status too
        for async_ in ((False, True) if k % 4 == 0 else (False,)):
            outs = {}
            for ae in (False, True):
                env, gm, data = corpus.safe_make(it, env_kwargs={"autoescape": ae, "enable_async": async_}, value=value)
                if it.kind != "stmt":
                    # taint every plain string value of the data and the environment globals
                    data = {kk: (v + TAINT if isinstance(v, str) and not kk.startswith(("pv", "tv")) else v)
                            for kk, v in data.items()}
                if async_:
                    outs[ae] = corpus.outcome(lambda: e4.run(gm().render_async(**data)))
                else:
                    outs[ae] = corpus.outcome(lambda: gm().render(**data))
            p.evals += 1
            off, on = outs[False], outs[True]
            tainted = isinstance(off, str) and any(c in off for c in "&\"'")
            p.sig((it.kind, tainted, isinstance(off, tuple), async_, str(off)[:20]))
            if not relation_ok(off, on):
                kind = "error-class" if (isinstance(off, tuple) or isinstance(on, tuple)) else "double-or-missing-escape"
                p.violation(f"C16/{kind}/{it.kind}" + ("/async" if async_ else ""), {
                    "msg": f"{it.ident} (async={async_}): autoescape off -> {off!r}; autoescape on -> {on!r}; unescaped once -> "
                           f"{html.unescape(on) if isinstance(on, str) else on!r}",
                    "script": "print(%r)\n" % {"sources": it.sources}})
            p.sample({"item": it.ident, "off": str(off)[:80], "on": str(on)[:80]}, cap=1)
    return p


# ------------------------------------------------------------------ safe carriers x neutral consumers
# Values that are already safe in autoescape mode (macro results, caller(), block assignments, self.block(),
# super(), recursive loop results, included output captured in a set block) flowing through escaping-neutral
# operations together with tainted data: still escaped exactly once.

CARRIERS = {
    "macro": ("{% macro m(v) %}<b>{{ v }}</b>{% endmacro %}", "m(x)"),
    "macro_const": ("{% macro m(v) %}<i>{{ v }}</i>{% endmacro %}", "m('k')"),
    "setblock": ("{% set sv %}[{{ x }}]{% endset %}", "sv"),
    "setblock_filter": ("{% set sv | trim %} [{{ x }}] {% endset %}", "sv"),
    "caller": ("{% macro w() %}({{ caller() }}){% endmacro %}{% set sv %}{% call w() %}{{ x }}{% endcall %}{% endset %}", "sv"),
    "selfblock": ("{% block blk %}<u>{{ x }}</u>{% endblock %}", "self.blk()"),
    "recursive": ("{% set sv %}{% for n in tree recursive %}{{ n.t }}{% if n.c %}<{{ loop(n.c) }}>{% endif %}{% endfor %}{% endset %}", "sv"),
    "include": ("{% set sv %}{% include 'inc' %}{% endset %}", "sv"),
    "imported": ("{% from 'lib' import lm %}", "lm(x)"),
    "joiner_ns": ("{% set ns = namespace(v='') %}{% set ns.v %}{{ x }}{% endset %}", "ns.v"),
}
CONSUMERS = [
    "{{ C }}", "{{ C ~ y }}", "{{ y ~ C }}", "{{ C ~ C }}", "{{ C ~ 'k' ~ y }}", "{{ [C, y]|join(',') }}", "{{ [C, y]|join(y) }}",
    "{{ [y, C]|join }}", "{{ C|default(y) }}", "{{ undefined_name|default(C) }}", "{{ C if y else y }}", "{{ (C, y)|first }}",
    "{{ [C]|last }}", "{% set z = C ~ y %}{{ z }}", "{% set z = C %}{{ z ~ y }}", "{% macro o(a) %}{{ a }}|{{ a ~ y }}{% endmacro %}{{ o(C) }}",
    "{% for q in [C, y] %}{{ q }}{{ loop.cycle(C, y) }}{% endfor %}", "{% with z = C %}{{ z }}{{ y }}{% endwith %}",
    "{% filter trim %} {{ C }}{{ y }} {% endfilter %}", "{% if C %}{{ C }}{% endif %}", "{{ {'k': C}.k ~ y }}", "{{ C|string ~ y }}",
    "{{ C|trim ~ y }}", "{{ [C, C]|join(y)|trim }}", "{{ cyc.next() ~ y }}",
    # str.format / format_map / % with a safe format string and safe or unsafe arguments (the sandbox wraps these calls)
    "{{ C.format(y) }}", "{% set fs %}<i>{}</i>{}{% endset %}{{ fs.format(C, y) }}", "{% set fs %}<i>{a}</i>{b}{% endset %}{{ fs.format(a=C, b=y) }}",
    "{% set fs %}<i>{a}</i>{b}{% endset %}{{ fs.format_map({'a': C, 'b': y}) }}", "{% set fs %}<i>%s</i>%s{% endset %}{{ fs % (C, y) }}",
    "{% set fs %}<i>%s</i>%s{% endset %}{{ fs|format(C, y) }}",
    # (a PLAIN format string is not a consumer: str % Markup is a new unsafe str by MarkupSafe's rules, escaped once as a whole)
    # failed lookups: what an undefined prints (DebugUndefined embeds the failed key / name) is a value like any other
    "{{ dd[y] }}|{{ C }}", "{{ dd[y].z }}{{ missing_name }}|{{ dd.k }}{{ C }}",
    # constants of every type are escaped like any other value
    "{{ ['&lt;', '<'] }}{{ {'k': '&amp;<'} }}{{ ('&gt;',) }}{{ 1 ~ '&lt;' }}{{ '&lt;' ~ 1.5 }}{{ ['&lt;']|first }}{{ C }}",
]
ENV_CLASSES = ("Environment", "SandboxedEnvironment", "ImmutableSandboxedEnvironment")
UNDEFINEDS = ("Undefined", "DebugUndefined", "ChainableUndefined")


class TNode:
    def __init__(self, t, c=()):
        self.t, self.c = t, list(c)


def family_shard(arg):
    import jinja2

    cname = arg
    prelude, cexpr = CARRIERS[cname]
    p = core.Part()
    loader_map = {"inc": "I{{ x }}<inc>", "lib": "{% macro lm(v) %}<l>{{ v }}</l>{% endmacro %}",
                  "base": "B[{% block blk %}b{{ x }}{% endblock %}]"}
    import jinja2.sandbox

    # ways of switching autoescape on/off: the constant, and a callable that decides by template name (what
    # select_autoescape is); "named-*" answers the opposite for `None`, so code compiled without the name shows
    how_on = {"bool": True, "named": lambda name: name is not None}
    how_off = {"bool": False, "named": lambda name: name is None}
    for cons, ecls, undef in ((c, e, u) for c in CONSUMERS for e in ENV_CLASSES for u in UNDEFINEDS):
        if undef != "Undefined" and ecls != "Environment":
            continue
        src = prelude + cons.replace("C", cexpr)
        for async_ in (False, True):
            outs = {}
            for how in ("bool", "named"):
              for ae in (False, True):
                env = getattr(jinja2.sandbox, ecls)(loader=jinja2.DictLoader(dict(loader_map, main=src)), enable_async=async_,
                                                    autoescape=(how_on if ae else how_off)[how], undefined=getattr(jinja2, undef))
                data = {"x": TAINT, "y": "y" + TAINT, "tree": [TNode(TAINT, [TNode("a" + TAINT)]), TNode("b")],
                        "cyc": jinja2.utils.Cycler(TAINT, "k"), "dd": {}}
                if async_:
                    outs[how, ae] = corpus.outcome(lambda: e4.run(env.get_template("main").render_async(**data)))
                else:
                    outs[how, ae] = corpus.outcome(lambda: env.get_template("main").render(**data))
            p.evals += 1
            for ae in (False, True):
                if outs["named", ae] != outs["bool", ae]:
                    p.violation(f"C16/name-dependent-autoescape-differs/carrier-{cname}", {
                        "msg": f"{src!r} ({ecls}, async={async_}): autoescape={ae} as a constant -> {outs['bool', ae]!r}; decided by a "
                               f"callable from the template name -> {outs['named', ae]!r}",
                        "script": "print(%r)\n" % src})
            off, on = outs["bool", False], outs["bool", True]
            p.sig(("fam", cname, CONSUMERS.index(cons), isinstance(off, tuple), async_, ecls, undef))
            if not relation_ok(off, on):
                p.violation(f"C16/double-or-missing-escape/carrier-{cname}" + ("/async" if async_ else "") + ("" if ecls == "Environment" else "/sandbox"), {
                    "msg": f"{src!r} ({ecls}, undefined={undef}, async={async_}): autoescape off -> {off!r}; on -> {on!r}; unescaped once -> "
                           f"{html.unescape(on) if isinstance(on, str) else on!r}",
                    "script": "print(%r)\n" % src})
    p.sample({"carrier": cname, "consumers": len(CONSUMERS)}, cap=1)
    return p


def dispatch(arg):
    return family_shard(arg[1]) if arg[0] == "f" else shard(arg[1])


def run(ctx: core.Ctx):
    core.import_all_jinja()
    ctx.rule = ("every corpus item x autoescape on/off; distinct = distinct (corpus kind, output carries metacharacters, error?, "
                "output prefix)")
    ctx.assumptions += ["html.unescape maps the upper-cased references produced by the `upper` filter block (&LT; &AMP; &#34;) back",
                        "template text contains '<' and '>' but no '&', so unescaping the autoescaped output cannot alter template text"]
    n = 64
    ctx.pmap(dispatch, [("c", (ctx.tier, k, n)) for k in range(n)] + [("f", c) for c in CARRIERS])
    ctx.cov["bounds"] = {"corpus": str(corpus.BOUNDS[ctx.tier])}
