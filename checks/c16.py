"""C16 — autoescaping escapes each value exactly once."""
from __future__ import annotations

import html

from vf import core, corpus

META = {
    "level": "exploration",
    "engine": "E1",
    "technique": "bounded-exhaustive enumeration of the shared program corpus, each rendered with autoescape on and off and "
    "compared through the escape-once relation",
    "text": "Every statement program (macros, call blocks, block assignments, filter blocks, loops, namespaces), inheritance "
    "chain (super, self.block, nested and scoped blocks) and include/import scenario of the corpus is rendered twice, with "
    "autoescape on and off, on data whose values contain every HTML metacharacter.  html.unescape(on) must equal off (a "
    "skipped escape or a double escape breaks it: a doubly escaped '<' unescapes once to '&lt;'); items whose data carry no "
    "metacharacter must render identically in both modes (template text such as '<a1>' must never be escaped).  Errors "
    "must be of the same class in both modes.",
    "note": "Corpus bounds of vf/corpus.py; constructs are escaping-neutral (the only filter is `upper`, whose effect on "
    "character references html.unescape tolerates); the property excludes safe-marking and length/position-sensitive operations.",
    "design_ref": "DESIGN.md §4 C16",
}

TAINT = "<&>\"'"


def shard(arg):
    tier, k, n = arg
    p = core.Part()
    for it in corpus.items(tier, shard=(k, n)):
        value = TAINT if it.kind == "stmt" else None
        outs = {}
        for ae in (False, True):
            env, gm, data = it.make(env_kwargs={"autoescape": ae}, value=value)
            if it.kind != "stmt":
                # taint every plain string value of the data and the environment globals
                data = {kk: (v + TAINT if isinstance(v, str) and not kk.startswith(("pv", "tv")) else v) for kk, v in data.items()}
            outs[ae] = corpus.outcome(lambda: gm().render(**data))
        p.evals += 1
        off, on = outs[False], outs[True]
        if isinstance(off, tuple) or isinstance(on, tuple):
            ok = off == on
        else:
            ok = html.unescape(on) == off
        tainted = isinstance(off, str) and any(c in off for c in "&\"'")
        p.sig((it.kind, tainted, isinstance(off, tuple), str(off)[:20]))
        if not ok:
            kind = "error-class" if (isinstance(off, tuple) or isinstance(on, tuple)) else ("double-or-missing-escape")
            p.violation(f"C16/{kind}/{it.kind}", {
                "msg": f"{it.ident}: autoescape off -> {off!r}; autoescape on -> {on!r}; unescaped once -> "
                       f"{html.unescape(on) if isinstance(on, str) else on!r}",
                "script": "print(%r)\n" % {"sources": it.sources}})
        p.sample({"item": it.ident, "off": str(off)[:80], "on": str(on)[:80]}, cap=1)
    return p


def run(ctx: core.Ctx):
    core.import_all_jinja()
    ctx.rule = ("every corpus item x autoescape on/off; distinct = distinct (corpus kind, output carries metacharacters, error?, "
                "output prefix)")
    ctx.assumptions += ["html.unescape maps the upper-cased references produced by the `upper` filter block (&LT; &AMP; &#34;) back",
                        "template text contains '<' and '>' but no '&', so unescaping the autoescaped output cannot alter template text"]
    n = 64
    ctx.pmap(shard, [(ctx.tier, k, n) for k in range(n)])
    ctx.cov["bounds"] = {"corpus": str(corpus.BOUNDS[ctx.tier])}
