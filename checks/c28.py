"""C28 — loaders never resolve a template name outside their search locations.

Part 1 (file system / package loaders).  Every name of <= k segments over a
13-fragment alphabet, joined by "/", with and without a leading "/", plus
names that spell sentinel files explicitly (absolute paths, ../secret.txt ...),
is given to FileSystemLoader (one / two search directories, relative / absolute,
with / without trailing slash, both orders) and to PackageLoader (directory
package, three package_path spellings) on a scratch tree:

    top/                     secret.txt t.txt a é sub/t.txt           <- sentinels above
      work/   (= cwd)        secret.txt t.txt a é                     <- sentinels beside the roots
        sub/                 t.txt a é secret.txt sub/t.txt           <- sentinel sibling directory
        ~/    (root R1)      t.txt sub/t.txt a
        C:/   (root R2)      t.txt é sub(file)
      pkgs/   (on sys.path)  secret.txt t.txt a é sub/t.txt           <- sentinels
        c28pkg/              __init__.py + secret.txt t.txt a é sub/t.txt   <- sentinels inside the package
          templates/         t.txt a é sub/t.txt sub/a sub/sub/t.txt  <- package template root

The two roots are called "~" and "C:" on purpose: both are fragments of the
alphabet, so "../C:/t.txt" names a file of the *other* root through a parent
reference, and nothing may treat them as a home directory or a drive.

Oracle: a sys.addaudithook listener (flag-gated around each loader call)
records every `open`; each opened path must lie (realpath) under a search
root; the outcome must be what the in-root reference resolution over the tree
*specification* (a dict, no file system access) says: the file's content, or
TemplateNotFound.  Names with a ".." segment must give TemplateNotFound and
nothing else.

Part 2 (compositions).  ChoiceLoader / PrefixLoader trees over <= 3 leaf
loaders (DictLoader, FunctionLoader returning a str, FunctionLoader returning
a (source, filename, uptodate) triple; four kind vectors so every leaf
position sees every kind), every assignment of a small name set to the leaves
with no / each single / all sources being the EMPTY string, every query
name over {p, q, x}: both `get_source` and `load` (ChoiceLoader and
PrefixLoader override both) must resolve to the first loader that has the name
and raise TemplateNotFound exactly when none has it; PrefixLoader splits on
the first delimiter.

Part 3 (histories on one composition object).  For every shape x leaf
contents x kind vector: resolve every name that resolves before or after,
apply one change to one leaf (add an absent name / remove a present one),
resolve again with the SAME loader objects: the answer is the first loader
that has the name now, for get_source and for load.
"""
from __future__ import annotations

import itertools
import os
import sys

from vf import core

META = {
    "level": "exploration",
    "engine": "E1",
    "technique": "bounded-exhaustive enumeration of template names over a path-fragment alphabet against a scratch tree "
    "with sentinel files, audit-hook observation of every open(), and an in-root reference resolution; exhaustive "
    "enumeration of loader compositions x leaf contents x query names against a recursive reference resolver",
    "text": "All names of <= 5 segments (quick 3) over 13 fragments ('..', '.', '', backslash forms, drive, '~', "
    "percent-encoding, NUL, non-ASCII), with/without leading '/', plus explicit sentinel spellings, on 12 "
    "FileSystemLoader and 3 PackageLoader setups: no file outside the search roots is ever opened, the result is the "
    "file the in-root resolution finds or TemplateNotFound, parent references only ever give TemplateNotFound. All "
    "ChoiceLoader/PrefixLoader trees from a list of 17 shapes over <= 3 Dict/Function loaders x all leaf contents (incl. empty-string sources) x all query "
    "names: first loader wins, TemplateNotFound iff none has the name, prefix split at the first delimiter (single- and multi-character delimiters, the remainder starts after the whole delimiter), for both "
    "get_source and load.",
    "note": "POSIX only (os.sep='/', os.altsep=None: the backslash and drive fragments are ordinary characters here); "
    "only open() is observed (stat/isfile probes outside the roots are not reads); no symlinks in the tree; zip "
    "packages and ModuleLoader out of scope.",
    "design_ref": "DESIGN.md §4 C28",
}

E_ACUTE = "\xe9"
SEGS = ("..", ".", "", "a", "sub", "t.txt", "a\\..\\b", "\\", "C:", "~", "%2e%2e", "..\x00", E_ACUTE)

R1, R2 = "~", "C:"

# ---------------------------------------------------------------- the tree (specification: relative path -> content)

ROOT_FILES = {
    R1: {"t.txt": "R1 t.txt", "sub/t.txt": "R1 sub/t.txt", "a": "R1 a"},
    R2: {"t.txt": "R2 t.txt", E_ACUTE: "R2 e-acute", "sub": "R2 sub-is-a-file"},
}
PKG_FILES = {"t.txt": "PKG t.txt", "a": "PKG a", E_ACUTE: "PKG e-acute", "sub/t.txt": "PKG sub/t.txt",
             "sub/a": "PKG sub/a", "sub/sub/t.txt": "PKG sub/sub/t.txt"}
SENTINEL_NAMES = ("secret.txt", "t.txt", "a", E_ACUTE, "sub/t.txt")


def tree_spec():
    """every file of the scratch tree: path relative to the scratch base -> content"""
    spec = {}
    for n in SENTINEL_NAMES:
        spec["top/" + n] = "SENTINEL top/" + n
        spec["top/pkgs/" + n] = "SENTINEL top/pkgs/" + n
        spec["top/pkgs/c28pkg/" + n] = "SENTINEL top/pkgs/c28pkg/" + n
        if n != "sub/t.txt":
            spec["top/work/" + n] = "SENTINEL top/work/" + n
        spec["top/work/sub/" + n] = "SENTINEL top/work/sub/" + n
    for r, files in ROOT_FILES.items():
        for n, c in files.items():
            spec[f"top/work/{r}/{n}"] = c
    spec["top/pkgs/c28pkg/__init__.py"] = ""
    for n, c in PKG_FILES.items():
        spec["top/pkgs/c28pkg/templates/" + n] = c
    return spec


def build_tree(base):
    for rel, content in tree_spec().items():
        path = os.path.join(base, *rel.split("/"))
        os.makedirs(os.path.dirname(path), exist_ok=True)
        with open(path, "w", encoding="utf-8") as f:
            f.write(content)


# ---------------------------------------------------------------- setups


def fs_setups():
    out = []
    for dirs in ((R1,), (R1, R2), (R2, R1)):
        for absolute in (False, True):
            for slash in (False, True):
                out.append(("fs", dirs, absolute, slash))
    return out


def pkg_setups():
    return [("pkg", "templates"), ("pkg", "templates/"), ("pkg", "templates/sub")]


def setup_roots(setup):
    """search roots of a setup as paths relative to the scratch base, in search order"""
    if setup[0] == "fs":
        return ["top/work/" + d for d in setup[1]]
    return ["top/pkgs/c28pkg/" + setup[1].rstrip("/")]


def make_loader(setup, base):
    import jinja2

    if setup[0] == "fs":
        _k, dirs, absolute, slash = setup
        paths = []
        for d in dirs:
            p = os.path.join(base, "top", "work", d) if absolute else d
            paths.append(p + "/" if slash else p)
        return jinja2.FileSystemLoader(paths[0] if len(paths) == 1 else paths)
    return jinja2.PackageLoader("c28pkg", setup[1])


# ---------------------------------------------------------------- reference: in-root resolution on the specification


def ref_resolve(name, setup, spec):
    """("ok", content, path relative to base) | ("nf", "leaves" | "absent")

    FileSystemLoader docs: 'The directories will be searched in order, stopping at the first matching template';
    get_template docs: '"/" is used as the path separator, even on Windows'; split_template_path docstring: a
    '..' segment raises TemplateNotFound.  A segment containing the platform separator(s) leaves the name space too.
    """
    pieces = name.split("/")
    for p in pieces:
        if p == ".." or os.sep in p or (os.altsep and os.altsep in p):
            return ("nf", "leaves")
    # CALIBRATED (split_template_path): empty and "." segments are dropped ("/t.txt", "sub//t.txt", "./t.txt",
    # "t.txt/" all name t.txt); this never leaves the root.
    kept = [p for p in pieces if p and p != "."]
    if kept:
        for root in setup_roots(setup):
            rel = root + "/" + "/".join(kept)
            if rel in spec:
                return ("ok", spec[rel], rel)
    return ("nf", "absent")


# ---------------------------------------------------------------- audit hook

_AUD = {"installed": False, "on": False, "opens": []}


def _hook(event, args):
    if _AUD["on"] and event == "open":
        _AUD["opens"].append(args[0])


def install_hook(base):
    if not _AUD["installed"]:
        sys.addaudithook(_hook)
        _AUD["installed"] = True
    # self-test on every shard: the listener sees an open() and is silent when gated off
    probe = os.path.join(base, "top", "secret.txt")
    _AUD["opens"] = []
    _AUD["on"] = True
    try:
        with open(probe, encoding="utf-8") as f:
            f.read()
    finally:
        _AUD["on"] = False
    with open(probe, encoding="utf-8") as f:
        f.read()
    if _AUD["opens"] != [probe]:
        raise core.HarnessError(f"audit hook self-test failed: {_AUD['opens']!r}")


def observed_call(fn):
    _AUD["opens"] = []
    _AUD["on"] = True
    try:
        return fn()
    finally:
        _AUD["on"] = False


def rel_to_base(path, base_real):
    """realpath of an opened/returned path, relative to the scratch base ('<outside>/...' when not under it)"""
    if isinstance(path, int):
        return None
    try:
        rp = os.path.realpath(os.fsdecode(path))
    except ValueError:
        return None  # embedded NUL: nothing can be opened under that name
    if rp == base_real or rp.startswith(base_real + os.sep):
        return rp[len(base_real) + 1:].replace(os.sep, "/")
    return "<outside>" + rp


def under_roots(rel, roots):
    return rel is not None and any(rel == r or rel.startswith(r + "/") for r in roots)


# ---------------------------------------------------------------- part 1 shards


def names_with_first(first, lead, maxseg):
    for k in range(0, maxseg):
        for rest in itertools.product(SEGS, repeat=k):
            yield ("/" if lead else "") + "/".join((first,) + rest)


def extra_names(base):
    """names that spell sentinel files explicitly"""
    out = []
    prefixes = [""] + ["/".join(t) + "/" for k in (1, 2, 3) for t in itertools.product(SEGS, repeat=k)]
    for pre in prefixes:
        for lead in ("", "/"):
            out.append(lead + pre + "secret.txt")
    spec = tree_spec()
    for rel in sorted(spec):
        ab = os.path.join(base, *rel.split("/"))
        out += [ab, "/" + ab, "//" + ab, "./" + ab, "file://" + ab, "C:" + ab, "~" + ab, "\\" + ab]
        out.append(rel)                       # relative to the scratch base
        out.append(rel.split("/", 1)[1])      # relative to top/
        if rel.startswith("top/work/"):
            out.append(rel[len("top/work/"):])  # relative to the working directory
            out.append("./" + rel[len("top/work/"):])
    out += ["..\\secret.txt", "..\\..\\secret.txt", "~/secret.txt", "~root/secret.txt", "$HOME/secret.txt",
            "%2e%2e/secret.txt", "%2e%2e%2fsecret.txt", "..%2fsecret.txt", "\x00", "t.txt\x00", "t.txt\x00/../secret.txt",
            "..\x00/secret.txt", "\uff0e\uff0e/secret.txt", "\u2025/secret.txt", ".\u200b./secret.txt", "...", "..../t.txt",
            ".. /secret.txt", " ../secret.txt", "../", "/..", "/../", "..", "t.txt/..", "t.txt/../t.txt", "sub/..", "con", "nul"]
    return out


def _script(setup, name):
    return (
        "import os, sys, tempfile, jinja2\n"
        "from checks import c28\n"
        "base = tempfile.mkdtemp(dir='/dev/shm'); c28.build_tree(base)\n"
        "os.chdir(os.path.join(base, 'top', 'work')); sys.path.insert(0, os.path.join(base, 'top', 'pkgs'))\n"
        f"setup, name = {setup!r}, {name!r}\n"
        "loader = c28.make_loader(setup, base)\n"
        "print('search roots:', getattr(loader, 'searchpath', None) or loader._template_root)\n"
        "on = [False]; env = jinja2.Environment()\n"
        "sys.addaudithook(lambda e, a: print('   open', a[0], '=', os.path.realpath(a[0])) if on[0] and e == 'open' else None)\n"
        "on[0] = True\n"
        "try:\n"
        "    src, fn, _ = loader.get_source(env, name)\n"
        "    on[0] = False; print('get_source(%r) ->' % name, repr(src), 'from', os.path.realpath(fn))\n"
        "except Exception as e:\n"
        "    on[0] = False; print('get_source(%r) raised' % name, type(e).__name__, e)\n"
        "print('reference:', c28.ref_resolve(name, setup, c28.tree_spec()))\n"
        "import shutil; os.chdir('/'); shutil.rmtree(base)\n"
    )


def check_name(p, env, loader, setup, name, spec, base_real, roots, kindtag):
    import jinja2

    p.evals += 1
    ref = ref_resolve(name, setup, spec)
    try:
        src, fn, _upt = observed_call(lambda: loader.get_source(env, name))
        got = ("ok", src, rel_to_base(fn, base_real))
    except jinja2.TemplateNotFound:
        got = ("nf",)
    except Exception as e:  # noqa: BLE001
        got = ("exc", type(e).__name__)
    opens = [rel_to_base(o, base_real) for o in _AUD["opens"]]

    def viol(kind, msg):
        p.violation(f"C28/{kindtag}/{kind}", {
            "msg": f"setup={setup} name={name!r}: {msg}; got={got!r} reference={ref!r} opened={opens!r}",
            "setup": list(setup), "name": name, "script": _script(setup, name)})

    outside = [o for o in opens if o is not None and not under_roots(o, roots)]
    if outside:
        viol("read-outside-root", f"opened {outside!r} which is not under {roots!r}")
    if got[0] == "ok":
        if ref[0] != "ok":
            viol("wrong-resolution/found-instead-of-notfound", "a name that must not resolve was resolved")
        elif got[1] != ref[1] or got[2] != ref[2]:
            viol("wrong-resolution/wrong-file", "resolved to another file than the in-root resolution")
        elif opens != [ref[2]]:
            viol("wrong-resolution/opened-other-files", "opened something else than the resolved file")
    elif got[0] == "nf":
        if ref[0] == "ok":
            viol("wrong-resolution/notfound-instead-of-found", "an existing in-root template was not found")
    else:
        if ref == ("nf", "leaves"):
            viol("raises/" + got[1], "a name leaving the roots must give TemplateNotFound")
        else:
            # not judged (the name does not leave the roots); reported as an observation
            p.count("non_TemplateNotFound_exceptions_for_in_root_names")
            p.counters["observed exception %s for e.g." % got[1]] = repr(name)
    cls = ref[2].split("/", 2)[-1] if ref[0] == "ok" else ref[1]
    if ref[0] == "ok" or ref[1] == "leaves" or got[0] != "nf" or any(c in name for c in "\\:~%\x00" + E_ACUTE):
        p.sig((kindtag, setup[1:], cls, got[0] if got[0] != "ok" else got[2], got[1] if got[0] == "exc" else ""))
    return got


def fs_shard(arg):
    setup, mode, a, b, maxseg, base = arg
    core.import_all_jinja()
    import jinja2

    p = core.Part()
    spec = tree_spec()
    base_real = os.path.realpath(base)
    roots = setup_roots(setup)
    old_cwd = os.getcwd()
    pkgs = os.path.join(base, "top", "pkgs")
    os.chdir(os.path.join(base, "top", "work"))
    sys.path.insert(0, pkgs)
    try:
        install_hook(base)
        loader = make_loader(setup, base)
        env = jinja2.Environment()
        kindtag = setup[0]
        if mode == "alphabet":
            names = names_with_first(SEGS[a], b, maxseg)
        else:
            names = extra_names(base)
        n_ok = 0
        for name in names:
            got = check_name(p, env, loader, setup, name, spec, base_real, roots, kindtag)
            if got[0] == "ok":
                n_ok += 1
                p.sample({"setup": list(setup), "name": name, "resolved": got[2]}, cap=1)
        p.count("names_resolved_to_a_file", n_ok)
        p.count("loader_calls", p.evals)
    finally:
        os.chdir(old_cwd)
        if pkgs in sys.path:
            sys.path.remove(pkgs)
    return p


# ---------------------------------------------------------------- part 2: compositions


def D(i):
    return ("D", i)


def C(*ch):
    return ("C", ch)


def P(delim="/", **kw):
    return ("P", tuple(kw.items()), delim)


def P_(pairs, delim="/"):
    return ("P", tuple(pairs), delim)


SHAPES = [
    C(D(0), D(1)),
    C(D(0), D(1), D(2)),
    C(D(0), C(D(1), D(2))),
    C(C(D(0), D(1)), D(2)),
    P(p=D(0), q=D(1)),
    P_([("p", D(0)), ("q", D(1)), ("p/q", D(2))]),       # a key containing the delimiter is unreachable
    P(p=P(q=D(0)), q=D(1)),                               # nested prefixes
    P(p=C(D(0), D(1)), q=D(2)),
    C(P(p=D(0)), D(1), P(p=D(2))),                        # "p/x" may also be a plain name of D1
    C(P(p=D(0), q=D(1)), P(q=D(2))),
    P(":", p=D(0), q=D(1)),                               # other delimiter
    P_([("", D(0)), ("p", D(1))]),                        # empty prefix: "/x"
    P(p=P(":", q=D(0)), q=C(D(1))),                       # nested with different delimiters
    P("::", p=D(0), q=D(1)),                              # multi-character delimiter (":" alone is not one)
    P("->", p=D(0), q=P("::", p=D(1))),                   # nested multi-character delimiters
    P_([("p", D(0)), ("p_", D(1)), ("q", D(2))], "__"),   # delimiter character also ends a prefix: "p___x"
    P("q/", p=D(0), x=D(1)),                              # delimiter made of characters that occur in names
]

QUERY_EDGE = ["", "/", "p/", "/x", "p//x", "x/", ":x", "p:x", "p:q/x", "p:q:x", "q:x", "p:p/x", "p/q:x", "p/q:q/x",
              "q:p/x", "//x", "p/q/", "p:",
              # multi-character delimiters: the remainder starts after the WHOLE first delimiter
              "p::x", "p::q/x", "p:::x", "q::x", "p::", "::x", "p::p::x", "p::q::x", "p->x", "p->q/x", "q->p::x",
              "q->p:x", "q->p::q/x", "p-x", "p>x", "p->", "q->p->x", "p__x", "p___x", "p____x", "p_x", "p___q/x",
              "p__q/x", "q__x", "q___x", "p_", "pq/x", "pq/q/x", "xq/x", "xq/q/x", "pq/", "q/x", "pq//x", "pqq/x"]


def leaf_count(tree):
    if tree[0] == "D":
        return tree[1] + 1
    if tree[0] == "C":
        return max(leaf_count(c) for c in tree[1])
    return max(leaf_count(c) for _k, c in tree[1])


KIND_VECTORS = (("D", "D", "D"), ("D", "F", "T"), ("F", "T", "D"), ("T", "D", "F"))


def build_leaf(kind, mapping):
    """D: DictLoader; F: FunctionLoader returning the source str (or None); T: FunctionLoader returning the
    (source, filename, uptodate) triple (or None).  An EMPTY source "" is a legal template."""
    import jinja2

    if kind == "D":
        return jinja2.DictLoader(mapping)
    if kind == "F":
        return jinja2.FunctionLoader(lambda name: mapping.get(name))
    if kind == "T":
        return jinja2.FunctionLoader(lambda name: (mapping[name], None, lambda: True) if name in mapping else None)
    raise AssertionError(kind)


def build_loader(tree, leaves, kinds=KIND_VECTORS[0]):
    import jinja2

    if tree[0] == "D":
        return build_leaf(kinds[tree[1]], leaves[tree[1]])
    if tree[0] == "C":
        return jinja2.ChoiceLoader([build_loader(c, leaves, kinds) for c in tree[1]])
    return jinja2.PrefixLoader({k: build_loader(c, leaves, kinds) for k, c in tree[1]}, delimiter=tree[2])


def ref_compose(tree, name, leaves):
    """source text or None.  ChoiceLoader: 'If a template could not be found by one loader the next one is tried';
    PrefixLoader: 'each loader is bound to a prefix. The prefix is delimited from the template by a slash'."""
    if tree[0] == "D":
        return leaves[tree[1]].get(name)
    if tree[0] == "C":
        for c in tree[1]:
            r = ref_compose(c, name, leaves)
            if r is not None:
                return r
        return None
    delim = tree[2]
    i = name.find(delim)
    if i < 0:
        return None
    prefix, rest = name[:i], name[i + len(delim):]  # the FIRST delimiter ends the prefix
    for k, c in tree[1]:
        if k == prefix:
            return ref_compose(c, rest, leaves)
    return None


def tree_repr(tree):
    if tree[0] == "D":
        return "D%d" % tree[1]
    if tree[0] == "C":
        return "Choice[" + ", ".join(tree_repr(c) for c in tree[1]) + "]"
    return "Prefix{" + ", ".join("%r: %s" % (k, tree_repr(c)) for k, c in tree[1]) + "}" + ("" if tree[2] == "/" else "delim=%r" % tree[2])


def tree_kind(tree):
    s = tree_repr(tree)
    return "mixed" if ("Choice" in s and "Prefix" in s) else ("choice" if "Choice" in s else "prefix")


def queries(leafnames):
    out = []
    for k in (1, 2, 3):
        out += ["/".join(t) for t in itertools.product(("p", "q", "x"), repeat=k)]
    return out + QUERY_EDGE


def _compose_script(tree, leaves, name, kinds=KIND_VECTORS[0]):
    return (
        "import jinja2\nfrom checks import c28\n"
        f"tree, leaves, name, kinds = {tree!r}, {leaves!r}, {name!r}, {kinds!r}\n"
        "print(c28.tree_repr(tree), 'with leaf contents', leaves, 'leaf loader kinds (D=DictLoader, F=FunctionLoader->str, T=FunctionLoader->triple)', kinds)\n"
        "loader = c28.build_loader(tree, leaves, kinds); env = jinja2.Environment(loader=loader, cache_size=0)\n"
        "for what, f in (('get_source', lambda: loader.get_source(env, name)[0]), ('get_template', lambda: env.get_template(name).render())):\n"
        "    try: print(what, repr(name), '->', repr(f()))\n"
        "    except Exception as e: print(what, repr(name), 'raised', type(e).__name__, e)\n"
        "print('reference:', c28.ref_compose(tree, name, leaves))\n"
    )


def compose_shard(arg):
    si, leafnames, assignments = arg
    core.import_all_jinja()
    import jinja2

    p = core.Part()
    tree = SHAPES[si]
    kind = tree_kind(tree)
    qs = queries(leafnames)
    nleaves = leaf_count(tree)
    for asg, empties, kinds in ((a, e, k) for a in assignments for e in empty_variants(a) for k in KIND_VECTORS):
        kinds = kinds[:nleaves]
        leaves = [{n: ("" if (i, n) in empties else "D%d has %s" % (i, n)) for n in names} for i, names in enumerate(asg)]
        loader = build_loader(tree, leaves, kinds)
        env = jinja2.Environment(loader=loader, cache_size=0)
        p.count("compositions", 1)
        for name in qs:
            ref = ref_compose(tree, name, leaves)
            for what in ("get_source", "load"):
                p.evals += 1
                try:
                    if what == "get_source":
                        got = loader.get_source(env, name)[0]
                    else:
                        got = env.get_template(name).render()
                    exc = None
                except jinja2.TemplateNotFound:
                    got, exc = None, None
                except Exception as e:  # noqa: BLE001
                    got, exc = None, type(e).__name__
                if exc is not None:
                    bad = "raises-" + exc
                elif got == ref:
                    bad = None
                elif got is None:
                    bad = "notfound-instead-of-found"
                elif ref is None:
                    bad = "found-instead-of-notfound"
                else:
                    bad = "wrong-loader"
                if bad:
                    p.violation(f"C28/compose/{kind}/{bad}/{what}", {
                        "msg": f"{tree_repr(tree)} leaves={leaves} leaf kinds={kinds} {what}({name!r}): got {got!r}, reference {ref!r}",
                        "script": _compose_script(tree, leaves, name, kinds)})
            if ref is not None:
                p.sig(("compose", si, name, ref[:2] or "empty"))
                p.sample({"composition": tree_repr(tree), "leaves": leaves, "name": name, "resolves_to": ref}, cap=1)
    return p


def mutations(nleaves, leafnames):
    """one change of one leaf's contents: (leaf, name) is added when absent, removed when present"""
    return [(i, n) for i in range(nleaves) for n in leafnames]


def history_shard(arg):
    """Part 3: two-step histories on ONE composition object.  Resolve every interesting name, change one leaf's
    mapping (an earlier loader gains the name / the serving loader loses it), resolve again: the answer must be the
    first loader that has the name NOW (ChoiceLoader: 'If a template could not be found by one loader the next one is
    tried' - nothing in the documentation lets an earlier answer influence a later one)."""
    si, leafnames, assignments = arg
    core.import_all_jinja()
    import jinja2

    p = core.Part()
    tree = SHAPES[si]
    kind = tree_kind(tree)
    qs = queries(leafnames)
    nleaves = leaf_count(tree)

    def resolve(what, loader, env, name):
        try:
            if what == "get_source":
                return loader.get_source(env, name)[0], None
            return env.get_template(name).render(), None
        except jinja2.TemplateNotFound:
            return None, None
        except Exception as e:  # noqa: BLE001
            return None, type(e).__name__

    def judge(got, exc, ref):
        if exc is not None:
            return "raises-" + exc
        if got == ref:
            return None
        if got is None:
            return "notfound-instead-of-found"
        if ref is None:
            return "found-instead-of-notfound"
        return "wrong-loader"

    for asg in assignments:
        for (mi, mn) in mutations(nleaves, leafnames):
            before = [{n: "D%d has %s" % (i, n) for n in names} for i, names in enumerate(asg)]
            after = [dict(d) for d in before]
            if mn in after[mi]:
                del after[mi][mn]
                change = "remove"
            else:
                after[mi][mn] = "D%d has %s" % (mi, mn)
                change = "add"
            names = [q for q in qs if ref_compose(tree, q, before) is not None or ref_compose(tree, q, after) is not None]
            if not names:
                continue
            for kinds in KIND_VECTORS:
                kinds = kinds[:nleaves]
                for what in ("get_source", "load"):
                    leaves = [dict(d) for d in before]
                    loader = build_loader(tree, leaves, kinds)
                    env = jinja2.Environment(loader=loader, cache_size=0)
                    p.count("histories", 1)
                    for phase, state in (("before", before), ("after", after)):
                        if phase == "after":
                            if change == "remove":
                                del leaves[mi][mn]
                            else:
                                leaves[mi][mn] = after[mi][mn]
                        for name in names:
                            p.evals += 1
                            ref = ref_compose(tree, name, state)
                            got, exc = resolve(what, loader, env, name)
                            bad = judge(got, exc, ref)
                            if bad:
                                p.violation(f"C28/compose-history/{kind}/{phase}-change/{bad}/{what}", {
                                    "msg": f"{tree_repr(tree)} leaf kinds={kinds} contents={before}: resolve {names}, then "
                                           f"{change} {mn!r} in leaf {mi}, then {what}({name!r}) [{phase} the change]: got {got!r}, "
                                           f"reference {ref!r}",
                                    "script": _history_script(tree, before, kinds, names, (mi, mn, change), what)})
                            if phase == "after" and ref != ref_compose(tree, name, before):
                                p.sig(("history", si, change, name, (ref or "NF")[:2]))
                    p.sample({"composition": tree_repr(tree), "leaf_kinds": list(kinds), "contents": before,
                              "history": ["resolve %r via %s" % (names, what), "%s %r in leaf %d" % (change, mn, mi),
                                          "resolve %r again" % (names,)]}, cap=1)
    return p


def _history_script(tree, before, kinds, names, mutation, what):
    mi, mn, change = mutation
    return (
        "import jinja2\nfrom checks import c28\n"
        f"tree, leaves, kinds, names, what = {tree!r}, {before!r}, {kinds!r}, {names!r}, {what!r}\n"
        "print(c28.tree_repr(tree), 'contents', leaves, 'leaf kinds', kinds)\n"
        "loader = c28.build_loader(tree, leaves, kinds); env = jinja2.Environment(loader=loader, cache_size=0)\n"
        "def show():\n"
        "    for name in names:\n"
        "        try: got = loader.get_source(env, name)[0] if what == 'get_source' else env.get_template(name).render()\n"
        "        except Exception as e: got = type(e).__name__\n"
        "        print('  ', what, repr(name), '->', repr(got), '  reference:', repr(c28.ref_compose(tree, name, leaves)))\n"
        "show()\n"
        + (f"del leaves[{mi}][{mn!r}]; print('removed', {mn!r}, 'from leaf', {mi})\n" if change == "remove" else
           f"leaves[{mi}][{mn!r}] = 'D{mi} has {mn}'; print('added', {mn!r}, 'to leaf', {mi})\n")
        + "show()\n"
    )



# ---------------------------------------------------------------- part 4: the composition itself changes


def build_loader_handles(tree, leaves, kinds, handles, path=(), hide=None):
    """like build_loader, but records every composite object under its path so that a history can re-arrange it.
    `hide` = (path, name): the ChoiceLoader at that path is a subclass with its own lookup rule (it does not have `name`)."""
    import jinja2

    if tree[0] == "D":
        ld = build_leaf(kinds[tree[1]], leaves[tree[1]])
    elif tree[0] == "C":
        children = [build_loader_handles(c, leaves, kinds, handles, path + (i,), hide) for i, c in enumerate(tree[1])]
        if hide is not None and hide[0] == path:
            hidden = hide[1]

            class Hiding(jinja2.ChoiceLoader):
                def get_source(self, environment, template):
                    if template == hidden:
                        raise jinja2.TemplateNotFound(template)
                    return super().get_source(environment, template)

                def load(self, environment, name, globals=None):
                    if name == hidden:
                        raise jinja2.TemplateNotFound(name)
                    return super().load(environment, name, globals)

            ld = Hiding(children)
        else:
            ld = jinja2.ChoiceLoader(children)
    else:
        ld = jinja2.PrefixLoader({k: build_loader_handles(c, leaves, kinds, handles, path + (k,), hide) for k, c in tree[1]},
                                 delimiter=tree[2])
    handles[path] = ld
    return ld


def composite_paths(tree, path=()):
    out = []
    if tree[0] == "C":
        out.append((path, "C", len(tree[1])))
        for i, c in enumerate(tree[1]):
            out += composite_paths(c, path + (i,))
    elif tree[0] == "P":
        out.append((path, "P", len(tree[1])))
        for k, c in tree[1]:
            out += composite_paths(c, path + (k,))
    return out


def subtree(tree, path):
    for step in path:
        tree = tree[1][step] if tree[0] == "C" else dict(tree[1])[step]
    return tree


def replace_subtree(tree, path, new):
    if not path:
        return new
    if tree[0] == "C":
        return ("C", tuple(replace_subtree(c, path[1:], new) if i == path[0] else c for i, c in enumerate(tree[1])))
    return ("P", tuple((k, replace_subtree(c, path[1:], new) if k == path[0] else c) for k, c in tree[1]), tree[2])


def rearrangements(node):
    """(label, child order as indices into the node's current children) - every proper re-arrangement of <= 3 children
    that is a permutation or drops members (the empty composition included)"""
    n = len(node[1])
    seen, out = set(), []
    for k in range(n + 1):
        for perm in itertools.permutations(range(n), k):
            if perm != tuple(range(n)) and perm not in seen:
                seen.add(perm)
                out.append(perm)
    return out


def ref_compose_hide(tree, name, leaves, hide, path=()):
    if tree[0] == "D":
        return leaves[tree[1]].get(name)
    if tree[0] == "C":
        if hide is not None and hide[0] == path and name == hide[1]:
            return None
        for i, c in enumerate(tree[1]):
            r = ref_compose_hide(c, name, leaves, hide, path + (i,))
            if r is not None:
                return r
        return None
    delim = tree[2]
    i = name.find(delim)
    if i < 0:
        return None
    prefix, rest = name[:i], name[i + len(delim):]
    for k, c in tree[1]:
        if k == prefix:
            return ref_compose_hide(c, rest, leaves, hide, path + (k,))
    return None


STRUCT_SHAPES = [2, 3, 7, 8, 9, 12]      # indices into SHAPES: every shape with a composite below or beside a ChoiceLoader


def structure_shard(arg):
    """Part 4: histories in which the COMPOSITION changes, not the leaves.  `ChoiceLoader.loaders` and
    `PrefixLoader.mapping` are public attributes and the classes are documented as subclassable, so (a) re-assigning
    or re-ordering the members of a composite at any depth after the first lookups, and (b) a nested ChoiceLoader
    subclass with its own lookup rule, must be honoured by the enclosing loaders: the answer is the first loader of
    the composition AS IT IS NOW that has the name, and a nested loader is asked as a whole."""
    si, leafnames, assignments = arg
    core.import_all_jinja()
    import jinja2

    p = core.Part()
    tree = SHAPES[si]
    kind = tree_kind(tree)
    qs = queries(leafnames)
    nleaves = leaf_count(tree)
    comps = composite_paths(tree)

    def resolve(what, loader, env, name):
        try:
            if what == "get_source":
                return loader.get_source(env, name)[0], None
            return env.get_template(name).render(), None
        except jinja2.TemplateNotFound:
            return None, None
        except Exception as e:  # noqa: BLE001
            return None, type(e).__name__

    def judge(got, exc, ref):
        if exc is not None:
            return "raises-" + exc
        if got == ref:
            return None
        if got is None:
            return "notfound-instead-of-found"
        if ref is None:
            return "found-instead-of-notfound"
        return "wrong-loader"

    for asg in assignments:
        leaves = [{n: "D%d has %s" % (i, n) for n in names} for i, names in enumerate(asg)]
        names0 = [q for q in qs if ref_compose(tree, q, leaves) is not None]
        if not names0:
            continue
        kinds = KIND_VECTORS[0][:nleaves]
        # (b) a nested ChoiceLoader subclass that does not have one of the names
        for (path, ck, _n) in comps:
            if ck != "C" or not path:
                continue
            for hidden in sorted({q for q in names0} | set(leafnames)):
                hide = (path, hidden)
                refs = {q: ref_compose_hide(tree, q, leaves, hide) for q in names0 + [hidden]}
                if all(refs[q] == ref_compose(tree, q, leaves) for q in refs):
                    continue
                for what in ("get_source", "load"):
                    handles = {}
                    loader = build_loader_handles(tree, leaves, kinds, handles, hide=hide)
                    env = jinja2.Environment(loader=loader, cache_size=0)
                    p.count("subclass_compositions", 1)
                    for name, ref in refs.items():
                        p.evals += 1
                        got, exc = resolve(what, loader, env, name)
                        bad = judge(got, exc, ref)
                        if bad:
                            p.violation(f"C28/compose-subclass/{kind}/{bad}/{what}", {
                                "msg": f"{tree_repr(tree)} contents={leaves}; the ChoiceLoader at path {path} is a subclass whose "
                                       f"get_source/load raise TemplateNotFound for {hidden!r}; {what}({name!r}): got {got!r}, reference {ref!r}",
                                "script": _structure_script(tree, leaves, kinds, [], None, what, hide)})
                        if ref != ref_compose(tree, name, leaves):
                            p.sig(("subclass", si, path, name, (ref or "NF")[:2]))
        # (a) the member list of one composite is re-arranged after the first lookups
        for (path, ck, _n) in comps:
            node = subtree(tree, path)
            for perm in rearrangements(node):
                if ck == "C":
                    newnode = ("C", tuple(node[1][i] for i in perm))
                else:
                    newnode = ("P", tuple(node[1][i] for i in perm), node[2])
                    if len(perm) == len(node[1]):
                        continue    # a mapping has no order
                newtree = replace_subtree(tree, path, newnode)
                names = [q for q in qs if ref_compose(tree, q, leaves) is not None or ref_compose(newtree, q, leaves) is not None]
                if all(ref_compose(tree, q, leaves) == ref_compose(newtree, q, leaves) for q in names):
                    continue
                for how in ("assign", "inplace"):
                    for what in ("get_source", "load"):
                        handles = {}
                        loader = build_loader_handles(tree, leaves, kinds, handles)
                        env = jinja2.Environment(loader=loader, cache_size=0)
                        p.count("structure_histories", 1)
                        obj = handles[path]
                        for phase, cur in (("before", tree), ("after", newtree)):
                            if phase == "after":
                                if ck == "C":
                                    members = [obj.loaders[i] for i in perm]
                                    if how == "assign":
                                        obj.loaders = members
                                    else:
                                        obj.loaders[:] = members
                                else:
                                    keep = {node[1][i][0] for i in perm}
                                    if how == "assign":
                                        obj.mapping = {k: v for k, v in obj.mapping.items() if k in keep}
                                    else:
                                        for k in [k for k in obj.mapping if k not in keep]:
                                            del obj.mapping[k]
                            for name in names:
                                p.evals += 1
                                ref = ref_compose(cur, name, leaves)
                                got, exc = resolve(what, loader, env, name)
                                bad = judge(got, exc, ref)
                                if bad:
                                    p.violation(f"C28/compose-structure/{kind}/{phase}-change/{bad}/{what}", {
                                        "msg": f"{tree_repr(tree)} contents={leaves}: resolve {names}, then make the composite at path "
                                               f"{path} hold members {list(perm)} of its former members ({how}), i.e. {tree_repr(newtree)}; "
                                               f"{what}({name!r}) [{phase} the change]: got {got!r}, reference {ref!r}",
                                        "script": _structure_script(tree, leaves, kinds, names, (path, ck, perm, how), what, None)})
                                if phase == "after" and ref != ref_compose(tree, name, leaves):
                                    p.sig(("structure", si, path, perm, name, (ref or "NF")[:2]))
                p.sample({"composition": tree_repr(tree), "contents": leaves,
                          "history": ["resolve %r" % (names,), "composite at %r keeps members %r" % (path, list(perm)), "resolve again"]}, cap=1)
    return p


def _structure_script(tree, leaves, kinds, names, change, what, hide):
    s = ("import jinja2\nfrom checks import c28\n"
         f"tree, leaves, kinds, names, what, hide = {tree!r}, {leaves!r}, {kinds!r}, {names!r}, {what!r}, {hide!r}\n"
         "handles = {}\nloader = c28.build_loader_handles(tree, leaves, kinds, handles, hide=hide)\n"
         "env = jinja2.Environment(loader=loader, cache_size=0)\n"
         "print(c28.tree_repr(tree), 'contents', leaves, 'hide', hide)\n"
         "def show(names):\n"
         "    for name in names:\n"
         "        try: got = loader.get_source(env, name)[0] if what == 'get_source' else env.get_template(name).render()\n"
         "        except Exception as e: got = type(e).__name__\n"
         "        print('  ', what, repr(name), '->', repr(got))\n")
    if hide is not None:
        return s + "show(sorted(set(c28.queries(())) ))\n"
    path, ck, perm, how = change
    s += "show(names)\n" + f"obj = handles[{path!r}]; perm = {list(perm)!r}\n"
    if ck == "C":
        s += "members = [obj.loaders[i] for i in perm]\n" + ("obj.loaders = members\n" if how == "assign" else "obj.loaders[:] = members\n")
    else:
        s += (f"keep = [list(obj.mapping)[i] for i in perm]\n"
              + ("obj.mapping = {k: v for k, v in obj.mapping.items() if k in keep}\n" if how == "assign" else
                 "[obj.mapping.pop(k) for k in list(obj.mapping) if k not in keep]\n"))
    return s + "print('composite at', " + repr(path) + ", 're-arranged')\nshow(names)\n"


def empty_variants(asg):
    """which (leaf, name) sources are the empty string: none, each single one, all of them"""
    pairs = [(i, n) for i, names in enumerate(asg) for n in names]
    out = [frozenset()] + [frozenset([pr]) for pr in pairs]
    if len(pairs) > 1:
        out.append(frozenset(pairs))
    return out


def all_assignments(nleaves, leafnames):
    subsets = []
    for k in range(len(leafnames) + 1):
        subsets += list(itertools.combinations(leafnames, k))
    return list(itertools.product(subsets, repeat=nleaves))


def chunks(xs, n):
    k = max(1, (len(xs) + n - 1) // n)
    return [xs[i:i + k] for i in range(0, len(xs), k)]


# ----------------------------------------------------------------


def run(ctx: core.Ctx):
    core.import_all_jinja()
    if os.sep != "/" or os.altsep:
        raise core.HarnessError("C28 is written for a POSIX platform")
    base = core.scratch_dir("c28")
    build_tree(base)
    maxseg = 3 if ctx.quick else 5
    ctx.rule = ("every name of <= k alphabet segments x leading slash x every loader setup, plus explicit sentinel "
                "spellings; non-trivial = the name resolves, or leaves the roots, or raises, or contains a special "
                "fragment; distinct = (loader setup, reference class [file / leaves / absent], observed outcome); "
                "compositions: distinct = (shape, query name, loader that serves it); histories: distinct = (shape, "
                "change kind, name, new answer) for names whose answer changes")
    ctx.assumptions += [
        "POSIX platform: '/' is the only separator, so backslash/drive fragments are ordinary file-name characters",
        "only open() events are observed (sys.addaudithook); os.stat probes are not reads",
        "CALIBRATED: empty and '.' segments are dropped by the loaders (so 't.txt/' and '/t.txt' name t.txt)",
        "a non-TemplateNotFound exception for a name that stays inside the roots (e.g. embedded NUL) is counted, not judged",
        "the scratch tree contains no symlinks",
    ]
    setups = fs_setups() + pkg_setups()
    shards = []
    for s in setups:
        for a in range(len(SEGS)):
            for lead in (False, True):
                shards.append((s, "alphabet", a, lead, maxseg, base))
        shards.append((s, "extra", 0, False, maxseg, base))
    ctx.pmap(fs_shard, shards)
    leafnames = ("x", "q/x") if ctx.quick else ("x", "q/x", "p/x")
    cshards = []
    for si, tree in enumerate(SHAPES):
        asg = all_assignments(leaf_count(tree), leafnames)
        cshards += [(si, leafnames, c) for c in chunks(asg, 8 if ctx.quick else 32)]
    ctx.pmap(compose_shard, cshards)
    ctx.pmap(history_shard, cshards)
    ctx.pmap(structure_shard, [c for c in cshards if c[0] in STRUCT_SHAPES])
    ctx.cov["bounds"] = {
        "max_segments": maxseg, "alphabet": [repr(s) for s in SEGS], "names_per_setup": 2 * sum(len(SEGS) ** k for k in range(1, maxseg + 1)),
        "extra_names_per_setup": len(extra_names(base)), "setups": [repr(s) for s in setups],
        "composition_shapes": [tree_repr(t) for t in SHAPES], "leaf_names": list(leafnames),
        "leaf_loader_kinds": ["".join(k) for k in KIND_VECTORS] + ["D=DictLoader F=FunctionLoader->str T=FunctionLoader->triple"],
        "empty_sources": "none / each single (leaf, name) / all",
        "query_names": len(queries(leafnames)), "compositions": ctx.counters.get("compositions", 0),
        "two_step_histories": ctx.counters.get("histories", 0),
        "structure_histories": ctx.counters.get("structure_histories", 0),
        "structure_shapes": [tree_repr(SHAPES[i]) for i in STRUCT_SHAPES],
        "structure_changes": "every composite at every depth x every re-arrangement of its members (permutations and sub-lists, "
                             "empty included) x {attribute re-assigned, list/dict changed in place} x {get_source, load}",
        "subclass_compositions": ctx.counters.get("subclass_compositions", 0),
    }
