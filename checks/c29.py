"""C29 — renders are repeatable, leave their inputs alone, and do not interfere across threads (E2-style sequences + E3)."""
from __future__ import annotations

import copy
import itertools

from vf import core, e3, e4

META = {
    "level": "model_checking",
    "engine": "E3",
    "technique": "exhaustive enumeration of render orders with deep input snapshots, and stateless preemption-bounded "
    "enumeration of thread schedules (settrace scheduler, scheduling point at every line of jinja2 and of generated "
    "template code) of concurrent renders on one environment",
    "text": "Sequential: every order (with repetition) of up to 3 (thorough 4) renders from a pool of templates that use a "
    "cached imported module, from-import with context, namespaces, loop.changed/cycle, cycler/joiner, sorting/mapping "
    "filters on shared data, inheritance and macros; after each render deep snapshots of the data, the environment globals "
    "and the template globals must be unchanged and the output must equal the isolated render (sync and async twin).  "
    "Concurrent: 2 threads (thorough also 3) each rendering a pool template on one shared environment with shared data; "
    "every schedule with <= 1 preemption at any line boundary of jinja2 or generated code on a warm environment, <= 2 "
    "preemptions restricted to the functions that touch shared objects, and a cold environment (template load, lexer "
    "cache, module cache) with points at the shared-state functions, and the synchronous render API of an enable_async "
    "environment called from both threads (points at every line of generated code); every output must equal the isolated render, no call "
    "may raise, no deadlock, inputs unchanged.",
    "note": "GIL sequential consistency, line granularity; jinja2.utils.Lock and the module-level lexer cache's lock are replaced "
    "by cooperative locks.  Bounded pool (the POOL list, ~35 templates incl. data variants), threads <= 3, preemption "
    "bounds as stated; a schedule cap per harness is reported when hit.  The snapshot compared around every render holds "
    "the data, the environment globals, the policies (environment and package defaults), the template globals and every "
    "module-level container of the jinja2 package.",
    "design_ref": "DESIGN.md §4 C29, §3 E3",
}

TEMPLATES = {
    "lib": "{% macro lm(a) %}<{{ a }}|{{ x }}>{% endmacro %}{% set lv = 'v' ~ g %}{% set ll = [1, 2] %}",
    "base": "B[{% block a %}ba{% endblock %}|{% block b %}bb{{ x }}{% endblock %}]",
    "imp": "{% import 'lib' as l %}{{ l.lm(x) }}{{ l.lv }}",
    "fromctx": "{% from 'lib' import lm with context %}{{ lm(x) }}",
    "ns": "{% set ns = namespace(c=0) %}{% for i in items %}{% set ns.c = ns.c + i %}{% endfor %}{{ ns.c }}",
    "loopstate": "{% for i in items %}{{ loop.changed(i % 2) }}{{ loop.cycle('a', 'b') }}{{ loop.revindex }}{% endfor %}",
    "cycler": "{% set c = cycler('a', 'b') %}{{ c.next() }}{{ c.next() }}{{ c.current }}{% set j = joiner(',') %}{{ j() }}{{ j() }}x",
    "filters": "{{ items|sort(reverse=true)|join(',') }}{{ items|map('string')|list|length }}{{ d|dictsort }}{{ items|sum(start=0) }}{{ objs|map(attribute='v')|list }}{{ items|reverse|first }}{{ nested|first|first }}{{ objs|groupby('v')|list|length }}{{ objs|list|length }}{{ objs|unique(attribute='v')|list|length }}{{ items|select('odd')|list }}{{ items|batch(2)|list }}{{ nested|sum(start=[]) }}{{ items|join(',') }}{{ items|join }}{{ objs|join('/', attribute='v') }}{{ nested|join('-') }}",
    "child": "{% extends 'base' %}{% block a %}ca{{ x }}{{ super() }}{% endblock %}",
    "macro": "{% macro m(a, b=items) %}({{ a }}{{ b|length }}{{ varargs }}{{ kwargs|dictsort }}){% endmacro %}{{ m(1) }}{{ m(2, 3, 4, k=x) }}",
    "tojson_indent": "{{ d|tojson(indent=2) }}|{{ items|tojson(2) }}",
    "tojson": "{{ d|tojson }}|{{ items|tojson }}|{{ x|tojson }}",
    "policies": "{{ 'http://a.bc x'|urlize }}|{{ 'http://a.bc'|urlize(rel='r', target='t') }}|{{ 'a b c d e f g'|truncate(5) }}|{{ 'a b c d e f g'|truncate(5, leeway=0) }}",
    "set_attr_of_data": "{% set d.zz = 1 %}",
    "setblock_attr_of_data": "{% set d.zz %}v{% endset %}",
    "set_ns_attr": "{% set ns = namespace(a=items) %}{% set ns.b %}v{% endset %}{% set ns.c = d %}{{ ns.b }}{{ ns.a|length }}",
    "ns_from_dict": "{% set ns = namespace(d) %}{% set ns.q = 1 %}{% set ns.k = 5 %}{{ ns.q }}{{ ns.k }}{{ d.k }}",
    "ae_block": "{% autoescape true %}{{ s }}{{ 1 // z }}{% endautoescape %}{% set v %}{{ s }}{% endset %}[{{ v }}]{{ s }}",
    # attribute assignment through a name that no longer (or not on this path) holds a namespace: must raise, not write
    "ns_rebound": "{% set ns = namespace() %}{% set ns.x = 1 %}{% set ns = d %}{% set ns.x = 2 %}{{ ns.x }}",
    "ns_untaken": "{% set ns = d %}{% if z == 5 %}{% set ns.x = 1 %}{% endif %}{% set ns.x = 2 %}{{ ns.x }}",
    "ns_tuple_rebind": "{% set ns = namespace() %}{% set ns, ns.x = d, 1 %}{{ ns.k }}{% set n2 = namespace() %}{% set n2.y, n2 = 2, d %}{{ n2.k }}",
    # a filter that fails on its input must not have touched the input before failing
    "indent_list": "{{ items|indent }}",
    # arguments taken from data / globals are inputs too
    "sum_start_data": "{{ nested|sum(start=items)|length }}{{ nested|sum(start=gl) }}{{ items|join(d.k) }}{{ d.j|sum(start=0) }}",
    "filters_failing": "{{ d|join(',') }}{{ items|sum }}{{ nested|sort|first }}{{ items|replace(1, 2) }}",
    # `|list` hands out a copy: appending to it changes neither the data, nor a global, nor a cached module's variable
    "list_copy": "{% set a = items|list %}{% set _ = a.append(9) %}{% set b = gl|list %}{% set _ = b.append(9) %}{% import 'lib' as l %}{% set c = l.ll|list %}{% set _ = c.append(9) %}{{ a }}{{ b }}{{ c }}{{ l.ll }}",
    # the parent is chosen by the data of each render; super() must reach the parent chosen by THIS render
    "base2": "F<{% block a %}fa{% endblock %}|{% block b %}fb{{ x }}{% endblock %}>",
    "dyn": "{% extends lay %}{% block a %}d{{ x }}{{ super() }}{% endblock %}{% block b %}{{ super() }}{{ self.a() }}{% endblock %}",
    # a generator passes through the engine's await helper, then a generator-based coroutine must still be awaited
    "genpass": "{{ d|items|list }}{{ d|items is iterable }}{% for k, v in d|items %}{{ k }}{% endfor %}",
    "libg": "{% macro gm() %}[{{ tg }}]{% endmacro %}{% set gv = 'v' ~ tg %}",
    "impg1": "{% import 'libg' as l %}{{ l.gm() }}{{ l.gv }}{{ tg }}",
    "impg2": "{% from 'libg' import gm, gv %}{{ gm() }}{{ gv }}{{ tg }}",
    "setattr": "{% set y = items %}{% set z = d %}{{ y|length }}{{ z.k }}{% for k, v in d|dictsort %}{{ k }}{{ v }}{% endfor %}",
}
POOL = ["imp", "fromctx", "ns", "loopstate", "cycler", "filters", "child", "macro", "setattr", "tojson_indent", "tojson",
        "policies", "impg1", "impg2", "set_attr_of_data", "setblock_attr_of_data", "set_ns_attr",
        "ns_from_dict", "ae_block", "ae_block@raise", "ns_rebound", "ns_untaken", "list_copy", "dyn@base", "dyn@base2", "genpass", "ns_tuple_rebind", "indent_list", "filters_failing", "sum_start_data"]
VARIANTS = {"raise": {"z": 0}, "base": {"lay": "base"}, "base2": {"lay": "base2"}}
# templates loaded with template-level globals (same names, different values)
TEMPLATE_GLOBALS = {"impg1": {"tg": "one"}, "impg2": {"tg": "two"}}


class O:
    def __init__(self, v):
        self.v = v

    def __eq__(self, other):
        return isinstance(other, O) and other.v == self.v

    def __hash__(self):
        return hash(self.v)

    def __repr__(self):
        return f"O({self.v!r})"


def make_data():
    return {"x": "X", "s": "<s>", "z": 1, "items": [3, 1, 2], "d": {"k": 1, "j": [2, 3]}, "objs": [O(2), O(1)], "nested": [[1, 2], [3]]}


_BC = {}


def make_env(async_=False, memo=False, autoescape=False):
    import jinja2

    if async_ == "ae":  # third mode of the sequential part: sync environment with autoescape on
        async_, autoescape = False, True
    from jinja2.bccache import BytecodeCache

    mode = (bool(async_), bool(autoescape))

    class MemCache(BytecodeCache):
        """per-process compiled-code store so that warm-ups do not recompile (warm harnesses only)"""

        # (keyed by the compile-relevant configuration as well: the three modes compile to different code)
        def load_bytecode(self, bucket):
            if (mode, bucket.key) in _BC:
                bucket.bytecode_from_string(_BC[mode, bucket.key])

        def dump_bytecode(self, bucket):
            _BC[mode, bucket.key] = bucket.bytecode_to_string()

    env = jinja2.Environment(loader=jinja2.DictLoader(dict(TEMPLATES)), enable_async=async_, autoescape=autoescape,
                             bytecode_cache=MemCache() if memo else None)
    env.globals["g"] = "G"
    env.globals["gl"] = [1, 2]
    return env


def _snap(v, depth=0):
    if isinstance(v, dict):
        return ("dict", tuple(sorted((repr(k), _snap(x, depth + 1)) for k, x in v.items()))) if depth < 3 else "dict.."
    if isinstance(v, (list, tuple)):
        return (type(v).__name__, tuple(_snap(x, depth + 1) for x in v)) if depth < 3 else "seq.."
    if isinstance(v, (set, frozenset)):
        return ("set", tuple(sorted(str(_snap(x, depth + 1)) for x in v))) if depth < 3 else "set.."
    if isinstance(v, (int, float, str, bytes, bool, type(None))):
        return v
    if isinstance(v, type):
        return v.__qualname__
    return type(v).__qualname__


def module_state():
    """every module-level dict / list / set of the jinja2 package (filter and test tables, default policies, operator
    tables, fast-path type sets, ...): process-wide state that a render must leave alone"""
    import sys

    out = {}
    for mn, m in sorted(sys.modules.items()):
        if m is None or not (mn == "jinja2" or mn.startswith("jinja2.")):
            continue
        for k, v in vars(m).items():
            if isinstance(v, (dict, list, set)) and not k.startswith("__"):
                out[mn + "." + k] = _snap(v)
    return out


def snapshot(env, data, names):
    tg = {}
    for n in names:
        key = None
        for k in env.cache.keys() if env.cache is not None else ():
            if k[1] == n:
                key = k
        if key is not None:
            t = env.cache._mapping.get(key)
            if t is not None:
                tg[n] = dict(t.globals.maps[0]) if hasattr(t.globals, "maps") else dict(t.globals)
    eg = {k: (copy.deepcopy(v) if isinstance(v, (list, dict)) else id(v)) for k, v in env.globals.items()}
    # policies are configuration shared by every render (and, through the defaults, by every environment)
    import jinja2.defaults

    eg["<policies>"] = copy.deepcopy(dict(env.policies))
    eg["<default-policies>"] = copy.deepcopy(dict(jinja2.defaults.DEFAULT_POLICIES))
    eg["<module-state>"] = module_state()
    return copy.deepcopy(data), eg, tg


def render(env, name, data, async_):
    if "@" in name:
        # same template, other data: `raise` makes it raise in the middle (inside its autoescape block), the others
        # choose the parent template at render time
        name, variant = name.split("@")
        data = dict(data, **VARIANTS[variant])
    try:
        t = env.get_template(name, globals=TEMPLATE_GLOBALS.get(name))
        if async_ is True:
            return e4.run(t.render_async(**data))
        return t.render(**data)
    except Exception as e:  # noqa: BLE001
        return ("exc", type(e).__name__, str(e)[:80])


def in_fork(fn):
    """run fn() in a forked child and return its (picklable) result: a pristine copy of the process state,
    so that process-global pollution by an earlier render cannot hide in the baseline"""
    import os
    import pickle

    r, w = os.pipe()
    pid = os.fork()
    if pid == 0:
        try:
            os.close(r)
            try:
                res = ("ok", fn())
            except BaseException as e:  # noqa: BLE001
                res = ("err", repr(e))
            with os.fdopen(w, "wb") as f:
                pickle.dump(res, f)
        finally:
            os._exit(0)
    os.close(w)
    with os.fdopen(r, "rb") as f:
        data = f.read()
    os.waitpid(pid, 0)
    st, val = pickle.loads(data)
    if st != "ok":
        raise core.HarnessError("forked child failed: " + val)
    return val


def isolated_renders(async_):
    """every pool template rendered alone, each in its own forked child of a process that has rendered nothing"""
    warm_bytecode(async_)
    return {n: in_fork(lambda n=n: render(make_env(async_, memo=True), n, make_data(), async_)) for n in POOL}


def warm_bytecode(async_):
    # compile every template once in this process; forked children then load the code objects from _BC
    env = make_env(async_, memo=True)
    for n in TEMPLATES:
        try:
            env.get_template(n)
        except Exception:  # noqa: BLE001
            pass


def seq_shard(arg):
    import time as _t
    _t0 = _t.time()
    first, depth, async_, iso = arg
    p = core.Part()
    warm_bytecode(async_)
    p.counters["cpu_wall_seq_s"] = 0
    for rest in itertools.chain.from_iterable(itertools.product(POOL, repeat=k) for k in range(0, depth)):
        order = (first,) + rest
        # (this shard runs in a worker forked from the pristine parent for this shard only; a render that pollutes
        # process-global state is caught by the snapshot comparison of the very order in which it happens)
        part = run_order(order, async_, iso)
        p.evals += 1
        p.viol.extend(part.viol)
        p.sigs |= part.sigs
    p.sample({"kind": "render order", "first": first, "depth": depth, "async": async_}, cap=1)
    p.counters["cpu_wall_seq_s"] = round(_t.time() - _t0, 2)
    return p


def run_order(order, async_, iso):
    p = core.Part()
    if True:
        env = make_env(async_, memo=True)
        data = make_data()
        before = snapshot(env, data, ())
        for i, n in enumerate(order):
            out = render(env, n, data, async_)
            if out != iso[n]:
                p.violation(f"C29/seq/output/{n}", {
                    "msg": f"order {order} (async={async_}): render #{i} of {n} gave {out!r}, isolated render gives {iso[n]!r}",
                    "script": f"from checks import c29\nc29.replay_seq({list(order)!r}, {async_!r})\n"})
            after = snapshot(env, data, ())
            if after[0] != before[0]:
                p.violation(f"C29/seq/data-modified/{n}", {
                    "msg": f"order {order}: rendering {n} changed the data: {before[0]!r} -> {after[0]!r}",
                    "script": f"from checks import c29\nc29.replay_seq({list(order)!r}, {async_!r})\n"})
            if after[1] != before[1]:
                changed = sorted(k for k in after[1] if after[1][k] != before[1].get(k))
                if "<module-state>" in changed:
                    ms0, ms1 = before[1]["<module-state>"], after[1]["<module-state>"]
                    changed += sorted(k for k in ms1 if ms1[k] != ms0.get(k))
                p.violation(f"C29/seq/env-globals-modified/{n}", {"msg": f"order {order}: rendering {n} changed environment globals / policies / module-level state: {changed}",
                                                                 "script": f"from checks import c29\nc29.replay_seq({list(order)!r}, {async_!r})\n"})
            # blame only the render that made the change
            before = after
        tg = snapshot(env, data, POOL + ["lib", "base", "libg"])[2]
        for n, g in tg.items():
            if g != TEMPLATE_GLOBALS.get(n, {}):
                p.violation(f"C29/seq/template-globals-modified/{n}", {"msg": f"order {order}: template globals of {n} became {g!r}"})
        if len(order) == 2:
            p.sig(("seq", order, async_, str(iso[order[-1]])[:16]))
    return p


def replay_seq(order, async_):
    core.import_all_jinja()
    env = make_env(async_)
    data = make_data()
    for n in order:
        print(n, "->", render(env, n, data, async_), " isolated:", render(make_env(async_), n, make_data(), async_))
    print("data now:", data)


# ---------------------------------------------------------------- concurrent

SHARED_FUNCS = {
    "get_template", "_load_template", "get_or_select_template", "select_template", "_get_default_module", "make_module",
    "get_lexer", "from_code", "_from_namespace", "load", "get_source", "get_spontaneous_environment",
}


def install_locks():
    import jinja2.lexer as jl
    import jinja2.utils as ju

    ju.Lock = e3.CoopLock
    jl._lexer_cache._wlock = e3.CoopLock()


def want_all():
    src = core.SRC

    def want(frame):
        fn = frame.f_code.co_filename
        return fn.startswith(src) or "__jinja_template__" in frame.f_globals
    return want


def want_shared():
    src = core.SRC

    def want(frame):
        co = frame.f_code
        if not co.co_filename.startswith(src):
            return False
        q = co.co_qualname
        return q.startswith("LRUCache.") or co.co_name in SHARED_FUNCS
    return want


def want_templates():
    """scheduling points at every line of generated template code and of the shared-state functions"""
    shared = want_shared()

    def want(frame):
        return "__jinja_template__" in frame.f_globals or shared(frame)
    return want


def conc_shard(arg):
    import time as _t
    _t0 = _t.time()
    names, mode, bound, cap = arg
    core.import_all_jinja()
    install_locks()
    import jinja2

    p = core.Part()
    # "warm-asyncenv": the synchronous API (render) of an enable_async environment called from several threads
    aenv = mode == "warm-asyncenv"
    iso = {n: render(make_env(aenv), n, make_data(), False) for n in set(names)}
    want = want_all() if mode == "warm-all" else want_templates() if aenv else want_shared()
    sched = e3.Scheduler(want, record_trace=True)
    outcomes = set()
    shared = {}

    def make_run(prefix):
        jinja2.clear_caches()
        env = make_env(aenv, memo=mode.startswith("warm"))
        data = make_data()
        if mode.startswith("warm"):
            # warm = the harness templates (and what they import/extend) are loaded and were rendered once
            for n in dict.fromkeys(names):
                render(env, n, data, False)
        before = copy.deepcopy(data)
        shared["data"], shared["before"] = data, before
        progs = [[(lambda n=n: render(env, n, data, False))] for n in names]
        x = sched.run(progs, prefix)
        x.data_after = copy.deepcopy(data)
        x.before = before
        return x

    first = [True]

    def on_execution(x):
        p.evals += 1
        if first[0]:
            first[0] = False
            y = make_run(tuple(x.choices))
            if y.trace != x.trace:
                raise core.HarnessError(f"nondeterministic replay for {names} ({mode})")
        res = {tid: r for (tid, _i, _c, _r, r) in x.history}
        outcomes.add((x.deadlock, tuple(str(res.get(t))[:24] for t in range(len(names)))))
        bad = []
        if x.deadlock:
            bad.append(("deadlock", "-"))
        for t, n in enumerate(names):
            if t in res and res[t] != iso[n]:
                bad.append(("output", n))
        if x.data_after != x.before:
            bad.append(("data-modified", "+".join(names)))
        for what, n in bad:
            p.violation(f"C29/conc/{what}/{n}", {
                "msg": f"threads render {names} ({mode}), schedule {list(x.choices)}: {what} {n}: results {res}, isolated {iso}",
                "script": f"from checks import c29\nc29.replay_conc({list(names)!r}, {mode!r}, {list(x.choices)!r})\n"})

    n, capped = e3.explore(make_run, bound, on_execution, max_schedules=cap)
    sched.close()
    p.count("schedules", n)
    p.count("harnesses", 1)
    if capped:
        p.count("schedule_caps_hit", 1)
    for o in outcomes:
        p.sig(("conc", names, mode, o))
    p.sample({"kind": "concurrent renders", "threads": list(names), "mode": mode, "preemption_bound": bound, "schedules": n}, cap=1)
    p.counters["cpu_wall_conc_%s_s" % mode] = round(_t.time() - _t0, 2)
    return p


def replay_conc(names, mode, choices):
    core.import_all_jinja()
    install_locks()
    import jinja2

    jinja2.clear_caches()
    env = make_env(mode == "warm-asyncenv")
    data = make_data()
    if mode.startswith("warm"):
        for n in POOL:
            render(env, n, data, False)
    sched = e3.Scheduler(want_all() if mode == "warm-all" else want_templates() if mode == "warm-asyncenv" else want_shared())
    x = sched.run([[(lambda n=n: render(env, n, data, False))] for n in names], tuple(choices))
    last = None
    for tid, where in x.trace:
        if tid != last:
            print("--- switch to thread", tid, "at", where)
            last = tid
    for h in x.history:
        print("thread", h[0], "->", h[4], " isolated:", render(make_env(), names[h[0]], make_data(), False))
    print("deadlock:", x.deadlock, "data:", data)


def run(ctx: core.Ctx):
    core.import_all_jinja()
    ctx.rule = ("sequential: every render order (with repetition) up to the depth; concurrent: every schedule within the "
                "preemption bound for every unordered pair (thorough: selected triples) of pool templates in warm and cold "
                "environments; distinct = distinct (order/harness, mode, outcome tuple)")
    ctx.assumptions += [
        "GIL sequential consistency; scheduling points at line boundaries of jinja2 code and generated template code",
        "jinja2.utils.Lock and the module-level lexer cache lock are replaced by scheduler-owned cooperative locks",
        "functools.lru_cache (get_spontaneous_environment) is atomic under the GIL and is one step",
    ]
    depth = 2 if ctx.quick else 3
    isos = {a: isolated_renders(a) for a in (False, True, "ae")}
    ctx.pmap(seq_shard, [(f, depth, a, isos[a]) for f in POOL for a in (False, True, "ae")], fresh=True)
    pairs = list(itertools.combinations_with_replacement(POOL, 2))
    plan = []
    if ctx.quick:
        qpairs = [("imp", "imp"), ("imp", "fromctx"), ("fromctx", "fromctx"), ("imp", "child"), ("child", "child"),
                  ("ns", "loopstate"), ("cycler", "cycler"), ("filters", "filters"), ("filters", "setattr"), ("macro", "macro"),
                  ("loopstate", "loopstate"), ("imp", "filters"), ("ns", "ns"), ("macro", "setattr"), ("child", "fromctx"),
                  ("impg1", "impg2"), ("impg1", "impg1"), ("tojson_indent", "tojson"), ("policies", "tojson"),
                  ("ae_block", "ae_block"), ("ae_block", "ae_block@raise")]
        plan += [(pr, "warm-all", 1, None) for pr in qpairs]
        plan += [(pr, "cold-shared", 1, None) for pr in [("imp", "imp"), ("imp", "fromctx"), ("child", "child"), ("imp", "child"), ("impg1", "impg2")]]
        plan += [(pr, "warm-asyncenv", 1, 20000) for pr in [("imp", "child"), ("ns", "filters"), ("macro", "macro")]]
    else:
        plan += [(pr, "warm-asyncenv", 1, 20000) for pr in pairs]
        plan += [(pr, "warm-all", 1, None) for pr in pairs]
        plan += [(pr, "warm-shared", 2, 20000) for pr in pairs]
        plan += [(pr, "cold-shared", 1, None) for pr in pairs]
        plan += [(pr, "cold-shared", 2, 20000) for pr in [("imp", "imp"), ("imp", "fromctx"), ("child", "child"), ("imp", "child")]]
        plan += [(tr, "warm-shared", 1, 20000) for tr in [("imp", "fromctx", "child"), ("imp", "imp", "imp"), ("ns", "loopstate", "filters")]]
        plan += [(tr, "cold-shared", 1, 20000) for tr in [("imp", "fromctx", "child"), ("imp", "imp", "imp")]]
    ctx.pmap(conc_shard, plan, pin=True)
    if ctx.counters.get("schedule_caps_hit"):
        ctx.cap_hit(f"{ctx.counters['schedule_caps_hit']} harnesses stopped at their per-harness schedule cap")
    ctx.cov["states"] = ctx.counters.get("harnesses", 0)
    ctx.cov["transitions"] = ctx.counters.get("schedules", 0)
    ctx.cov["traces_validated_against_impl"] = ctx.counters.get("schedules", 0)
    ctx.cov["schedules"] = ctx.counters.get("schedules", 0)
    ctx.cov["states_note"] = "states = concurrent harnesses; transitions = complete schedules executed on the implementation"
