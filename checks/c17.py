"""C17 — a sandboxed template cannot obtain private or internal attributes.

Space: access ROUTES x attribute NAMES x OBJECTS (full product), plus template
reachable runtime objects (``self``, ``loop``, macros, ``lipsum``, ``cycler`` ...)
and literals, plus a statement x expression grammar for the structural part.
"""
from __future__ import annotations

import collections
import collections.abc
import re
import sys
import types
import warnings

from vf import core, sbx

META = {
    "level": "exploration",
    "engine": "E1",
    "technique": "bounded-exhaustive enumeration of the full product access-route x attribute-name x data-object "
    "(and template-reachable runtime objects) rendered in SandboxedEnvironment against a tracer/identity leak oracle "
    "and the 'forbidden == missing attribute' relation; taint walk over the ast of every generated program's compiled code",
    "text": "Every one of ~150 access routes (dot, subscript, attr filter, dynamic names, every built-in filter with an "
    "attribute parameter incl. dotted/integer paths, str/Markup .format/.format_map field lookups incl. stored, aliased, "
    "mapped, macro-passed method references, loops, macros, call blocks) is combined with every one of 20 private/internal "
    "names and 11 kinds of data object; ~35 template-reachable runtime objects and literals are combined with 7 routes and "
    "the same names.  Oracle: the value getattr(obj, name) taken by the harness never reaches a recording finalize / filter "
    "/ test (identity; equality for freshly built proxies), tracer markers never appear in the output, tracers are never "
    "compared/hashed/called/tested for truth, the str() of the forbidden object does not appear in the output, the outcome is "
    "normal output or SecurityError (other exception classes only from format machinery), and the outcome equals that of "
    "the same route on an attribute that does not exist (UndefinedError == SecurityError).  Structural: in the Python "
    "source of every generated sandboxed program and of a statement x expression-form x base grammar (sync and async) every "
    "Attribute/Subscript/Call on a template-controlled value goes through environment.getattr/getitem/call (slices and "
    "guarded namespace stores excepted).",
    "note": "Bounded: one access per template (plus a second-level access), 20 names, 11 object kinds; data objects "
    "without __getitem__/__getattr__ hooks; bound methods handed in by the application (not obtained in the template) are "
    "out of scope.  Trusted: python ast, the harness's own getattr.  The taint definition is read off compiler.py "
    "(l_N_* names and value-returning helpers).",
    "design_ref": "DESIGN.md §4 C17",
}

NAMES = ["_p", "__p", "__class__", "__dict__", "__init__", "__globals__", "__code__", "__self__", "__func__", "mro",
         "gi_frame", "gi_code", "cr_frame", "cr_code", "ag_frame", "ag_code", "f_locals", "f_globals", "tb_frame",
         "co_consts"]
MISSING_NAME = "zz_missing"
PUBLIC_NAME = "pub"
#: mutable containers and container subclasses that carry private state (receivers for which the immutable
#: sandbox has its own attribute rules)
CONTAINER_KINDS = ["list", "dict", "set", "deque", "listsub", "dictsub", "userdict", "mutablemapping"]
KINDS = ["probe", "function", "method", "builtin", "class", "generator", "coroutine", "asyncgen", "code", "frame",
         "traceback"]
MARK = "C17LEAK"
PUBMARK = "C17PUB"

# ------------------------------------------------------------------ probes

TOUCHED: list = []


class Tracer:
    """Forbidden value: announces itself wherever it is printed or used."""

    mark = MARK

    def __init__(self):
        pass

    def _t(self, how):
        TOUCHED.append((self.mark, how))

    def __str__(self):
        return self.mark

    __repr__ = __str__

    def __html__(self):
        return self.mark

    def __format__(self, spec):
        return self.mark

    def __lt__(self, other):
        self._t("lt")
        return False

    __gt__ = __le__ = __ge__ = __lt__

    def __eq__(self, other):
        if other is self:
            return True
        self._t("eq")
        return False

    def __hash__(self):
        self._t("hash")
        return 7

    def __bool__(self):
        self._t("bool")
        return True

    def __call__(self, *a, **k):
        self._t("call")
        return self.mark

    def __add__(self, other):
        self._t("add")
        return self.mark

    __radd__ = __add__

    def __iter__(self):
        self._t("iter")
        return iter(())

    def __len__(self):
        self._t("len")
        return 1

    def lower(self):
        self._t("lower")
        return self.mark


class Pub(Tracer):
    mark = PUBMARK


class Probe:
    def __init__(self, tag):
        self.tag = tag
        self.pub = Pub()
        self._p = Tracer()
        setattr(self, "__p", Tracer())

    def meth(self):
        return "M"

    def __repr__(self):
        return "<probe>"


class Holder:
    def __init__(self, x):
        self.x = x

    def __repr__(self):
        return "<holder>"


def _fn_template():
    secret = "C17CONST"
    return secret


def mkfn():
    f = types.FunctionType(_fn_template.__code__, {"SECRET": "C17GLOBAL"}, "fn")
    f.pub = Pub()
    f._p = Tracer()
    f.__dict__["__p"] = Tracer()
    return f


def mkclass():
    return type("C17Klass", (), {"pub": Pub(), "_p": Tracer(), "__p": Tracer()})


def gen_fn():
    yield "G"


async def coro_fn():
    return "CORO"


async def agen_fn():
    yield "AG"


def mkframe():
    local_secret = "C17LOCAL"  # noqa: F841
    return sys._getframe()


def mktb():
    try:
        raise ValueError("C17TB")
    except ValueError as e:
        return e.__traceback__


class ListSub(list):
    def __repr__(self):
        return "<listsub>"


class DictSub(dict):
    def __repr__(self):
        return "<dictsub>"


class UserDictSub(collections.UserDict):
    def __repr__(self):
        return "<userdict>"


class MapImpl(collections.abc.MutableMapping):
    def __init__(self):
        self.store = {}

    def __getitem__(self, k):
        return self.store[k]

    def __setitem__(self, k, v):
        self.store[k] = v

    def __delitem__(self, k):
        del self.store[k]

    def __iter__(self):
        return iter(self.store)

    def __len__(self):
        return len(self.store)

    def __repr__(self):
        return "<mapimpl>"


def _private_state(o):
    o.pub = Pub()
    o._p = Tracer()
    setattr(o, "__p", Tracer())
    o.tag = "t"
    return o


def make_object(kind):
    if kind == "list":
        return [7, "list-item"]
    if kind == "dict":
        return {"key": 7}
    if kind == "set":
        return {7, "set-item"}
    if kind == "deque":
        return collections.deque([7, "deque-item"])
    if kind == "listsub":
        return _private_state(ListSub([7]))
    if kind == "dictsub":
        return _private_state(DictSub(key=7))
    if kind == "userdict":
        return _private_state(UserDictSub(key=7))
    if kind == "mutablemapping":
        return _private_state(MapImpl())
    if kind == "probe":
        return Probe("a")
    if kind == "function":
        return mkfn()
    if kind == "method":
        return Probe("m").meth
    if kind == "builtin":
        return [7, "builtin-self"].count
    if kind == "class":
        return mkclass()
    if kind == "generator":
        return gen_fn()
    if kind == "coroutine":
        return coro_fn()
    if kind == "asyncgen":
        return agen_fn()
    if kind == "code":
        return mkfn().__code__
    if kind == "frame":
        return mkframe()
    if kind == "traceback":
        return mktb()
    raise AssertionError(kind)


def dispose(objs):
    for o in objs:
        if isinstance(o, (types.CoroutineType, types.GeneratorType)):
            try:
                o.close()
            except Exception:  # noqa: BLE001
                pass


# ------------------------------------------------------------------ reference: which names are forbidden


def model_forbidden(obj, name: str) -> bool:
    """Written from docs/sandbox.rst + the docstrings of is_safe_attribute /
    is_internal_attribute: names starting with an underscore are private;
    special attributes of internal python objects are internal."""
    if name.startswith("_"):
        return True
    if isinstance(obj, type) and name == "mro":
        return True
    if isinstance(obj, (types.CodeType, types.TracebackType, types.FrameType)):
        return True
    if isinstance(obj, types.GeneratorType) and name in ("gi_frame", "gi_code"):
        return True
    if isinstance(obj, types.CoroutineType) and name in ("cr_frame", "cr_code"):
        return True
    if isinstance(obj, types.AsyncGeneratorType) and name in ("ag_frame", "ag_code"):
        return True
    return False


# ------------------------------------------------------------------ routes


def obs(e):
    return "{{ %s }}|{{ (%s)|c17see }}|{{ (%s) is c17seen }}" % (e, e, e)


def _r(rid, fn, fmt=False, value=True):
    return (rid, fn, fmt, value)


def data_routes():
    R = []
    a = R.append
    a(_r("dot", lambda A: obs(f"o.{A}")))
    a(_r("sub", lambda A: obs(f'o["{A}"]')))
    a(_r("attr", lambda A: obs(f'o|attr("{A}")')))
    a(_r("sub-var", lambda A: obs("o[n]")))
    a(_r("attr-var", lambda A: obs("o|attr(n)")))
    a(_r("sub-concat", lambda A: obs(f'o["{A[:1]}" ~ "{A[1:]}"]')))
    a(_r("attr-concat", lambda A: obs(f'o|attr("{A[:2]}" ~ "{A[2:]}")')))
    a(_r("dot-dot", lambda A: obs(f"h.x.{A}")))
    a(_r("sub-sub", lambda A: obs(f'h["x"]["{A}"]')))
    a(_r("attr-attr", lambda A: obs(f'h|attr("x")|attr("{A}")')))
    a(_r("item-dot", lambda A: obs(f"xs[0].{A}")))
    a(_r("dict-dot", lambda A: obs(f"d.a.{A}")))
    a(_r("first-dot", lambda A: obs(f"(xs|first).{A}")))
    a(_r("last-sub", lambda A: obs(f'(xs|last)["{A}"]')))
    a(_r("literal-list", lambda A: obs(f"[o][0].{A}")))
    a(_r("literal-dict", lambda A: obs(f'{{"k": o}}.k.{A}')))
    a(_r("chain2", lambda A: obs(f"o.{A}.mark")))
    a(_r("chain2-sub", lambda A: obs(f'o["{A}"]["mark"]')))
    a(_r("set", lambda A: "{%% set v = o.%s %%}" % A + obs("v")))
    a(_r("set-sub", lambda A: '{%% set v = o["%s"] %%}' % A + obs("v")))
    a(_r("set-tuple", lambda A: "{%% set v, w = o.%s, o|attr('%s') %%}" % (A, A) + obs("v") + obs("w")))
    a(_r("set-block", lambda A: "{%% set v %%}%s{%% endset %%}{{ v }}" % obs(f"o.{A}")))
    a(_r("with", lambda A: "{%% with v = o.%s %%}%s{%% endwith %%}" % (A, obs("v"))))
    a(_r("ns", lambda A: "{%% set q = namespace(v=o.%s) %%}{%% set q.w = o.%s %%}%s%s" % (A, A, obs("q.v"), obs("q.w"))))
    a(_r("macro-arg", lambda A: "{%% macro m(x) %%}%s{%% endmacro %%}{{ m(o) }}" % obs(f"x.{A}")))
    a(_r("macro-val", lambda A: "{%% macro m(v) %%}%s{%% endmacro %%}{{ m(o.%s) }}" % (obs("v"), A)))
    a(_r("macro-default", lambda A: "{%% macro m(v=o.%s) %%}%s{%% endmacro %%}{{ m() }}" % (A, obs("v"))))
    a(_r("macro-kwargs", lambda A: "{%% macro m() %%}%s{%% endmacro %%}{{ m(k=o) }}" % obs(f"kwargs.k.{A}")))
    a(_r("macro-varargs", lambda A: "{%% macro m() %%}%s{%% endmacro %%}{{ m(o) }}" % obs(f"varargs[0].{A}")))
    a(_r("call-block", lambda A: "{%% macro m() %%}{{ caller(o) }}{%% endmacro %%}{%% call(x) m() %%}%s{%% endcall %%}"
         % obs(f"x.{A}")))
    a(_r("for", lambda A: "{%% for x in xs2 %%}%s{%% endfor %%}" % obs(f"x.{A}")))
    a(_r("for-names", lambda A: "{%% for k in ns %%}%s%s{%% endfor %%}" % (obs("o[k]"), obs("o|attr(k)"))))
    a(_r("for-items", lambda A: "{%% for k, v in d|items %%}%s{%% endfor %%}" % obs(f"v.{A}")))
    a(_r("for-dict-items", lambda A: "{%% for k, v in d.items() %%}%s{%% endfor %%}" % obs(f"v.{A}")))
    a(_r("for-filter", lambda A: "{%% for x in xs2 if x.%s is c17seen %%}%s{%% endfor %%}" % (A, obs(f"x.{A}"))))
    a(_r("for-over", lambda A: "{%% for v in o.%s %%}%s{%% else %%}E{%% endfor %%}" % (A, obs("v"))))
    a(_r("for-recursive", lambda A: "{%% for x in xs2 recursive %%}%s{%% endfor %%}" % obs(f"x.{A}")))
    a(_r("loop-changed", lambda A: "{%% for x in xs2 %%}{{ loop.changed(x.%s) }}{%% endfor %%}" % A, False, False))
    a(_r("condexpr", lambda A: obs(f"o.{A} if true else 1")))
    a(_r("condexpr-test", lambda A: obs(f"1 if o.{A} else 2"), False, False))
    a(_r("or", lambda A: obs(f"o.{A} or o.{A}")))
    a(_r("and", lambda A: obs(f"true and o.{A}")))
    a(_r("tests", lambda A: "{{ o.%s is defined }}|{{ o.%s is none }}|{{ o.%s is callable }}|{{ o.%s|default('D') }}"
         % (A, A, A, A), False, False))
    a(_r("truth", lambda A: "{%% if o.%s %%}T{%% else %%}F{%% endif %%}" % A, False, False))
    a(_r("eq", lambda A: "{{ o.%s == o.%s }}|{{ o.%s in [1] }}" % (A, A, A), False, False))
    a(_r("concat", lambda A: "{{ o.%s ~ 'x' }}" % A))
    a(_r("filter-block", lambda A: "{%% filter c17see %%}%s{%% endfilter %%}" % obs(f"o.{A}")))
    a(_r("list-filter", lambda A: obs(f"[o.{A}]|list")))
    a(_r("string-filter", lambda A: "{{ o.%s|string }}|{{ o.%s|e }}|{{ o.%s|pprint }}|{{ [o.%s]|join }}" % (A, A, A, A)))
    a(_r("tojson", lambda A: "{{ [o.%s|string]|tojson }}" % A))
    a(_r("format-filter", lambda A: '{{ "%%s"|format(o.%s) }}|{{ "%%r" %% (o.%s,) }}' % (A, A)))
    a(_r("dict-fn", lambda A: obs(f"dict(k=o.{A}).k")))
    a(_r("block", lambda A: "{%% block b %%}%s{%% endblock %%}" % obs(f"o.{A}")))
    a(_r("autoescape", lambda A: "{%% autoescape true %%}%s{%% endautoescape %%}" % obs(f"o.{A}")))

    # ---- filters with an attribute parameter
    def F(rid, e, value=True):
        a(_r(rid, (lambda A, e=e: obs(e.replace("@A", A))), False, value))

    F("map-attr", 'xs2|map(attribute="@A")|list')
    F("map-attr1", 'xs|map(attribute="@A")|first')
    F("map-dotted", 'hs|map(attribute="x.@A")|list')
    F("map-int", 'nest|map(attribute="0.@A")|list')
    F("map-default", 'xs2|map(attribute="@A", default="D")|list')
    F("map-attr-filter", 'xs2|map("attr", "@A")|list')
    F("map-see", 'xs2|map(attribute="@A")|map("c17see")|list')
    F("map-var", "xs2|map(attribute=n)|list")
    a(_r("map-each", lambda A: '{%% for v in xs2|map(attribute="%s") %%}%s{%% endfor %%}' % (A, obs("v"))))
    F("sort", 'xs2|sort(attribute="@A")', False)
    F("sort-multi", 'xs2|sort(attribute="tag,@A")', False)
    F("sort-dotted", 'hs2|sort(attribute="x.@A")', False)
    F("sort-ci", 'xs2|sort(attribute="@A", case_sensitive=true, reverse=true)', False)
    F("unique", 'xs2|unique(attribute="@A")|list', False)
    F("unique-dotted", 'hs2|unique(attribute="x.@A")|list', False)
    F("min", 'xs2|min(attribute="@A")', False)
    F("max", 'xs2|max(attribute="@A")', False)
    F("min-dotted", 'hs2|min(attribute="x.@A")', False)
    F("sum", 'xs|sum(attribute="@A")')
    F("sum-start", 'xs2|sum(attribute="@A", start=[])')
    F("sum-dotted", 'hs|sum(attribute="x.@A")')
    F("join", 'xs2|join(",", attribute="@A")')
    F("join-dotted", 'hs|join(",", "x.@A")')
    F("groupby", 'xs2|groupby("@A")|list')
    F("groupby1", 'xs|groupby(attribute="@A")|list')
    F("groupby-default", 'xs2|groupby("@A", default="D")|list')
    F("groupby-dotted", 'hs|groupby("x.@A")|list')
    a(_r("groupby-each", lambda A: '{%% for g, items in xs|groupby("%s") %%}%s{%% endfor %%}' % (A, obs("g"))))
    a(_r("groupby-grouper", lambda A: '{%% for g in xs|groupby("%s") %%}%s{%% endfor %%}' % (A, obs("g.grouper"))))
    F("selectattr", 'xs2|selectattr("@A")|list', False)
    F("selectattr-test", 'xs2|selectattr("@A", "c17seen")|list')
    F("selectattr-eq", 'xs2|selectattr("@A", "eq", 1)|list', False)
    F("selectattr-dotted", 'hs|selectattr("x.@A", "c17seen")|list')
    F("selectattr-int", 'nest|selectattr("0.@A", "c17seen")|list')
    F("rejectattr", 'xs2|rejectattr("@A")|list', False)
    F("rejectattr-test", 'xs2|rejectattr("@A", "c17seen")|list')
    F("rejectattr-defined", 'xs2|rejectattr("@A", "defined")|list', False)

    # ---- format-string field lookups
    FIELDS = [
        ("f0dot", "{0.@A}", ".format(o)"),
        ("f0sub", "{0[@A]}", ".format(o)"),
        ("fkdot", "{a.@A}", ".format(a=o)"),
        ("fmdot", "{a.@A}", '.format_map({"a": o})'),
        ("fmsub", "{a[@A]}", '.format_map({"a": o})'),
        ("fmdict", "{a.@A}", ".format_map(dict(a=o))"),
        ("fxdot", "{0.x.@A}", ".format(h)"),
        ("fxsub", "{0[x][@A]}", ".format(h)"),
        ("flist", "{0[0].@A}", ".format(xs)"),
        ("fdict", "{0[a].@A}", ".format(d)"),
        ("fconv", "{0.@A!r}{0.@A!s}", ".format(o)"),
        ("fspec", "{0:{1.@A}}", ".format(1, o)"),
        ("fauto", "{.@A}{[@A]}", ".format(o, o)"),
        ("fchain", "{0.@A.mark}", ".format(o)"),
        ("fstar", "{0.@A}", ".format(*xs)"),
        ("fkw", "{a.@A}", ".format(**d)"),
    ]
    STRS = [
        ("plain", lambda f: '"%s"' % f, None),
        ("safe", lambda f: '("%s"|safe)' % f, None),
        ("ctxstr", lambda f: "fs", "str"),
        ("ctxmarkup", lambda f: "fm", "markup"),
        ("escaped", lambda f: '("%s"|e)' % f, None),
        ("concat", lambda f: '("%s" ~ "%s")' % (f[:3], f[3:]), None),
    ]
    for fid, field, call in FIELDS:
        for sid, sfn, ctxkind in STRS:
            def tpl(A, field=field, call=call, sfn=sfn, ctxkind=ctxkind):
                f = "<" + field.replace("@A", A) + ">"
                return ("{{ %s%s }}" % (sfn(f), call), {"fs": f} if ctxkind else None)
            a(_r(f"fmt-{fid}-{sid}", tpl, True))
    REFS = [
        ("stored", "{%% set f = %(S)s.%(M)s %%}{{ f(%(ARGS)s) }}"),
        ("with", "{%% with f = %(S)s.%(M)s %%}{{ f(%(ARGS)s) }}{%% endwith %%}"),
        ("attrf", '{{ (%(S)s|attr("%(M)s"))(%(ARGS)s) }}'),
        ("subscr", '{{ %(S)s["%(M)s"](%(ARGS)s) }}'),
        ("subvar", "{{ %(S)s[mname_%(M)s](%(ARGS)s) }}"),
        ("mapped", '{%% set f = [%(S)s]|map(attribute="%(M)s")|first %%}{{ f(%(ARGS)s) }}'),
        ("mapattr", '{%% set f = [%(S)s]|map("attr", "%(M)s")|list %%}{{ f[0](%(ARGS)s) }}'),
        ("macro", "{%% macro m(f) %%}{{ f(%(ARGS)s) }}{%% endmacro %%}{{ m(%(S)s.%(M)s) }}"),
        ("callblock", "{%% macro m() %%}{{ caller(%(S)s.%(M)s) }}{%% endmacro %%}"
                      "{%% call(f) m() %%}{{ f(%(ARGS)s) }}{%% endcall %%}"),
        ("loop", "{%% for f in [%(S)s.%(M)s] %%}{{ f(%(ARGS)s) }}{%% endfor %%}"),
        ("cond", "{{ (%(S)s.%(M)s if true else 0)(%(ARGS)s) }}"),
        ("dictstore", '{{ {"f": %(S)s.%(M)s}.f(%(ARGS)s) }}'),
        ("nsstore", "{%% set q = namespace(f=%(S)s.%(M)s) %%}{{ q.f(%(ARGS)s) }}"),
        ("holder", "{{ fh.x.%(M)s(%(ARGS)s) }}"),
        ("upper-lower", "{{ (%(S)s|upper|lower).%(M)s(%(ARGS)s) }}"),
    ]
    for rid, pat in REFS:
        for M, field, args in (("format", "{0.@A}", "o"), ("format_map", "{a.@A}", '{"a": o}')):
            for sid, sfn in (("plain", lambda f: '"%s"' % f), ("safe", lambda f: '("%s"|safe)' % f)):
                def tpl(A, pat=pat, M=M, field=field, args=args, sfn=sfn, sid=sid):
                    f = "<" + field.replace("@A", A) + ">"
                    return (pat % {"S": sfn(f), "M": M, "ARGS": args}, {"fs": f, "holder_markup": sid == "safe"})
                a(_r(f"ref-{rid}-{M}-{sid}", tpl, True))
    return R


def runtime_bases():
    """(id, prelude, base expression, postlude) of objects a template can reach
    without any data being passed in."""
    B = []
    for i, lit in enumerate(['""', "()", "[]", "{}", "(1)", "(1.5)", "true", "none", '(""|safe)', "(1, 2)"]):
        B.append((f"lit{i}", "", lit, ""))
    for i, lit in enumerate(['"x"', "[1]", '{"a": 1}', "(1,)", "0", "false", '"x"|upper', "[[]][0]", '("a" ~ "b")',
                             "(1 + 1)", '"%s"|format(1)', "[1, 2]|first", "(none, )", '{"a": []}.a']):
        B.append((f"lit{10 + i}", "", lit, ""))
    for g in ("range", "dict", "lipsum", "cycler", "joiner", "namespace"):
        B.append((g, "", g, ""))
    B += [
        ("range()", "", "range(1)", ""),
        ("cycler()", "", "cycler(1)", ""),
        ("cycler.next", "", "cycler(1).next", ""),
        ("joiner()", "", "joiner()", ""),
        ("namespace()", "", "namespace(a=1)", ""),
        ("dict()", "", "dict(a=1)", ""),
        ("dict.items", "", "{}.items", ""),
        ("str.upper", "", '"a".upper', ""),
        ("self", "", "self", ""),
        ("self.block", "{% block b %}{% endblock %}", "self.b", ""),
        ("macro", "{% macro m() %}{% endmacro %}", "m", ""),
        ("loop", "{% for i in [1] %}", "loop", "{% endfor %}"),
        ("loop.cycle", "{% for i in [1] %}", "loop.cycle", "{% endfor %}"),
        ("caller", "{% macro m() %}{{ caller() }}{% endmacro %}{% call m() %}", "m", "{% endcall %}"),
        ("caller-in-macro", "{% macro m() %}", "caller", "{% endmacro %}{% call m() %}{% endcall %}"),
        ("varargs", "{% macro m() %}", "varargs", "{% endmacro %}{{ m(1) }}"),
        ("kwargs", "{% macro m() %}", "kwargs", "{% endmacro %}{{ m(a=1) }}"),
        ("module", '{% import "lib" as lib %}', "lib", ""),
        ("module.macro", '{% from "lib" import lm %}', "lm", ""),
        ("undefined", "", "zz_undefined_variable", ""),
        ("undefined-attr", "", "ctxfn.zz_nope", ""),
        ("undefined-item", "", '{"a": 1}["zz"]', ""),
        ("undefined-unsafe", "", "ctxfn.__globals__", ""),
        ("undefined-loop-else", "{% for zz_i in [] %}{% endfor %}", "zz_i", ""),
        ("undefined-macro-arg", "{% macro m(zz_a) %}", "zz_a", "{% endmacro %}{{ m() }}"),
        ("context-fn", "", "ctxfn", ""),
    ]
    return B


N_BASIC_RT_ROUTES = 7
RT_ROUTES = [
    ("dot", lambda b, A: obs(f"{b}.{A}"), False),
    ("sub", lambda b, A: obs(f'{b}["{A}"]'), False),
    ("attr", lambda b, A: obs(f'{b}|attr("{A}")'), False),
    ("map", lambda b, A: obs(f'[{b}]|map(attribute="{A}")|list'), False),
    ("fmt", lambda b, A: '{{ "<{0.%s}>".format(%s) }}' % (A, b), True),
    ("fmtsub", lambda b, A: '{{ "<{0[%s]}>".format(%s) }}' % (A, b), True),
    ("fmtsafe", lambda b, A: '{{ ("<{a.%s}>"|safe).format_map({"a": %s}) }}' % (A, b), True),
    # attribute chains and non-output positions (the optimizer folds constant sub-expressions anywhere)
    ("chain-name", lambda b, A: obs(f"{b}.{A}.__name__"), False),
    ("chain-mro", lambda b, A: obs(f"{b}.{A}.__mro__"), False),
    ("chain-self", lambda b, A: obs(f"{b}.{A}.__self__"), False),
    ("chain-sub", lambda b, A: obs(f'{b}["{A}"]["__name__"]'), False),
    ("if-eq", lambda b, A: "{%% if %s.%s.__name__ == 'list' %%}T{%% else %%}F{%% endif %%}" % (b, A), False),
    ("if-truth", lambda b, A: "{%% if %s.%s %%}T{%% else %%}F{%% endif %%}" % (b, A), False),
    ("set", lambda b, A: "{%% set v = %s.%s %%}%s" % (b, A, obs("v")), False),
    ("with", lambda b, A: "{%% with v = %s.%s %%}%s{%% endwith %%}" % (b, A, obs("v")), False),
    ("filter-arg", lambda b, A: obs(f"zz_nope|default({b}.{A})"), False),
    ("test-defined", lambda b, A: "{{ %s.%s is defined }}|{{ %s.%s is none }}" % (b, A, b, A), False),
    ("concat", lambda b, A: '{{ %s.%s ~ "" }}' % (b, A), False),
    ("string", lambda b, A: "{{ %s.%s|string }}" % (b, A), False),
    ("list-literal", lambda b, A: obs(f"[{b}.{A}]"), False),
    ("dict-literal", lambda b, A: obs('{"k": %s.%s}' % (b, A)), False),
    ("condexpr", lambda b, A: obs(f"{b}.{A} if true else 0"), False),
    ("macro-default", lambda b, A: "{%% macro q(a=%s.%s) %%}%s{%% endmacro %%}{{ q() }}" % (b, A, obs("a")), False),
    ("for-iter", lambda b, A: "{%% for v in [%s.%s] %%}%s{%% endfor %%}" % (b, A, obs("v")), False),
    ("call-arg", lambda b, A: obs(f"dict(k={b}.{A}).k"), False),
]

# ------------------------------------------------------------------ running one case

FRESH = (types.MappingProxyType, types.MethodType, types.BuiltinMethodType, types.BuiltinFunctionType,
         types.MethodWrapperType, types.WrapperDescriptorType, types.MethodDescriptorType, dict)
_ADDR = re.compile(r" at 0x[0-9a-fA-F]+")


def norm(s):
    return _ADDR.sub(" at 0x", s)


CONFIGS = {
    # id: (async, undefined class name, autoescape)
    "sync": (False, "Undefined", False),
    "async": (True, "Undefined", False),
    "sync-strict": (False, "StrictUndefined", False),
    "sync-chain": (False, "ChainableUndefined", False),
    "sync-esc": (False, "Undefined", True),
    "async-strict": (True, "StrictUndefined", False),
    "async-chain": (True, "ChainableUndefined", True),
    "async-esc": (True, "Undefined", True),
    # ImmutableSandboxedEnvironment: its is_safe_attribute override must keep the private / internal rules
    "sync-immutable": (False, "Undefined", False, "immutable"),
    "async-immutable": (True, "Undefined", False, "immutable"),
    "sync-immutable-strict-esc": (False, "StrictUndefined", True, "immutable"),
}
IMMUTABLE_QUICK = ["sync-immutable", "async-immutable"]


class Rec:
    def __init__(self):
        self.values = []
        self.compiled = None
        self.cap_name = None
        self.captured = []

    def finalize(self, v):
        self.values.append(v)
        return v

    def see(self, v):
        self.values.append(v)
        return v

    def seen(self, v, *a):
        self.values.append(v)
        return True

    def cap(self, v):
        self.captured.append(v)
        return ""


def ctxfn():
    return "CTXFN"


LIB_SOURCE = "C17LIBBODY{% macro lm() %}L{% endmacro %}{% set lv = 1 %}"


def make_env(cfg, rec, cache_size=0):
    import jinja2
    from jinja2.sandbox import ImmutableSandboxedEnvironment, SandboxedEnvironment

    asy, undef, esc = CONFIGS[cfg][:3]
    cls = ImmutableSandboxedEnvironment if CONFIGS[cfg][3:] == ("immutable",) else SandboxedEnvironment
    env = cls(
        enable_async=asy, undefined=getattr(jinja2, undef), autoescape=esc, finalize=rec.finalize,
        loader=jinja2.DictLoader({"lib": LIB_SOURCE}), cache_size=cache_size,
    )
    env.filters["c17see"] = rec.see
    env.filters["c17cap"] = rec.cap
    env.tests["c17seen"] = rec.seen
    env.globals["ctxfn"] = ctxfn
    return env


def build_data(kind, A, extra):
    from markupsafe import Markup

    o, o2 = make_object(kind), make_object(kind)
    h, h2 = Holder(o), Holder(o2)
    data = dict(o=o, o2=o2, h=h, h2=h2, xs=[o], xs2=[o, o2], hs=[h], hs2=[h, h2], d={"a": o}, nest=[[o]], n=A, ns=[A],
                mname_format="format", mname_format_map="format_map")
    if extra:
        fs = extra.get("fs")
        if fs is not None:
            data["fs"] = fs
            data["fm"] = Markup(fs)
            data["fh"] = Holder(Markup(fs) if extra.get("holder_markup") else fs)
    return data, [o, o2]


def forbidden_values(objs, A):
    Fs = []
    for o in objs:
        try:
            F = getattr(o, A)
        except Exception:  # noqa: BLE001  (AttributeError; UndefinedError for undefined bases)
            continue
        if F is not o:  # a ChainableUndefined answers every public name with itself: the receiver is not a secret
            Fs.append(F)
    return Fs


def is_forbidden_pred(Fs, fresh=None):
    fresh = fresh or FRESH

    def pred(v):
        for F in Fs:
            if v is F:
                return True
            if type(v) is type(F) and isinstance(F, fresh):
                try:
                    if v == F:
                        return True
                except Exception:  # noqa: BLE001
                    pass
        return False

    return pred


def needles(Fs):
    out = []
    for F in Fs:
        if isinstance(F, dict) and len(F) > 20:
            continue
        try:
            s = norm(str(F))
        except Exception:  # noqa: BLE001
            continue
        if len(s) >= 10:
            out.append(s)
    return out


def outcome_class(res):
    if res[0] == "ok":
        return ("ok", norm(res[1]))
    cls = res[1]
    if cls == "UndefinedError":
        cls = "SecurityError"  # the relation: forbidden access == missing attribute, up to the exception class
    return ("exc", cls)


def run_once(cfg, src, data, compiled=None, cache_size=0):
    """Fresh environment + recorder; `compiled` (from sbx.compile_src under the
    same configuration) only saves recompiling the same source."""
    rec = Rec()
    env = make_env(cfg, rec, cache_size)
    del TOUCHED[:]
    if compiled is None:
        compiled = sbx.compile_src(env, src)
    rec.compiled = compiled
    res = sbx.render_code(env, compiled, data)
    touched = [t for t in TOUCHED]
    return res, rec, touched, env


def compile_cfg(cfg, src):
    return sbx.compile_src(make_env(cfg, Rec()), src)


def script_for(cfg, src, kind, A, extra):
    return (
        "from checks import c17\n"
        f"cfg, src, kind, A, extra = {cfg!r}, {src!r}, {kind!r}, {A!r}, {extra!r}\n"
        "data, objs = c17.build_data(kind, A, extra)\n"
        "print('forbidden:', [type(x).__name__ for x in c17.forbidden_values(objs, A)])\n"
        "res, rec, touched, env = c17.run_once(cfg, src, data)\n"
        "print('template:', src)\n"
        "print('result  :', res)\n"
        "print('recorded:', [type(v).__name__ for v in rec.values])\n"
        "print('touched :', touched)\n"
        "# plain: jinja2.sandbox.SandboxedEnvironment().from_string(src).render(**data)\n"
    )


def check_struct(p, asy, src, compiled, tag):
    if compiled[0] != "code":
        return
    viol, st = sbx.structural(compiled[2])
    p.count("struct_programs")
    p.count("struct_gated_accesses", st["environment.getattr"] + st["environment.getitem"] + st["environment.call"])
    p.count("struct_slice_exempt", st["slice_exempt"])
    for k, n in st.items():
        if k.startswith("unknown_name:"):
            p.count("struct_" + k, n)
    for kind, code in viol:
        p.violation(f"C17/struct/{kind}/{tag}", {
            "msg": f"generated code touches a template-controlled value outside the sandbox: {code!r} in program {src!r}",
            "script": "from jinja2.sandbox import SandboxedEnvironment\n"
                      f"print(SandboxedEnvironment(enable_async={asy!r}).compile({src!r}, raw=True))\n",
        })


#: bases for which "forbidden == missing" is not a valid relation: a missing attribute of the class `dict`
#: falls back to dict["name"] which *succeeds* (types.GenericAlias), and an attribute of an undefined
#: value raises UndefinedError while its dunder attributes are (unsafe) undefined values.
NO_RELATION = ("runtime:dict", "runtime:undefined", "runtime:undefined-attr", "runtime:undefined-item",
               "runtime:undefined-unsafe", "runtime:undefined-loop-else", "runtime:undefined-macro-arg")
#: private names of jinja's own Undefined objects (receivers of the "undefined-*" bases)
UNDEFINED_NAMES = ["_undefined_obj", "_undefined_name", "_undefined_hint", "_undefined_exception", "_undefined_message",
                   "_fail_with_undefined_error", "__reduce_ex__", "__slots__", "__html__", "__getattr__", "__eq__"]


def judge(p, cfg, rid, is_fmt, src, kind, A, extra, Fs, res, rec, touched, ctl_res, liveobj=None, script=None):
    """Oracle for one forbidden access.  Returns the outcome signature."""
    bad = []
    pred = is_forbidden_pred(Fs)
    if sbx.deep_find(rec.values, pred):
        bad.append(("leak-identity", "the forbidden object reached finalize/filter/test"))
    if MARK in res[-1]:
        bad.append(("leak-printed", "tracer marker in the output / exception message"))
    if any(m == MARK for m, _ in touched):
        bad.append(("leak-used", f"tracer was used: {sorted(set(h for m, h in touched if m == MARK))}"))
    if res[0] == "ok" and ctl_res is not None:
        ctl_out = norm(ctl_res[1]) if ctl_res[0] == "ok" else ""
        out = norm(res[1])
        for nd in needles(Fs):
            if nd in out and nd not in ctl_out:
                bad.append(("leak-str", f"str() of the forbidden object in the output: {nd[:60]!r}"))
                break
    if kind in NO_RELATION:
        ctl_res = None
    if Fs and res[0] == "exc" and res[1] not in ("SecurityError", "UndefinedError" if kind in NO_RELATION else "") and not is_fmt:
        # an exception class other than SecurityError is tolerated only when the route raises the very
        # same class for an attribute that does not exist (e.g. an already awaited coroutine in async mode)
        if not (ctl_res is not None and ctl_res[0] == "exc" and ctl_res[1] == res[1]):
            bad.append(("exc", f"raised {res[1]}: {res[2]} (neither undefined nor SecurityError)"))
    if Fs and ctl_res is not None and outcome_class(res) != outcome_class(ctl_res):
        if not (is_fmt and res[0] == "exc" and ctl_res[0] == "exc"):
            bad.append(("differs", f"outcome {outcome_class(res)!r} != outcome for a missing attribute {outcome_class(ctl_res)!r}"))
    for k, why in bad[:1]:
        p.violation(f"C17/{k}/{rid}", {
            "msg": f"[{cfg}] {kind}.{A} via {rid}: {why}; template {src!r} -> {res!r}",
            "config": cfg, "route": rid, "object": kind, "name": A, "template": src,
            "script": (script or "") + script_for(cfg, src, kind, A, extra),
        })
    return ("exc", res[1]) if res[0] == "exc" else ("ok",)


def data_shard(arg):
    cfg, route_ids, kinds = arg
    core.import_all_jinja()
    warnings.simplefilter("ignore", RuntimeWarning)  # reprs of async loop contexts create unawaited coroutines
    p = core.Part()
    asy = CONFIGS[cfg][0]
    routes = {r[0]: r for r in data_routes()}
    for rid in route_ids:
        _, fn, is_fmt, _value = routes[rid]

        def build(A):
            t = fn(A)
            return t if isinstance(t, tuple) else (t, None)

        # liveness: the route delivers a *public* attribute (otherwise it tests nothing)
        live = False
        src, extra = build(PUBLIC_NAME)
        comp = compile_cfg(cfg, src)
        csrc, cextra = build(MISSING_NAME)
        ccomp = compile_cfg(cfg, csrc)
        for kind in ("probe", "function", "class"):
            data, objs = build_data(kind, PUBLIC_NAME, extra)
            res, rec, touched, env = run_once(cfg, src, data, comp)
            pubs = [getattr(o, PUBLIC_NAME) for o in objs]
            if (sbx.deep_find(rec.values, lambda v: any(v is x for x in pubs)) or PUBMARK in res[-1]
                    or any(m == PUBMARK for m, _ in touched)):
                live = True
            dispose(objs)
            cdata, cobjs = build_data(kind, MISSING_NAME, cextra)
            if outcome_class(run_once(cfg, csrc, cdata, ccomp)[0]) != outcome_class(res):
                live = True  # a defined public attribute is observably different from a missing one
            dispose(cobjs)
        if not live:
            if is_fmt and res[0] == "exc" and res[1] in ("KeyError", "IndexError", "ValueError", "TypeError"):
                # the sandboxed formatter rejects the field syntax altogether on this python
                # (string.Formatter of 3.12 has no auto-numbering for '{.a}'): nothing can leak
                p.count("format_routes_rejected_by_formatter")
                p.sig(("dead-format-route", rid.split("-")[1], res[1]))
            else:
                raise core.HarnessError(f"route {rid} [{cfg}] never delivers a public attribute: {src!r} -> {res!r}")
        for A in NAMES:
            src, extra = build(A)
            comp = compile_cfg(cfg, src)
            check_struct(p, asy, src, comp, rid)
            for kind in kinds:
                p.evals += 1
                data, objs = build_data(kind, A, extra)
                Fs = forbidden_values(objs, A)
                if Fs and not model_forbidden(objs[0], A):
                    raise core.HarnessError(f"name {A} exists on {kind} but the model does not forbid it")
                res, rec, touched, env = run_once(cfg, src, data, comp)
                dispose(objs)
                ctl_res = None
                if Fs:
                    cdata, cobjs = build_data(kind, MISSING_NAME, cextra)
                    ctl_res = run_once(cfg, csrc, cdata, ccomp)[0]
                    dispose(cobjs)
                sig = judge(p, cfg, rid, is_fmt, src, kind, A, extra, Fs, res, rec, touched, ctl_res)
                if Fs:
                    p.count("nontrivial")
                    p.sig((rid.split("-")[0], kind, A, sig))
                    if rid in ("dot", "map-attr", "fmt-f0dot-safe"):
                        p.sample({"config": cfg, "route": rid, "object": kind, "name": A, "template": src,
                                  "outcome": list(sig)}, cap=2)
                else:
                    p.count("attribute_absent_on_object")
    return p


def rt_shard(arg):
    cfg, base_ids = arg
    core.import_all_jinja()
    warnings.simplefilter("ignore", RuntimeWarning)
    p = core.Part()
    asy = CONFIGS[cfg][0]
    bases = {b[0]: b for b in runtime_bases()}
    for bid in base_ids:
        _, pre, bexpr, post = bases[bid]
        literal = bid.startswith("lit")
        for ri, (rrid, rfn, is_fmt) in enumerate(RT_ROUTES):
            if ri >= N_BASIC_RT_ROUTES and not literal:
                continue  # the folding-position routes matter for bases the optimizer can evaluate
            rid = f"rt-{rrid}"

            def build(name):
                return pre + "{{ %s|c17cap }}" % bexpr + rfn(bexpr, name) + post

            csrc = build(MISSING_NAME)
            ctl_once = run_once(cfg, csrc, {})[0]
            for A in NAMES + (UNDEFINED_NAMES if bid.startswith("undefined") else []):
                p.evals += 1
                src = build(A)
                # no compile cache here: constant folding evaluates attribute access, filters and finalize
                # at COMPILE time, so the recorder of the compiling environment must be the judged one
                res, rec, touched, env = run_once(cfg, src, {})
                check_struct(p, asy, src, rec.compiled, rid)
                Fs = forbidden_values(rec.captured, A)
                ctl_res = ctl_once if Fs else None
                sig = judge(p, cfg, f"{rid}/{bid}", is_fmt, src, "runtime:" + bid, A, None, Fs, res, rec, touched, ctl_res)
                if Fs:
                    p.count("nontrivial")
                    p.sig(("rt", rrid, bid, A, sig))
                    if rrid == "dot" and A == "__globals__":
                        p.sample({"config": cfg, "route": rid, "object": bid, "name": A, "template": src,
                                  "outcome": list(sig)}, cap=1)
                else:
                    p.count("attribute_absent_on_object")
    return p


# ------------------------------------------------------------------ histories: a trusted environment first

HISTORY_KINDS = ["probe", "generator", "dictsub"]
HISTORY_KINDS_THOROUGH = ["probe", "class", "generator", "frame", "dictsub", "function"]


def make_plain_env(cfg):
    """The application's own, unsandboxed Environment: it may read private attributes."""
    import jinja2

    asy, undef, esc = CONFIGS[cfg][:3]
    rec = Rec()
    env = jinja2.Environment(enable_async=asy, undefined=getattr(jinja2, undef), autoescape=esc,
                             loader=jinja2.DictLoader({"lib": LIB_SOURCE}), cache_size=0)
    env.filters["c17see"] = rec.see
    env.filters["c17cap"] = rec.cap
    env.tests["c17seen"] = rec.seen
    env.globals["ctxfn"] = ctxfn
    return env


def prime_plain(cfg, src, kind, A, extra, compiled=None):
    data, objs = build_data(kind, A, extra)
    env = make_plain_env(cfg)
    res = sbx.render_code(env, compiled or sbx.compile_src(env, src), data)
    dispose(objs)
    return res


def history_shard(arg):
    """Same route x name x object product, but an UNSANDBOXED environment renders the very same template in the same
    process first (trusted application templates and untrusted ones share a process).  These shards run in a worker
    pool of their own, before everything else, so that the trusted environment is always the first user."""
    cfg, route_ids, kinds = arg
    core.import_all_jinja()
    warnings.simplefilter("ignore", RuntimeWarning)
    p = core.Part()
    routes = {r[0]: r for r in data_routes()}
    for rid in route_ids:
        _, fn, is_fmt, _value = routes[rid]

        def build(A):
            t = fn(A)
            return t if isinstance(t, tuple) else (t, None)

        csrc, cextra = build(MISSING_NAME)
        ccomp = compile_cfg(cfg, csrc)
        pcomp_ctl = sbx.compile_src(make_plain_env(cfg), csrc)
        for kind in kinds:
            prime_plain(cfg, csrc, kind, MISSING_NAME, cextra, pcomp_ctl)
        for A in NAMES:
            src, extra = build(A)
            comp = compile_cfg(cfg, src)
            pcomp = sbx.compile_src(make_plain_env(cfg), src)
            for kind in kinds:
                p.evals += 1
                primed = prime_plain(cfg, src, kind, A, extra, pcomp)
                data, objs = build_data(kind, A, extra)
                Fs = forbidden_values(objs, A)
                res, rec, touched, env = run_once(cfg, src, data, comp)
                dispose(objs)
                ctl_res = None
                if Fs:
                    cdata, cobjs = build_data(kind, MISSING_NAME, cextra)
                    ctl_res = run_once(cfg, csrc, cdata, ccomp)[0]
                    dispose(cobjs)
                sig = judge(p, cfg, "after-unsandboxed/" + rid, is_fmt, src, kind, A, extra, Fs, res, rec, touched, ctl_res,
                            script=("from checks import c17\n"
                                    f"print('unsandboxed first:', c17.prime_plain({cfg!r}, {src!r}, {kind!r}, {A!r}, {extra!r}))\n"))
                if Fs:
                    p.count("nontrivial")
                    p.sig(("hist", rid.split("-")[0], kind, A, sig, primed[0]))
    return p


# ------------------------------------------------------------------ {% from ... import name %}

#: the module object of an imported template is a python object like any other: its private and dunder
#: attributes must not be importable by name (the compiler turns a from-import into a bare getattr)
FROM_NAMES = NAMES + ["_body_stream", "__getattribute__", "__name__", "__module__", "__html__", "__str__", "__repr__",
                      "__weakref__", "__doc__", "_private_macro", "_TemplateModule__x", "__reduce__", "__setattr__"]
FROM_FORMS = [
    ("plain", lambda A: '{%% from "lib" import %s %%}' % A + obs(A)),
    ("alias", lambda A: '{%% from "lib" import %s as v %%}' % A + obs("v")),
    ("alias-with-context", lambda A: '{%% from "lib" import %s as v with context %%}' % A + obs("v")),
    ("alias-without-context", lambda A: '{%% from "lib" import %s as v without context %%}' % A + obs("v")),
    ("plain-with-context", lambda A: '{%% from "lib" import %s with context %%}' % A + obs(A)),
    ("second-of-two", lambda A: '{%% from "lib" import lm, %s as v %%}' % A + obs("v")),
    ("first-of-two", lambda A: '{%% from "lib" import %s as v, lm %%}' % A + obs("v")),
    ("dynamic-template", lambda A: "{%% from libname import %s as v %%}" % A + obs("v")),
    ("in-macro", lambda A: '{%% macro m() %%}{%% from "lib" import %s as v %%}%s{%% endmacro %%}{{ m() }}' % (A, obs("v"))),
    ("in-block", lambda A: '{%% block b %%}{%% from "lib" import %s as v %%}%s{%% endblock %%}' % (A, obs("v"))),
    ("in-for", lambda A: '{%% for i in [1] %%}{%% from "lib" import %s as v %%}%s{%% endfor %%}' % (A, obs("v"))),
    ("called", lambda A: '{%% from "lib" import %s as v %%}{{ v() }}' % A),
    ("attr-of", lambda A: '{%% from "lib" import %s as v %%}%s' % (A, obs("v.name"))),
]
FROM_CAPTURE = '{% import "lib" as c17lib %}{{ c17lib|c17cap }}'
ALLOWED_FROM_EXC = ("TemplateAssertionError", "TemplateSyntaxError", "SecurityError", "UndefinedError")


def from_case(cfg, fid, A, compiled=None):
    src = FROM_CAPTURE + dict(FROM_FORMS)[fid](A)
    res, rec, touched, env = run_once(cfg, src, {"libname": "lib"}, compiled, cache_size=50)
    return src, res, rec, touched


def from_shard(arg):
    cfg, form_ids = arg
    core.import_all_jinja()
    warnings.simplefilter("ignore", RuntimeWarning)
    from jinja2.runtime import Macro

    p = core.Part()
    asy = CONFIGS[cfg][0]
    fresh = FRESH + (list,)
    for fid in form_ids:
        # liveness: the form imports a public macro
        src, res, rec, touched = from_case(cfg, fid, "lm")
        if not (sbx.deep_find(rec.values, lambda v: isinstance(v, Macro)) or (res[0] == "ok" and ("L" in res[1] or "lm" in res[1]))):
            raise core.HarnessError(f"from-import form {fid} [{cfg}] never delivers the public macro: {src!r} -> {res!r}")
        ctl = from_case(cfg, fid, MISSING_NAME)[1]
        for A in FROM_NAMES:
            p.evals += 1
            src = FROM_CAPTURE + dict(FROM_FORMS)[fid](A)
            comp = compile_cfg(cfg, src)
            check_struct(p, asy, src, comp, "from-" + fid)
            _, res, rec, touched = from_case(cfg, fid, A, comp)
            Fs = forbidden_values(rec.captured, A)
            if res[0] == "exc" and res[1] in ("TemplateAssertionError", "TemplateSyntaxError"):
                # rejected while compiling: take the forbidden values from a module loaded separately
                _, _, rec0, _ = from_case(cfg, "plain", "lm")
                Fs = forbidden_values(rec0.captured, A)
            bad = None
            if sbx.deep_find(rec.values, is_forbidden_pred(Fs, fresh)):
                bad = ("leak-identity", "a private attribute of the template module reached finalize/filter/test")
            elif res[0] == "ok" and any(nd in norm(res[1]) and nd not in (norm(ctl[1]) if ctl[0] == "ok" else "")
                                        for nd in needles(Fs)):
                bad = ("leak-str", "str() of a private attribute of the template module in the output")
            elif res[0] == "exc" and res[1] not in ALLOWED_FROM_EXC:
                bad = ("exc", f"raised {res[1]}: {res[2]}")
            elif A.startswith("_") and res[0] == "ok" and outcome_class(res) != outcome_class(ctl):
                bad = ("differs", f"outcome {outcome_class(res)!r} != outcome for a name the module does not have "
                                  f"{outcome_class(ctl)!r}")
            if bad:
                p.violation(f"C17/{bad[0]}/from-import-{fid}", {
                    "msg": f"[{cfg}] from-import of {A!r} ({fid}): {bad[1]}; template {src!r} -> {res!r}",
                    "config": cfg, "route": "from-import-" + fid, "name": A, "template": src,
                    "script": "from checks import c17\n"
                              f"src, res, rec, touched = c17.from_case({cfg!r}, {fid!r}, {A!r})\n"
                              "print('template:', src)\nprint('result  :', res)\n"
                              "print('recorded:', [type(v).__name__ for v in rec.values])\n"
                              "# plain: SandboxedEnvironment(loader=DictLoader({'lib': c17.LIB_SOURCE})).from_string(src).render()\n",
                })
            if Fs:
                p.count("nontrivial")
            p.sig(("from", fid, A, res[1] if res[0] == "exc" else "ok"))
            if fid == "alias" and A in ("__class__", "_body_stream"):
                p.sample({"config": cfg, "route": "from-import-" + fid, "name": A, "template": src,
                          "outcome": res[1] if res[0] == "exc" else "ok"}, cap=2)
    return p


# ------------------------------------------------------------------ structural grammar

G_BASES = ["o", "o.a", "o.f()", "(o|first)", "loop", "o[0]", "(o.a, o.b)", "o.a[1:2]"]
G_FORMS = [
    "@", "@.a", '@["a"]', "@[o.k]", "@.a.b", "@.f()", "@.f(@.a)", "@(1)", "@.f(*@.a, **@.b)", "@.f(k=@.a)",
    '@|attr("a")', "@|first", "@|default(@.a)", "@ is divisibleby(@.a)", "@[1:2]", "@[:@.n]", "@[@.a:@.b:@.c]",
    "@[1:2].a", "@[1:2][0]", "(@.a, @.b)", "[@.a]", '{"k": @.a}', "@.a + @.b", "@.a ~ @.b", "-@.a", "not @.a",
    "@.a < @.b", "@.a in @.b", "@.a if @.b else @.c", "@.a if @.b", "@.a and @.b", "@.a ** 2",
    '@|map(attribute="a")|list', '"{0.a}".format(@)', '"%s"|format(@.a)', "@.a|string", '@|map("attr", "a")|list',
]
G_STMTS = [
    "{{ @E }}",
    "{% if @E %}x{% elif @E %}y{% else %}z{% endif %}",
    "{% for x in @E %}{{ x.a }}{% endfor %}",
    "{% for x in o.xs if @E %}{{ x }}{% endfor %}",
    "{% for x in o.xs recursive %}{{ loop(@E) }}{% endfor %}",
    "{% for x in o.xs %}{{ loop.cycle(@E) }}{{ loop.changed(@E) }}{{ loop.index }}{% else %}{{ @E }}{% endfor %}",
    "{% for a, b in @E %}{{ a.x }}{{ b.y }}{% endfor %}",
    "{% set v = @E %}{{ v.a }}",
    "{% set a, b = @E %}{{ a.x }}",
    "{% set ns = namespace() %}{% set ns.a = @E %}{{ ns.a.b }}",
    "{% if @E %}{% set o.a = 1 %}{% endif %}{% set o.b = @E %}{% set o.c %}x{% endset %}",
    "{% set ns = namespace() %}{% set ns.a = 1 %}{% set ns = @E %}{% set ns.a, ns.b = 1, @E %}",
    '{% from @E import a as b, c %}{% from "lib" import lm as q with context %}{{ b.x }}{{ q() }}',
    "{% set v %}{{ @E }}{% endset %}{{ v }}",
    "{% set v | upper %}{{ @E }}{% endset %}",
    "{% with v = @E %}{{ v.a }}{% endwith %}",
    "{% macro m(a=@E) %}{{ @E }}{{ a.b }}{{ varargs[0].a }}{{ kwargs.k.a }}{{ caller.a }}{% endmacro %}{{ m() }}",
    "{% macro m(a) %}{{ caller(@E) }}{% endmacro %}{% call(x) m(@E) %}{{ x.a }}{{ @E }}{% endcall %}",
    "{% call @E.f() %}x{% endcall %}",
    "{% filter upper %}{{ @E }}{% endfilter %}",
    "{% filter default(@E) %}x{% endfilter %}",
    "{% block b %}{{ @E }}{{ super() }}{{ self.b() }}{% endblock %}",
    "{% block b scoped %}{{ @E }}{% endblock %}",
    "{% include @E %}",
    '{% include [@E, "x"] ignore missing %}',
    "{% import @E as m %}{{ m.a }}",
    "{% from @E import a, b as c %}{{ a.x }}{{ c() }}",
    "{% extends @E %}",
    "{% autoescape @E %}{{ @E }}{% endautoescape %}",
    "{% do @E %}",
    "{% trans a=@E %}x{{ a }}{% endtrans %}",
    "{% trans count=@E %}x{% pluralize %}y {{ count }}{% endtrans %}",
    "{{ _(@E) }}",
    "{{ o|default(@E) }}{{ o is sameas(@E) }}",
    "{% for x in o.xs %}{% if @E %}{% break %}{% endif %}{% continue %}{% endfor %}",
]


def grammar_programs():
    for si, st in enumerate(G_STMTS):
        for fi, form in enumerate(G_FORMS):
            for bi, base in enumerate(G_BASES):
                if base == "loop":
                    e = form.replace("@", "loop")
                    prog = "{% for i in o.xs %}" + st.replace("@E", e) + "{% endfor %}"
                else:
                    prog = st.replace("@E", form.replace("@", base))
                yield (si, fi, bi), prog


def grammar_shard(arg):
    asy, lo, hi = arg
    core.import_all_jinja()
    from jinja2.sandbox import SandboxedEnvironment
    from jinja2 import TemplateSyntaxError

    p = core.Part()
    env = SandboxedEnvironment(enable_async=asy, extensions=["jinja2.ext.i18n", "jinja2.ext.do", "jinja2.ext.loopcontrols"])
    for i, (key, prog) in enumerate(grammar_programs()):
        if not (lo <= i < hi):
            continue
        p.evals += 1
        try:
            py = env.compile(prog, raw=True)
        except TemplateSyntaxError as e:
            p.count("grammar_syntax_rejected")
            p.sig(("grammar-rejected", key[0], str(e)[:30]))
            continue
        viol, st = sbx.structural(py)
        p.count("struct_programs")
        p.count("struct_gated_accesses", st["environment.getattr"] + st["environment.getitem"] + st["environment.call"])
        p.count("struct_slice_exempt", st["slice_exempt"])
        p.count("struct_namespace_store", st["namespace_store"])
        for k, n in st.items():
            if k.startswith("unknown_name:"):
                p.count("struct_" + k, n)
        p.sig(("grammar", key[0], key[1], st["environment.getattr"], st["environment.getitem"], st["environment.call"],
               st["slice_exempt"]))
        if i % 997 == 0:
            p.sample({"kind": "structural grammar program", "async": asy, "program": prog,
                      "gated": st["environment.getattr"] + st["environment.getitem"] + st["environment.call"]}, cap=1)
        for kind, code in viol:
            p.violation(f"C17/struct/{kind}/grammar-stmt{key[0]}", {
                "msg": f"generated code touches a template-controlled value outside the sandbox: {code!r} in program {prog!r}",
                "script": "from jinja2.sandbox import SandboxedEnvironment\n"
                          f"print(SandboxedEnvironment(enable_async={asy!r}, extensions=['jinja2.ext.i18n', 'jinja2.ext.do', "
                          f"'jinja2.ext.loopcontrols']).compile({prog!r}, raw=True))\n",
            })
    return p


def chunks(xs, n):
    return [xs[i:i + n] for i in range(0, len(xs), n)]


def dispatch(arg):
    kind, payload = arg
    return {"data": data_shard, "rt": rt_shard, "grammar": grammar_shard, "from": from_shard,
            "history": history_shard}[kind](payload)


def run(ctx: core.Ctx):
    core.import_all_jinja()
    ctx.rule = ("full product route x name x object kind (and runtime-object x route x name) rendered in a fresh "
                "SandboxedEnvironment; a case is non-trivial when getattr(object, name) exists (there is something to "
                "leak); every route is first shown to deliver a public attribute; distinct = (route family, object, name, "
                "outcome class) plus distinct gate-count profiles of the structural grammar")
    ctx.assumptions += [
        "forbidden == missing-attribute relation is taken from the property text ('yield an undefined value or raise SecurityError')",
        "runtime names of generated code (environment, context, t_N ...) and value-returning helpers are read off compiler.py",
        "format routes may raise non-Security exceptions from the format machinery (recorded in the outcome signature)",
        "addresses in default reprs of interpreter objects are normalised before outputs are compared",
    ]
    cfgs = ["sync", "async"] if ctx.quick else list(CONFIGS)
    rids = [r[0] for r in data_routes()]
    if len(set(rids)) != len(rids):
        raise core.HarnessError("duplicate route ids")
    bids = [b[0] for b in runtime_bases()]
    n = sum(1 for _ in grammar_programs())
    step = 600
    hkinds = HISTORY_KINDS if ctx.quick else HISTORY_KINDS_THOROUGH
    ctx.pmap(dispatch, [("history", (cfg, c, hkinds))
                        for cfg in (["sync", "async"] if ctx.quick else ["sync", "async", "sync-strict", "async-esc"])
                        for c in chunks(rids, 8)])
    imm = IMMUTABLE_QUICK if ctx.quick else [c for c in CONFIGS if "immutable" in c]
    cfgs = [c for c in cfgs if "immutable" not in c]
    plain_kinds = KINDS + (["listsub", "dictsub"] if ctx.quick else CONTAINER_KINDS)
    shards = [("data", (cfg, c, plain_kinds)) for cfg in cfgs for c in chunks(rids, 4)]
    # immutable sandbox: container receivers (its own attribute rules apply to them) plus the probe as a control
    imm_data = imm[:1] if ctx.quick else imm
    shards += [("data", (cfg, c, CONTAINER_KINDS + ["probe"])) for cfg in imm_data for c in chunks(rids, 6)]
    shards += [("rt", (cfg, c)) for cfg in cfgs for c in chunks(bids, 2)]
    container_bases = [b[0] for b in runtime_bases() if b[2].lstrip("(").startswith(("[", "{", "dict(", "kwargs"))]
    shards += [("rt", (cfg, c)) for cfg in imm for c in chunks(container_bases, 2)]
    shards += [("from", (cfg, c)) for cfg in cfgs for c in chunks([f[0] for f in FROM_FORMS], 3)]
    shards += [("grammar", (asy, lo, lo + step)) for asy in (False, True) for lo in range(0, n, step)]
    ctx.pmap(dispatch, shards)
    ctx.cov["bounds"] = {
        "configs": cfgs, "history_kinds": hkinds, "immutable_configs": imm, "immutable_runtime_bases": container_bases, "kinds_plain_configs": plain_kinds, "container_kinds": CONTAINER_KINDS, "data_routes": len(rids), "names": len(NAMES), "object_kinds": len(KINDS),
        "from_import_forms": len(FROM_FORMS), "from_import_names": len(FROM_NAMES), "runtime_bases": len(bids), "runtime_routes": len(RT_ROUTES), "grammar_programs_per_mode": n,
    }
    unknown = {k: v for k, v in ctx.counters.items() if k.startswith("struct_unknown_name:")}
    if unknown:
        raise core.HarnessError(f"structural walk met names it cannot classify: {unknown}")
