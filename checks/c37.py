"""C37 — concurrent async renders on one environment do not interfere (E4)."""
from __future__ import annotations

import itertools

from vf import core, e4

META = {
    "level": "model_checking",
    "engine": "E4",
    "technique": "stateless enumeration of every interleaving of await points of 2-3 hand-driven render_async tasks on one "
    "environment, each compared with its solo render",
    "text": "Tasks are render_async coroutines of templates that share an imported module (cached on the Template), a "
    "from-import with context, macros, namespaces, loop state, runtime-decided autoescape and an inheritance chain; every "
    "data function suspends at gates.  The driver steps one task to its next suspension at a time and enumerates every "
    "order in which the tasks can be stepped (no bound: the full interleaving tree of each task tuple), on a fresh "
    "environment and on a warmed-up one.  Each task's output must equal what it renders alone, and the module cached on "
    "the shared template must export what a solo import exports.",
    "note": "Bounded: the 7-template pool, ordered pairs (thorough: also triples) of tasks, <= 4 gates per task. Interleaving "
    "granularity is the await point (an asyncio loop cannot switch tasks anywhere else).  Data objects are task-private; "
    "sharing is through the environment, its template cache and Template._module only.",
    "design_ref": "DESIGN.md §4 C37, §3 E4",
}

TEMPLATES = {
    "lib": "{% set lv = f('L') %}{% macro lm(a) %}<{{ a }}|{{ f('m') }}|{{ x }}>{% endmacro %}{% set lw = 'w' ~ lv %}",
    "base": "B[{% block a %}ba{{ f('p') }}{% endblock %}]{{ x }}",
    "imp": "{% import 'lib' as l %}{{ l.lm(x) }}{{ f('a') }}{{ l.lv }}{{ l.lw }}",
    "fromctx": "{% from 'lib' import lm with context %}{{ lm(x) }}{{ f('b') }}{{ x }}",
    "loopns": "{% set ns = namespace(c=0) %}{% for i in items %}{% set ns.c = ns.c + i %}{{ f('c') }}{{ loop.index }}{{ loop.changed(i) }}{{ loop.cycle(x, 'y') }}{% endfor %}{{ ns.c }}",
    "macro": "{% macro m(a) %}({{ a }}{{ f('m') }}{{ x }}){% endmacro %}{{ m(1) }}{{ m(x) }}",
    "child": "{% extends 'base' %}{% block a %}{{ x }}{{ f('d') }}{{ super() }}{% endblock %}",
    "volatile": "{% autoescape x == 1 %}{{ f('<') }}{{ '<' ~ x }}{% endautoescape %}{{ f('>') }}",
    "incl": "{% include 'lib' %}{% import 'lib' as l %}{{ l.lm(2) }}{{ f('e') }}",
    "libae": "{% macro am(v, fl) %}{% autoescape fl %}{{ f('m') }}{{ v }}{% endautoescape %}|{{ v }}{% endmacro %}",
    # same cached macro module called from templates whose autoescape differs by name (select_autoescape)
    "maclib": "{% macro em(v) %}<b>{{ v }}</b>{{ f('m') }}{{ v }}{% endmacro %}",
    "pg.html": "{% import 'maclib' as l %}{{ l.em('<' ~ x) }}|{{ '<' ~ x }}",
    "ml.txt": "{% import 'maclib' as l %}{{ l.em('<' ~ x) }}|{{ '<' ~ x }}",
    # a namespace seeded from a dict that lives in a cached imported module (must be a private copy per render)
    "nslib": "{% set cfg = {'k': 'v'} %}{% macro show() %}{{ cfg|dictsort }}{% endmacro %}",
    "nsimp": "{% import 'nslib' as l %}{% set ns = namespace(l.cfg) %}{% set ns.k = x %}{% set ns.extra = x %}{{ f('n') }}{{ ns.k }}{{ l.cfg|dictsort }}{{ l.show() }}",
    # `|list` of a list that lives in a cached imported module is a private copy per render
    "lstlib": "{% set base = [0] %}{% macro show() %}{{ base }}{% endmacro %}",
    "lstimp": "{% import 'lstlib' as l %}{% set mine = l.base|list %}{% set _ = mine.append(x) %}{{ f('n') }}{{ mine }}{{ l.base }}{{ l.show() }}",
    # process-wide helpers of the engine (policy tables, fast-path type sets) touched by one task, read by the other
    "tji": "{{ dct|tojson(2) }}{{ f('a') }}{{ dct|tojson(indent=1) }}",
    "tj": "{{ f('b') }}{{ dct|tojson }}{{ f('c') }}{{ dct|tojson }}",
    "gen": "{{ dct|items|list }}{{ f('a') }}{{ dct|items|list }}",
    "gcoro": "{{ f('b') }}{{ gc('v') }}{{ f('c') }}{{ gc('w') }}",
    "impae": "{% import 'libae' as l %}{{ l.am('<' ~ x, x == 1) }}{{ '<' }}",
}
POOL = ["imp", "fromctx", "loopns", "macro", "child", "volatile", "incl", "impae", "pg.html", "ml.txt", "nsimp", "lstimp", "tji", "tj", "gen", "gcoro"]
# small templates (<= 2 gates) for the 3-task harnesses: the interleaving tree of three 5-step tasks has 756756 leaves
TEMPLATES.update({
    "slib": "{% set v = f('L') %}{% macro sm() %}{{ v }}{{ x }}{% endmacro %}",
    "s_imp": "{% import 'slib' as l %}{{ l.v }}{{ l.sm() }}{{ x }}",
    "s_from": "{% from 'slib' import sm with context %}{{ sm() }}{{ f('a') }}",
    "s_macro": "{% macro m() %}{{ f('m') }}{{ x }}{% endmacro %}{{ m() }}",
    "s_vol": "{% autoescape x == 1 %}{{ f('<') }}{{ '<' ~ x }}{% endautoescape %}",
    "s_child": "{% extends 'sbase' %}{% block a %}{{ x }}{{ super() }}{% endblock %}",
    "sbase": "[{% block a %}{{ f('p') }}{% endblock %}]",
})
SMALL = ["s_imp", "s_from", "s_macro", "s_vol", "s_child"]
RUN_CAP = 60000


_BC = {}


def make_env():
    import jinja2
    from jinja2.bccache import BytecodeCache

    class MemCache(BytecodeCache):
        """per-process compiled-code store: a fresh Environment per execution without recompiling"""

        def load_bytecode(self, bucket):
            if bucket.key in _BC:
                bucket.bytecode_from_string(_BC[bucket.key])

        def dump_bytecode(self, bucket):
            _BC[bucket.key] = bucket.bytecode_to_string()

    env = jinja2.Environment(loader=jinja2.DictLoader(TEMPLATES), enable_async=True, bytecode_cache=MemCache(),
                             autoescape=jinja2.select_autoescape(("html",), default_for_string=False))
    env.globals["f"] = mk_f("G")
    env.globals["x"] = "gx"
    return env


def mk_f(tag):
    async def f(label):
        await e4.Gate((tag, label))
        return f"{label}{tag}"

    return f


def mk_gc(tag):
    import types

    @types.coroutine
    def gc(label):
        # a generator-based coroutine: awaitable, but its type is plain `generator`
        yield from e4.Gate((tag, "gc", label)).__await__()
        return f"{label}{tag}"

    return gc


def data(i):
    return {"x": i + 1, "f": mk_f("T%d" % i), "items": [1, 1, 2][: 2 + (i % 2)], "dct": {"k": [1, i]}, "gc": mk_gc("T%d" % i)}


def solo(name, i, warm):
    env = make_env()
    if warm:
        warm_up(env)
    return outcome(e4.Drive(env.get_template(name).render_async(**data(i))).run_to_end())


def outcome(d):
    return ("exc", type(d.exc).__name__) if d.exc is not None else d.result


def warm_up(env):
    for n in POOL + SMALL:
        e4.Drive(env.get_template(n).render_async(**data(7))).run_to_end()


def module_exports(env):
    t = env.get_template("lib")
    m = t._module
    if m is None:
        return None
    return tuple(sorted((k, str(v) if not callable(v) else "macro") for k, v in m.__dict__.items()
                        if not k.startswith("_")))


def _noaddr(results):
    """results with object addresses blanked (an un-awaited object printed by a broken tree must not look like
    harness nondeterminism)"""
    import re

    return {k: re.sub(r" at 0x[0-9a-fA-F]+", " at 0x?", v) if isinstance(v, str) else v for k, v in results.items()}


def shard(arg):
    names, warm = arg
    p = core.Part()
    from checks import c29

    state0 = [c29.module_state()]  # before anything is rendered in this shard
    expect = [solo(n, i, warm) for i, n in enumerate(names)]
    ref_env = make_env()
    warm_up(ref_env)
    ref_exports = module_exports(ref_env)
    seen_outcomes = set()

    def make_run(prefix):
        env = make_env()
        if warm:
            warm_up(env)
        x = e4.run_tasks([env.get_template(n).render_async(**data(i)) for i, n in enumerate(names)], prefix)
        x.env = env
        return x

    first = [True]

    def on_execution(x):
        p.evals += 1
        st = c29.module_state()
        polluted = st != state0[0]
        if polluted:
            changed = sorted(k for k in st if st[k] != state0[0].get(k))
            state0[0] = st
            p.violation("C37/process-wide-state-modified/" + ",".join(changed)[:60], {
                "msg": f"tasks={names} warm={warm} schedule={x.order}: the renders changed module-level state of the package: {changed}",
                "script": f"from checks import c37\nc37.replay({list(names)!r}, {warm!r}, {list(x.choices)!r})\n"})
        if first[0]:
            first[0] = False
            y = make_run(tuple(x.choices))
            if y.order != x.order or _noaddr(y.results) != _noaddr(x.results):
                if polluted:
                    # the same schedule on a fresh environment behaves differently because of the state reported above
                    p.violation("C37/history-dependent-render", {
                        "msg": f"tasks={names} warm={warm}: the same schedule {x.order} on two fresh environments gave {x.results!r} and then {y.results!r}",
                        "script": f"from checks import c37\nc37.replay({list(names)!r}, {warm!r}, {list(x.choices)!r})\n"})
                else:
                    raise core.HarnessError(f"nondeterministic replay for {names}")
        got = [("exc", type(x.errors[i]).__name__) if i in x.errors else x.results[i] for i in range(len(names))]
        seen_outcomes.add((tuple(map(str, got)), module_exports(x.env)))
        for i, n in enumerate(names):
            if got[i] != expect[i]:
                sig = f"C37/interference/{n}"
                if n == "impae" and list(names).count("impae") >= 2:
                    # F43: decided structurally (two concurrent callers of the volatile-autoescape macro of one cached module)
                    sig = "C37/interference/volatile-autoescape-in-cached-module-macro"
                p.violation(sig, {
                    "msg": f"tasks={names} warm={warm} schedule={x.order}: task {i} ({n}) rendered {got[i]!r}, alone it renders {expect[i]!r}",
                    "tasks": list(names), "warm": warm, "choices": list(x.choices),
                    "script": f"from checks import c37\nc37.replay({list(names)!r}, {warm!r}, {list(x.choices)!r})\n",
                })
        ex = module_exports(x.env)
        if ex is not None and ex != ref_exports:
            p.violation("C37/module-cache-inconsistent", {
                "msg": f"tasks={names} warm={warm} schedule={x.order}: cached lib module exports {ex!r}, expected {ref_exports!r}",
                "script": f"from checks import c37\nc37.replay({list(names)!r}, {warm!r}, {list(x.choices)!r})\n",
            })

    n, capped = e4.explore_tasks(make_run, on_execution, max_runs=RUN_CAP)
    if capped:
        p.count("tuples_capped", 1)
    p.count("schedules", n)
    p.count("task_tuples", 1)
    for o in seen_outcomes:
        p.sig((names, warm, o))
    p.sample({"tasks": list(names), "warm": warm, "interleavings": n, "solo_outputs": [str(e) for e in expect]}, cap=1)
    return p


def replay(names, warm, choices):
    core.import_all_jinja()
    env = make_env()
    if warm:
        warm_up(env)
    x = e4.run_tasks([env.get_template(n).render_async(**data(i)) for i, n in enumerate(names)], tuple(choices))
    print("schedule (task stepped at each step):", x.order)
    for i, n in enumerate(names):
        print(i, n, "->", repr(x.results.get(i, x.errors.get(i))), " alone:", repr(solo(n, i, warm)))
    print("cached lib module:", module_exports(env))


def run(ctx: core.Ctx):
    core.import_all_jinja()
    ctx.rule = ("every interleaving (order of stepping tasks from await point to await point) of every ordered tuple of "
                "pool templates, fresh and warmed environment; distinct = distinct (task tuple, outputs, cached module exports)")
    ctx.assumptions += [
        "task switches happen only at await points (asyncio semantics); gates are the only real suspensions",
        "each task has private data; the environment, its template cache and Template._module are shared",
    ]
    tuples = [(t, w) for t in itertools.product(POOL, repeat=2) for w in (False, True)]
    tuples += [(t, w) for t in itertools.product(SMALL, repeat=2) for w in (False, True)]
    if not ctx.quick:
        tuples += [(t, w) for t in itertools.product(SMALL, repeat=3) for w in (False, True)]
        tuples += [(t, False) for t in itertools.product(["imp", "fromctx", "macro"], repeat=3)]
    else:
        tuples += [(t, False) for t in itertools.product(["s_imp", "s_from", "s_vol"], repeat=3)]
    ctx.pmap(shard, tuples)
    if ctx.counters.get("tuples_capped"):
        ctx.cap_hit(f"{ctx.counters['tuples_capped']} task tuples stopped at {RUN_CAP} interleavings")
    ctx.cov["states"] = ctx.counters.get("task_tuples", 0)
    ctx.cov["transitions"] = ctx.counters.get("schedules", 0)
    ctx.cov["traces_validated_against_impl"] = ctx.counters.get("schedules", 0)
    ctx.cov["schedules"] = ctx.counters.get("schedules", 0)
    ctx.cov["states_note"] = "states = task tuples (harnesses); transitions = complete interleavings executed on the implementation"
