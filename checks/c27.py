"""C27 — bytecode cache: never stale, tolerant of interrupted writes and damaged entries (E2 + E5)."""
from __future__ import annotations

import io
import os
import shutil

from vf import core, e2

META = {
    "level": "fault_enumeration",
    "engine": "E2+E5",
    "technique": "exhaustive crash-point / torn-write / truncation-offset enumeration of the bytecode cache write and read "
    "paths through a numbering file-system shim, plus explicit-state BFS over load/modify/clear/drop histories of two "
    "environments sharing one cache directory, in lock-step with 'what a fresh compile under the loading environment renders'",
    "text": "(A) BFS to a fixpoint over histories of load(env_i, name), modify(name), clear, drop-entry with two environments on "
    "one FileSystemBytecodeCache directory whose configurations are equal or differ in exactly one compile-relevant option; "
    "every load must render what a fresh compile of the current source under the loading environment renders and never "
    "raise.  (B) every operation of dump_bytecode (temp create, each write incl. every torn prefix length class, close, "
    "replace) is a crash point: the directory is snapshotted at that instant (kill) or the operation raises OSError "
    "(exception); recovery with a fresh Environment on the snapshot must render correctly.  (C) every truncation offset of "
    "a stored entry, a foreign-interpreter magic, a stale checksum and entries swapped between names are cache misses, never "
    "exceptions.  (D) MemcachedBytecodeCache over a fake client that is healthy / raises on get / raises on set / returns "
    "None / returns every truncation of an entry, with ignore_memcache_errors on and off.",
    "note": "Two names x two source versions, two environments; the shim owns jinja2.bccache.{tempfile,os}; a kill loses "
    "nothing that was handed to write() (no user-space buffer model below the write call: the torn prefix enumeration covers "
    "every shorter on-disk state). Cross-configuration sharing (F9) is a known finding with one signature per option.",
    "design_ref": "DESIGN.md §4 C27, §3 E2/E5",
}

BODY = ("{{ x }}|{% if true %}\n  T\n{% endif %}|{{ o.__class__.__name__ }}|${ x }|<% if true %>P<% endif %>|{{ 3 }}|"
        "{% for i in [1, 2] %}{{ i }}{% endfor %}\n")
NAMES = ("a", "b")


def source(name, version):
    return f"{name.upper()}{version}:" + BODY


class Obj:
    pass


DATA = {"x": "<x>", "o": Obj()}


def cfg_kwargs(opt):
    """environment options per configuration id"""
    base = {}
    table = {
        "base": {},
        "equal": {},
        "noreload": {},
        "autoescape": {"autoescape": True},
        "trim_blocks": {"trim_blocks": True},
        "lstrip_blocks": {"lstrip_blocks": True},
        "keep_trailing_newline": {"keep_trailing_newline": True},
        "variable_delimiters": {"variable_start_string": "${", "variable_end_string": "}"},
        "block_delimiters": {"block_start_string": "<%", "block_end_string": "%>"},
        "finalize": {"finalize": _fin},
        "enable_async": {"enable_async": True},
        "optimized": {"optimized": False},
        "sandboxed": {},
        "newline_sequence": {"newline_sequence": "\r\n"},
    }
    base.update(table[opt])
    return base


def _fin(v):
    return f"[{v}]"


OPTIONS = ["equal", "noreload", "autoescape", "trim_blocks", "lstrip_blocks", "keep_trailing_newline", "variable_delimiters",
           "block_delimiters", "finalize", "enable_async", "sandboxed", "newline_sequence", "optimized"]


def make_env(opt, loader, bcc, cache_size=0):
    import jinja2
    from jinja2.sandbox import SandboxedEnvironment

    cls = SandboxedEnvironment if opt == "sandboxed" else jinja2.Environment
    if cache_size:
        # the template cache is on: a cached template decides by its up-to-date callable whether the loader (and the
        # bytecode cache) is asked again
        return cls(loader=loader, bytecode_cache=bcc, cache_size=cache_size, auto_reload=True, **cfg_kwargs(opt))
    # "noreload": the template cache is off (cache_size=0), so every load goes to the loader and the bytecode
    # cache; auto_reload must not matter for what the bytecode cache accepts
    return cls(loader=loader, bytecode_cache=bcc, cache_size=0, auto_reload=(opt != "noreload"), **cfg_kwargs(opt))


def render(env, name):
    try:
        return env.get_template(name).render(**DATA)
    except Exception as e:  # noqa: BLE001 - outcome
        return ("exc", type(e).__name__)


def reference(opt, name, version):
    """R-bcc: what a fresh compile of the current source under this configuration renders."""
    import jinja2

    env = make_env(opt, jinja2.DictLoader({name: source(name, version)}), None)
    return render(env, name)


# ------------------------------------------------------------------ part A

class System:
    def __init__(self, root, slot, opts, cache_size=0, own_bcc=False):
        import jinja2
        from jinja2.bccache import FileSystemBytecodeCache

        self.dir = os.path.join(root, f"s{slot}")
        shutil.rmtree(self.dir, ignore_errors=True)
        os.makedirs(self.dir)
        self.versions = {n: 1 for n in NAMES}
        self.mapping = {n: source(n, 1) for n in NAMES}
        self.loader = jinja2.DictLoader(self.mapping)
        self.bcc = FileSystemBytecodeCache(self.dir)
        # own_bcc: every environment has its own cache OBJECT on the shared directory (two processes)
        self.bccs = [FileSystemBytecodeCache(self.dir) if own_bcc else self.bcc for _ in opts]
        self.envs = [make_env(o, self.loader, b, cache_size) for o, b in zip(opts, self.bccs, strict=True)]
        self.opts = opts
        # model: entries name -> (version, writer index)
        self.m_entries = {}

    def entry_file(self, name):
        return os.path.join(self.dir, "__jinja2_%s.cache" % self.bcc.get_cache_key(name, None))


def canon_of(table):
    def canon(s):
        ents = []
        for n in NAMES:
            f = s.entry_file(n)
            if os.path.exists(f):
                ents.append((n, table.get(open(f, "rb").read(), ("?",))))
            else:
                ents.append((n, None))
        junk = sorted(x for x in os.listdir(s.dir) if not x.endswith(".cache"))
        return (tuple(sorted(s.versions.items())), tuple(ents), tuple(junk))
    return canon


def absm(s):
    ents = tuple((n, s.m_entries.get(n)) for n in NAMES)
    return (tuple(sorted(s.versions.items())), ents, ())


def make_step(refs, same_bytes):
    def step(s, op):
        kind = op[0]
        if kind == "load":
            _, i, n = op
            iobs = render(s.envs[i], n)
            v = s.versions[n]
            ent = s.m_entries.get(n)
            if ent is None or ent[0] != v:
                s.m_entries[n] = (v, 0 if same_bytes else i)
            return iobs, refs[(s.opts[i], n, v)]
        if kind == "modify":
            n = op[1]
            s.versions[n] = 3 - s.versions[n]
            s.mapping[n] = source(n, s.versions[n])
            return None, None
        if kind == "clear":
            s.bcc.clear()
            s.m_entries.clear()
            return None, None
        if kind == "drop":
            n = op[1]
            try:
                os.remove(s.entry_file(n))
            except FileNotFoundError:
                pass
            s.m_entries.pop(n, None)
            return None, None
        raise AssertionError(op)
    return step


OPS = [("load", i, n) for i in (0, 1) for n in NAMES] + [("modify", n) for n in NAMES] + [("clear",)] + [("drop", n) for n in NAMES]


def bytes_table(opts):
    """entry file bytes for (name, version) written by each environment -> (version, writer)."""
    import jinja2
    from jinja2.bccache import FileSystemBytecodeCache

    root = core.scratch_dir("c27t")
    table = {}
    for w, o in enumerate(opts):
        for n in NAMES:
            for v in (1, 2):
                d = os.path.join(root, f"{w}{n}{v}")
                os.makedirs(d)
                bcc = FileSystemBytecodeCache(d)
                env = make_env(o, jinja2.DictLoader({n: source(n, v)}), bcc)
                render(env, n)
                (f,) = [x for x in os.listdir(d) if x.endswith(".cache")]
                table.setdefault(open(os.path.join(d, f), "rb").read(), (v, w))
    shutil.rmtree(root, ignore_errors=True)
    return table


def part_a(opt):
    p = core.Part()
    opts = ("base", "base" if opt == "equal" else opt)
    if opt == "noreload":
        opts = ("noreload", "noreload")
    root = core.scratch_dir("c27a")
    table = bytes_table(opts)
    same_bytes = len({k for k, v in table.items() if v[1] == 0} & {k for k, v in table.items()}) and all(v[1] == 0 for v in table.values())
    refs = {(o, n, v): reference(o, n, v) for o in set(opts) for n in NAMES for v in (1, 2)}
    slot = [0]

    def system():
        slot[0] = (slot[0] + 1) % 6
        return System(root, slot[0], opts)

    res = e2.explore(system, OPS, make_step(refs, same_bytes), canon_of(table), absm, merge_reps=1)
    p.evals += res.transitions
    p.count("states", res.states)
    p.count("transitions", res.transitions)
    p.count("merges_validated", res.merges_validated)
    p.counters["fixpoint_" + opt] = res.fixpoint
    for kd in res.obs_kinds:
        p.sig(("A", opt) + kd)
    for kind, hist, op, a, b in res.violations:
        if kind == "obs":
            sig = "C27/stale/equal-config" if opt in ("equal", "noreload") else f"C27/cross-config/{opt}"
        else:
            sig = f"C27/cache-state/{opt}"
        p.violation(sig, {
            "msg": f"configs base vs {opt}: history {list(hist)} then {op}: {'rendered' if kind == 'obs' else 'cache dir'} "
                   f"{a!r}, expected {b!r}",
            "script": f"from checks import c27\nc27.replay_a({opt!r}, {list(hist) + [op]!r})\n",
        })
    if res.sample_histories:
        p.sample({"part": "A", "configs": list(opts), "history": res.sample_histories[0]}, cap=1)
    shutil.rmtree(root, ignore_errors=True)
    return p


def part_a_flat(arg):
    """every history (no state merging at all) up to the depth, for equal configurations: what survives in objects
    (an environment's template cache, a cache object's private memo) is invisible to the directory-based canonical
    state of the search above, so these variants are enumerated flat"""
    variant, first, depth = arg
    p = core.Part()
    opts = ("base", "base")
    root = core.scratch_dir("c27f")
    refs = {(o, n, v): reference(o, n, v) for o in set(opts) for n in NAMES for v in (1, 2)}
    kw = {"shared-object": {}, "own-objects": {"own_bcc": True}, "template-cache": {"cache_size": 50},
          "template-cache-own-objects": {"cache_size": 50, "own_bcc": True}}[variant]
    slot = [0]

    def system():
        slot[0] = (slot[0] + 1) % 6
        return System(root, slot[0], opts, **kw)

    step0 = make_step(refs, True)

    def step(s, op):
        if op[0] == "clear":
            for b in s.bccs:
                b.clear()
            s.m_entries.clear()
            return None, None
        return step0(s, op)

    ops = [o for o in OPS if o[0] != "drop"]
    count, bad = e2.enumerate_histories(system, ops, step, depth, prefix_shard=(first,))
    p.evals += count
    p.count("flat_histories", count)
    p.sig(("A-flat", variant, first[0], bool(bad)))
    for hist, op, a, b in bad:
        p.violation(f"C27/stale/equal-config/{variant}", {
            "msg": f"two equally configured environments ({variant}): history {list(hist)} then {op}: rendered {a!r}, expected {b!r}",
            "script": f"from checks import c27\nprint({list(hist) + [op]!r})\n"})
    p.sample({"part": "A-flat", "variant": variant, "first": list(first), "depth": depth}, cap=1)
    shutil.rmtree(root, ignore_errors=True)
    return p


def replay_a(opt, hist):
    core.import_all_jinja()
    opts = ("base", "base" if opt == "equal" else opt)
    if opt == "noreload":
        opts = ("noreload", "noreload")
    root = core.scratch_dir("c27r")
    s = System(root, 0, opts)
    refs = {(o, n, v): reference(o, n, v) for o in set(opts) for n in NAMES for v in (1, 2)}
    step = make_step(refs, False)
    for op in hist:
        print(tuple(op), "->", step(s, tuple(op)))


# ------------------------------------------------------------------ parts B, C, D

class Kill(BaseException):
    pass


CONCURRENT = ("clear", "occupy")


class Shim:
    """numbers every operation of FileSystemBytecodeCache.dump_bytecode."""

    def __init__(self, crash_at=None, flavour="kill", tear=None, snapshot=None):
        self.n = 0
        self.crash_at = crash_at
        self.flavour = flavour
        self.tear = tear
        self.snapshot = snapshot
        self.log = []

    def op(self, kind, detail=None):
        self.n += 1
        self.log.append((kind, detail))
        return self.n == self.crash_at

    def fail(self, kind):
        if self.flavour == "kill":
            self.snapshot()
            raise Kill(kind)
        if self.flavour in CONCURRENT:
            # not a fault of this process: another process acts on the shared directory at this instant
            self.snapshot()
            return
        raise OSError(28, f"injected failure at {kind}")


def install_shim(shim):
    import tempfile as real_tempfile

    import jinja2.bccache as bc

    class F:
        def __init__(self, f):
            self._f = f
            self.name = f.name

        def write(self, data):
            crash = shim.op("write", len(data))
            if crash:
                if shim.tear is not None:
                    self._f.write(data[: shim.tear])
                self._f.flush()
                shim.fail("write")
            r = self._f.write(data)
            self._f.flush()
            return r

        def __enter__(self):
            return self

        def __exit__(self, *a):
            crash = shim.op("close") if a[0] is None else False
            self._f.close()
            if crash:
                shim.fail("close")
            return False

        def __getattr__(self, k):
            return getattr(self._f, k)

    class TF:
        @staticmethod
        def NamedTemporaryFile(**kw):  # noqa: N802
            if shim.op("mktemp"):
                shim.fail("mktemp")
            f = real_tempfile.NamedTemporaryFile(**kw)
            if shim.op("mktemp-done"):
                f.flush()
                shim.fail("mktemp-done")
            return F(f)

    class OS:
        path = os.path
        listdir = staticmethod(os.listdir)

        @staticmethod
        def replace(a, b):
            if shim.op("replace"):
                shim.fail("replace")
            os.replace(a, b)
            if shim.op("replace-done"):
                shim.fail("replace-done")

        @staticmethod
        def remove(a):
            shim.op("remove")
            os.remove(a)

        def __getattr__(self, k):
            return getattr(os, k)

    bc.tempfile = TF
    bc.os = OS()


def uninstall_shim():
    import tempfile as real_tempfile

    import jinja2.bccache as bc

    bc.tempfile = real_tempfile
    bc.os = os


def part_b(arg):
    """crash points of the write path: state before = empty / old valid entry for version 1."""
    import jinja2
    from jinja2.bccache import FileSystemBytecodeCache

    prior, flavour = arg
    p = core.Part()
    root = core.scratch_dir("c27b")
    ref = {v: reference("base", "a", v) for v in (1, 2)}
    # "clear": every cache instance uses a pattern that also matches the temp-file names, so another process
    # calling clear() removes a half-written temp file too (the situation dump_bytecode's comments describe)
    kw = {"pattern": "%s"} if flavour == "clear" else {}
    _FS = FileSystemBytecodeCache

    def FileSystemBytecodeCache(d):  # noqa: N802
        return _FS(d, **kw)

    def fresh(tag):
        d = os.path.join(root, tag)
        shutil.rmtree(d, ignore_errors=True)
        os.makedirs(d)
        mapping = {"a": source("a", 1)}
        if prior == "old-entry":
            env = make_env("base", jinja2.DictLoader(mapping), FileSystemBytecodeCache(d))
            render(env, "a")
        mapping["a"] = source("a", 2)
        return d, mapping

    # clean run counts the operations and the size of every write
    d, mapping = fresh("clean")
    shim = Shim()
    install_shim(shim)
    try:
        env = make_env("base", jinja2.DictLoader(mapping), FileSystemBytecodeCache(d))
        out = render(env, "a")
    finally:
        uninstall_shim()
    if out != ref[2]:
        p.violation("C27/clean-write", {"msg": f"clean write path rendered {out!r}"})
    ops = list(shim.log)
    p.count("write_path_operations", len(ops))
    for k, (kind, detail) in enumerate(ops, 1):
        tears = [None]
        if kind == "write":
            n = detail
            tears = sorted({0, 1, 2, n // 2, n - 2, n - 1} & set(range(0, n))) if flavour == "kill" else [0, max(0, n // 2)]
            if flavour == "kill" and n <= 64:
                tears = list(range(0, n))
        for tear in tears:
            snapdir = os.path.join(root, "snap")

            def snapshot():
                if flavour == "clear":
                    # another process: FileSystemBytecodeCache(d, pattern).clear(), with the real os module
                    for fn in os.listdir(d2):
                        try:
                            os.remove(os.path.join(d2, fn))
                        except OSError:
                            pass
                    return
                if flavour == "occupy":
                    # another process put a directory where the entry is to be renamed to
                    target = os.path.join(d2, "__jinja2_%s.cache" % _FS(d2).get_cache_key("a", None))
                    if os.path.isfile(target):
                        os.remove(target)
                    os.makedirs(target, exist_ok=True)
                    return
                shutil.rmtree(snapdir, ignore_errors=True)
                shutil.copytree(d2, snapdir)

            d2, mapping2 = fresh("run")
            shim = Shim(crash_at=k, flavour=flavour, tear=tear, snapshot=snapshot)
            install_shim(shim)
            outcome = None
            try:
                env = make_env("base", jinja2.DictLoader(mapping2), FileSystemBytecodeCache(d2))
                try:
                    outcome = env.get_template("a").render(**DATA)
                except Kill:
                    outcome = "killed"
                except OSError as e:
                    outcome = ("exc", "OSError", e.errno)
                except Exception as e:  # noqa: BLE001
                    outcome = ("exc", type(e).__name__)
            finally:
                uninstall_shim()
            p.evals += 1
            p.count("crash_points")
            recover_dir = snapdir if flavour == "kill" else d2
            if flavour == "kill" and outcome != "killed":
                raise core.HarnessError(f"kill at op {k} {kind} did not fire: {outcome}")
            if flavour in CONCURRENT and outcome != ref[2]:
                # a clear() / an unreplaceable target produced by another process is part of the history the
                # property quantifies over, not an I/O fault of this process: the load must still render
                p.violation(f"C27/concurrent-{flavour}/{kind}", {
                    "msg": f"another process {'cleared the directory' if flavour == 'clear' else 'occupied the entry path with a directory'} "
                           f"at op {k} ({kind}) with {prior}: get_template+render gave {outcome!r}, expected {ref[2]!r}",
                    "script": f"from checks import c27\nc27.replay_b({prior!r}, {flavour!r}, {k}, {tear!r})\n"})
            if flavour == "exception":
                # an I/O error of the cache's own write either propagates as that OSError or is absorbed; nothing else
                okexc = outcome == ref[2] or (isinstance(outcome, tuple) and outcome[:2] == ("exc", "OSError"))
                if not okexc:
                    p.violation(f"C27/write-fault/{kind}", {"msg": f"OSError injected at op {k} ({kind}, tear={tear}) with {prior}: get_template+render gave {outcome!r}",
                                                             "script": f"from checks import c27\nc27.replay_b({prior!r}, {flavour!r}, {k}, {tear!r})\n"})
            # recovery: a fresh environment on what is on disk
            env2 = make_env("base", jinja2.DictLoader({"a": source("a", 2)}), FileSystemBytecodeCache(recover_dir))
            rec = render(env2, "a")
            files = sorted(os.listdir(recover_dir))
            final = [f for f in files if f.endswith(".cache")]
            p.sig(("B", prior, flavour, kind, tear is not None and tear > 0, str(outcome)[:20], len(files)))
            if rec != ref[2]:
                p.violation(f"C27/recovery/{flavour}/{kind}", {
                    "msg": f"{flavour} at op {k} ({kind}, torn prefix {tear}) with {prior}: recovery rendered {rec!r}, expected {ref[2]!r}; dir={files}",
                    "script": f"from checks import c27\nc27.replay_b({prior!r}, {flavour!r}, {k}, {tear!r})\n"})
            # a second recovery run (now the cache may hold what the first recovery wrote)
            rec2 = render(make_env("base", jinja2.DictLoader({"a": source("a", 2)}), FileSystemBytecodeCache(recover_dir)), "a")
            if rec2 != ref[2]:
                p.violation(f"C27/recovery2/{flavour}/{kind}", {"msg": f"second recovery after {flavour} at op {k}: {rec2!r}"})
            # with the OLD source still current the old entry (if it survived) must still be good
            if prior == "old-entry" and flavour == "kill" and kind != "replace-done":
                shutil.rmtree(os.path.join(root, "old"), ignore_errors=True)
                shutil.copytree(snapdir, os.path.join(root, "old"))
                rec1 = render(make_env("base", jinja2.DictLoader({"a": source("a", 1)}), FileSystemBytecodeCache(os.path.join(root, "old"))), "a")
                if rec1 != ref[1]:
                    p.violation(f"C27/recovery-old/{kind}", {"msg": f"kill at op {k} ({kind}): old source renders {rec1!r}"})
    p.sample({"part": "B", "prior": prior, "flavour": flavour, "operations": [list(o) for o in ops]}, cap=1)
    shutil.rmtree(root, ignore_errors=True)
    return p


def replay_b(prior, flavour, k, tear):
    print("see checks/c27.py part_b: prior=%s flavour=%s crash at operation %s torn prefix %s" % (prior, flavour, k, tear))


def part_c(arg):
    """damaged stored entries: every truncation offset, foreign magic, stale checksum, swapped entries."""
    import jinja2
    import jinja2.bccache as bc
    from jinja2.bccache import FileSystemBytecodeCache

    opt, lo, hi = arg
    p = core.Part()
    root = core.scratch_dir("c27c")
    d = os.path.join(root, "d")
    os.makedirs(d)
    mapping = {"a": source("a", 1), "b": source("b", 1)}
    bcc = FileSystemBytecodeCache(d)
    env = make_env(opt, jinja2.DictLoader(mapping), bcc)
    render(env, "a")
    render(env, "b")
    fa = os.path.join(d, "__jinja2_%s.cache" % bcc.get_cache_key("a", None))
    fb = os.path.join(d, "__jinja2_%s.cache" % bcc.get_cache_key("b", None))
    good_a = open(fa, "rb").read()
    good_b = open(fb, "rb").read()
    ref = reference(opt, "a", 1)
    ref2 = reference(opt, "a", 2)

    def check(label, data, expect, mapping_a=None):
        with open(fa, "wb") as f:
            f.write(data)
        m = {"a": mapping_a or source("a", 1)}
        try:
            got = make_env(opt, jinja2.DictLoader(m), FileSystemBytecodeCache(d)).get_template("a").render(**DATA)
        except Exception as e:  # noqa: BLE001
            got = ("exc", type(e).__name__)
        p.evals += 1
        if got != expect:
            p.violation(f"C27/damaged-entry/{label.split('@')[0]}", {
                "msg": f"[{opt}] entry {label}: get_template/render gave {got!r}, expected {expect!r}",
                "script": "from checks import c27\nprint(%r)\n" % f"damaged entry {label}"})
        return got

    if lo == 0:
        check("intact", good_a, ref)
        p.sig(("C", opt, "intact"))
        magic_len = len(bc.bc_magic)
        # other interpreter version: same layout, different magic
        for i in range(magic_len):
            foreign = bytearray(good_a)
            foreign[i] ^= 0x01
            check(f"foreign-magic@{i}", bytes(foreign), ref)
        p.sig(("C", opt, "foreign-magic"))
        # entries written by OTHER interpreter versions: the cache module is loaded a second time with
        # sys.version_info / sys.hexversion of a neighbouring release, which yields the magic that release
        # would write; the entry carries the checksum of the current source but the code of another source,
        # so accepting it is visible in the output
        other_code = open(fb, "rb").read()[len(bc.bc_magic):]
        import pickle as _p

        other_payload = other_code[len(_p.dumps(bcc.get_source_checksum(source("b", 1)), 2)):]
        mine = _p.dumps(bcc.get_source_checksum(source("a", 1)), 2)
        for ver in ((3, 11), (3, 13), (3, 9), (2, 7), (4, 0)):
            fm = foreign_magic(ver)
            # (if the magic does not distinguish the versions the crafted entry is simply accepted below)
            check(f"foreign-interpreter@{ver[0]}.{ver[1]}", fm + mine + other_payload, ref)
        p.sig(("C", opt, "foreign-interpreter"))
        check("stale-checksum", good_a, ref2, mapping_a=source("a", 2))
        p.sig(("C", opt, "stale"))
        check("swapped", good_b, ref)
        p.sig(("C", opt, "swapped"))
        check("empty", b"", ref)
        check("garbage-after", good_a + b"\x00garbage", ref)
        # an entry that exists but cannot be opened as a file (a directory at its path): a miss, not an error
        os.remove(fa)
        os.makedirs(fa)
        try:
            got = make_env(opt, jinja2.DictLoader({"a": source("a", 1)}), FileSystemBytecodeCache(d)).get_template("a").render(**DATA)
        except Exception as e:  # noqa: BLE001
            got = ("exc", type(e).__name__)
        p.evals += 1
        p.sig(("C", opt, "unopenable"))
        if got != ref:
            p.violation("C27/damaged-entry/unopenable", {"msg": f"[{opt}] a directory at the entry's path: get_template/render gave {got!r}, expected {ref!r}",
                                                          "script": "from checks import c27\nprint('directory at entry path')\n"})
        os.rmdir(fa)
        p.count("entry_bytes", len(good_a))
    for off in range(max(lo, 1), min(hi, len(good_a))):
        check(f"truncated@{off}", good_a[:off], ref)
        p.sig(("C", opt, "trunc", off < len(bc.bc_magic), off < len(bc.bc_magic) + 60))
        p.count("truncation_offsets")
    if lo == 0:
        p.sample({"part": "C", "config": opt, "entry_bytes": len(good_a), "damage": ["truncated@1..len-1", "foreign-magic@i", "stale-checksum", "swapped", "empty"]}, cap=1)
    shutil.rmtree(root, ignore_errors=True)
    return p


def foreign_magic(ver):
    """bc_magic as jinja2.bccache computes it under another interpreter version"""
    import importlib.util
    import sys

    import jinja2.bccache as bc

    class VI(tuple):
        major = property(lambda self: self[0])
        minor = property(lambda self: self[1])

    real_vi, real_hex = sys.version_info, sys.hexversion
    spec = importlib.util.spec_from_file_location("jinja2._bccache_foreign", bc.__file__)
    mod = importlib.util.module_from_spec(spec)
    mod.__package__ = "jinja2"
    try:
        sys.version_info = VI((ver[0], ver[1], 0, "final", 0))
        sys.hexversion = (ver[0] << 24) | (ver[1] << 16) | 0xF0
        spec.loader.exec_module(mod)
    finally:
        sys.version_info, sys.hexversion = real_vi, real_hex
    return mod.bc_magic


class FakeClient:
    def __init__(self, mode, store=None):
        self.mode = mode
        self.store = {} if store is None else store
        self.calls = []

    def get(self, key):
        self.calls.append(("get", key))
        if self.mode == "raise-get":
            raise ConnectionError("memcache down")
        if self.mode == "none":
            return None
        v = self.store.get(key)
        if isinstance(self.mode, tuple) and self.mode[0] == "trunc" and v is not None:
            return v[: self.mode[1]]
        return v

    def set(self, key, value, timeout=None):
        self.calls.append(("set", key))
        if self.mode == "raise-set":
            raise ConnectionError("memcache down")
        self.store[key] = value


def part_d(arg):
    import jinja2
    from jinja2.bccache import MemcachedBytecodeCache

    ignore, lo, hi = arg
    p = core.Part()
    ref = {v: reference("base", "a", v) for v in (1, 2)}
    # a healthy store holding the entry for version 1
    store = {}
    env = make_env("base", jinja2.DictLoader({"a": source("a", 1)}), MemcachedBytecodeCache(FakeClient("ok", store), ignore_memcache_errors=ignore))
    render(env, "a")
    (key,) = list(store)
    n = len(store[key])
    modes = ["ok", "raise-get", "raise-set", "none"] if lo == 0 else []
    modes += [("trunc", k) for k in range(max(lo, 0), min(hi, n))]
    for mode in modes:
        for version in (1, 2):
            st = dict(store)
            client = FakeClient(mode, st)
            env = make_env("base", jinja2.DictLoader({"a": source("a", version)}),
                           MemcachedBytecodeCache(client, ignore_memcache_errors=ignore))
            got = render(env, "a")
            p.evals += 1
            raises_own = mode in ("raise-get", "raise-set") and not ignore
            if mode == "raise-set" and version == 1:
                raises_own = False  # a hit does not write
            expect = ("exc", "ConnectionError") if raises_own else ref[version]
            label = mode if isinstance(mode, str) else "trunc"
            p.sig(("D", ignore, label, version, str(got)[:12]))
            if got != expect:
                p.violation(f"C27/memcached/{label}", {
                    "msg": f"memcached client mode={mode} ignore_errors={ignore} source v{version}: got {got!r}, expected {expect!r}",
                    "script": "from checks import c27\nprint(%r)\n" % f"memcached {mode} ignore={ignore} v{version}"})
    if lo == 0:
        p.sample({"part": "D", "ignore_memcache_errors": ignore, "client_modes": ["ok", "raise-get", "raise-set", "none", "trunc@k"]}, cap=1)
    return p


def dispatch(arg):
    part, a = arg
    return {"A": part_a, "F": part_a_flat, "B": part_b, "C": part_c, "D": part_d}[part](a)


def run(ctx: core.Ctx):
    core.import_all_jinja()
    ctx.rule = ("A: every operation on every reachable (source versions, cache entries) state for each configuration pair, plus every "
                "history without merging up to the flat depth for equal configurations (shared / private cache objects, template cache on); "
                "B: every write-path operation x torn prefix x {kill, OSError, concurrent clear(), entry path occupied} x {empty dir, old entry}; C: every truncation "
                "offset + foreign magic + stale + swapped; D: every fake-memcached mode x truncation; distinct = distinct "
                "(part, configuration, operation/damage kind, outcome)")
    ctx.assumptions += [
        "a kill is modelled at operation granularity of dump_bytecode with every torn prefix class of each write; os.replace is atomic",
        "recovery = a fresh Environment over the directory as it was at the kill instant (no clean-up code has run)",
        "OSError from the cache's own write path may propagate (dump_bytecode is documented to raise); it must leave a recoverable directory",
    ]
    opts = OPTIONS if not ctx.quick else ["equal", "noreload", "autoescape", "trim_blocks", "variable_delimiters", "finalize", "enable_async", "sandboxed"]
    shards = [("A", o) for o in opts]
    fdepth = 4 if ctx.quick else 5
    flat_ops = [o for o in OPS if o[0] != "drop"]
    shards += [("F", (v, o, fdepth)) for v in ("shared-object", "own-objects", "template-cache", "template-cache-own-objects") for o in flat_ops]
    ctx.cov["flat_history_depth"] = fdepth
    shards += [("B", (prior, fl)) for prior in ("empty", "old-entry") for fl in ("kill", "exception", "clear", "occupy")]
    step = 200 if ctx.quick else 100
    for o in (["base", "autoescape"] if ctx.quick else ["base", "autoescape", "enable_async", "sandboxed"]):
        shards += [("C", (o, lo, lo + step)) for lo in range(0, 4000, step)]
    for ig in (True, False):
        shards += [("D", (ig, lo, lo + step)) for lo in range(0, 4000, step)]
    ctx.pmap(dispatch, shards)
    ctx.cov["states"] = ctx.counters.get("states", 0)
    ctx.cov["transitions"] = ctx.counters.get("transitions", 0)
    ctx.cov["traces_validated_against_impl"] = ctx.counters.get("transitions", 0)
    ctx.cov["fault_positions_total"] = ctx.counters.get("crash_points", 0) + ctx.counters.get("truncation_offsets", 0)
